#!/bin/sh
# Build the framework from files on disk only (offline).
set -e
here="$(cd "$(dirname "$0")" && pwd)"
cd "$here"
/venv/bin/python harness/gen_all.py
cd lean
export MIMALLOC_PURGE_DELAY=-1
lake build YatimlModel driver
