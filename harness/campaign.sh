#!/bin/bash
# Development tool (not a registered command): re-run every behaviour-preserving refactoring and every
# seeded change against the checks, on a snapshot of the repository ($VP_RUN_REPO, see `vp run --with-repo`).
#   vp run --with-repo --timeout 6h -- harness/campaign.sh
export VERIF_REPO=${VP_RUN_REPO:-/repo}
out=${CAMPAIGN_OUT:-/tmp/campaign_out}
mkdir -p $out
echo "repo: $VERIF_REPO $(git -C $VERIF_REPO log --oneline | head -1)"
./setup.sh > $out/setup.log 2>&1
echo "== harmless rewrites =="
# CAMPAIGN_SEEDS: a shell glob of seeded/<id> names to restrict the run to (the refactorings are skipped then)
for h in $( [ -z "$CAMPAIGN_SEEDS" ] && ls -d harmless/*/ ); do
  n=$(basename $h)
  git -C $VERIF_REPO apply $(pwd)/$h/patch.diff || { echo "$n: patch does not apply"; continue; }
  for i in 01 02 03 04 05 06 07 08 09 10 11 12 13 14 15 16 17 18; do
    o=$(./check C$i 2>&1 | grep -v KNOWN)
    if echo "$o" | grep -q "VIOLATION\|rror"; then
      echo "$n C$i ALARM: $(echo "$o" | grep VIOLATION | head -1 | cut -c1-150)"
      cp evidence/replays/C$i-*.json $out/ 2>/dev/null
    fi
  done
  git -C $VERIF_REPO checkout -- .
  echo "$n done"
done
echo "== seeded changes =="
[ -n "$CAMPAIGN_HARMLESS_ONLY" ] && { echo ALLDONE; exit 0; }
for d in seeded/${CAMPAIGN_SEEDS:-*}/; do
  n=$(basename $d); C=${n%%-*}
  /venv/bin/python harness/seedtest.py $C $(pwd)/seeded/$n --keep $n > $out/seedlog_$n.txt 2>&1
  echo "$n detected=$(grep -c '"check_exit": 1' $out/seedlog_$n.txt) $(grep -o 'no-failing-input-found' $out/seedlog_$n.txt | head -1) $(grep -o 'patch does not apply' $out/seedlog_$n.txt | head -1)"
done
tar czf $out/seeded_metas.tgz seeded/*/meta.json
echo ALLDONE
