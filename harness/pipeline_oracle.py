"""C02's reference semantics: the documented YAtiML pipeline, written top-down and independently of
both yatiml's recogniser/constructors and the Lean model.

    load(node, T):  the set of types the node is recognised as (under T) must have exactly one element;
                    built-ins by exact YAML tag; lists / dicts element-wise (string or string-like keys);
                    unions member-wise; a class by its most derived matching registered concrete
                    descendants (a mapping that has every required parameter, each present parameter
                    matching its type, a dashed key standing in for an underscored one); enums and
                    string-likes by scalar kind.
                    Then: savourise (user hooks, bases first, run as given), every key a string, unknown
                    keys only with _yatiml_extra (as an ordered mapping of plain data), no missing
                    required key, every attribute value loaded against its parameter type, and the
                    constructor called with exactly those keyword arguments.

Anything the reference does not define (merge keys, repeated keys in a class mapping, the literal
keys `_yatiml_extra` / `self`, custom recognisers) raises `Undefined`; the case is then skipped and
counted, never guessed.
"""
import copy
import datetime
import pathlib
from collections import OrderedDict

import classmodel as CM

CORE = 'tag:yaml.org,2002:'
SCALAR_TAG = {'str': 'str', 'int': 'int', 'float': 'float', 'bool': 'bool', 'boolfix': 'bool',
              'null': 'null', 'date': 'timestamp', 'path': 'str'}


class Reject(Exception):
    """the documented pipeline refuses the document (RecognitionError expected)"""


class Undefined(Exception):
    """outside what the reference semantics defines"""


class Oracle:
    def __init__(self, model, yaml, yatiml, loader_cls, lazy=False):
        self.model = model
        self.yaml = yaml
        self.yatiml = yatiml
        self.by = model.by_name_spec
        self.loader_cls = loader_cls
        self.safe = yaml.constructor.SafeConstructor()
        # lazy: a class outside the reference (custom recogniser, inherited constructor) makes a
        # question Undefined only when the question reaches that class
        self.outside = set()
        for c in model.spec:
            if c.get('recognize'):
                if not lazy:
                    raise Undefined('custom recogniser')
                self.outside.add(c['name'])
            if c['kind'] == 'plain' and not c.get('define_init', True):
                if not lazy:
                    raise Undefined('inherited constructor')
                self.outside.add(c['name'])

    # ---- the class graph ---------------------------------------------------------------------
    def registered(self, name):
        return self.by[name].get('registered', True)

    def direct_subclasses(self, name):
        cls = self.model.classes[name]
        return [c['name'] for c in self.model.spec
                if self.registered(c['name']) and cls in self.model.classes[c['name']].__bases__]

    def abstract(self, name):
        import abc
        import inspect
        cls = self.model.classes[name]
        # the documentation: abstract = has abstract methods, or lists ABC among its bases
        return inspect.isabstract(cls) or abc.ABC in cls.__bases__

    # ---- recognition: which types is this node? ---------------------------------------------------
    def types(self, node, t):
        yaml = self.yaml
        k = t[0]
        if k in SCALAR_TAG:
            ok = isinstance(node, yaml.ScalarNode) and node.tag == CORE + SCALAR_TAG[k]
            return [t] if ok else []
        if k == 'any':
            return [t]
        if k == 'seq':
            ok = isinstance(node, yaml.SequenceNode) and all(self.types(x, t[2]) for x in node.value)
            return [t] if ok else []
        if k == 'map':
            kt = t[2]
            if not (kt == ('str',) or (kt[0] == 'cls' and self.by[kt[1]]['kind'] in ('str', 'userstring', 'yatimlstring'))):
                raise Undefined('key type')
            ok = isinstance(node, yaml.MappingNode) and all(
                self.types(kk, kt) and self.types(v, t[3]) for kk, v in node.value)
            return [t] if ok else []
        if k == 'union':
            out = []
            for m in t[1]:
                for x in self.types(node, m):
                    if x not in out:
                        out.append(x)
            if ('bool',) in out and ('boolfix',) in out:
                out.remove(('boolfix',))
            return out
        if k == 'cls':
            if not self.registered(t[1]):
                raise Undefined('unregistered class in a type')
            return self.class_types(node, t[1])
        raise Undefined(str(t))

    def candidates(self, node, name):
        if name in self.outside:
            raise Undefined('class outside the reference')
        found = []
        for s in self.direct_subclasses(name):
            for x in self.class_types(node, s):
                if x not in found:
                    found.append(x)
        if not found and not self.abstract(name) and self.matches_class(node, name):
            found = [('cls', name)]
        return found

    def class_types(self, node, name):
        found = self.candidates(node, name)
        tagged = None
        if not node.tag.startswith('tag:yaml.org,2002'):
            tagged = ('cls', node.tag[1:]) if node.tag.startswith('!') and node.tag[1:] in self.by \
                and self.registered(node.tag[1:]) else ('none',)
        if len(found) > 1:
            if node.tag.startswith('!') and ('cls', node.tag[1:]) in found:
                return [('cls', node.tag[1:])]
            return found
        if len(found) == 1 and tagged is not None:
            return found if tagged in found else []
        return found

    def matches_class(self, node, name):
        yaml = self.yaml
        c = self.by[name]
        if name in self.outside:
            raise Undefined('class outside the reference')
        if c['kind'] == 'enum':
            return isinstance(node, yaml.ScalarNode) and node.tag in (CORE + 'str', CORE + 'bool')
        if c['kind'] in ('str', 'userstring', 'yatimlstring'):
            return isinstance(node, yaml.ScalarNode) and node.tag == CORE + 'str'
        if not isinstance(node, yaml.MappingNode):
            return False
        for p in c['params']:
            val = self.attribute(node, p['name'])
            if val is None:
                val = self.attribute(node, p['name'].replace('_', '-'))
            if val is None:
                if p.get('default', CM.NODEFAULT) is CM.NODEFAULT:
                    return False
                continue
            pt = p['type'] if p.get('type') is not None else ('any',)
            if not self.types(val, pt):
                return False
        return True

    def attribute(self, node, key):
        hits = [v for kk, v in node.value if isinstance(kk, self.yaml.ScalarNode) and kk.value == key]
        if len(hits) > 1:
            # a parameter given twice: the document is refused whatever else might match
            raise Reject('repeated key ' + key)
        return hits[0] if hits else None

    # ---- loading ----------------------------------------------------------------------------------
    def unshare(self, node, above=()):
        """an alias stands for a copy of the anchored node: the node graph as a tree"""
        yaml = self.yaml
        if any(node is a for a in above):
            raise Reject('a recursive alias')
        above = above + (node,)
        if isinstance(node, yaml.ScalarNode):
            return yaml.ScalarNode(node.tag, node.value, node.start_mark, node.end_mark, style=node.style)
        if isinstance(node, yaml.SequenceNode):
            return yaml.SequenceNode(node.tag, [self.unshare(x, above) for x in node.value],
                                     node.start_mark, node.end_mark)
        return yaml.MappingNode(node.tag, [(self.unshare(k, above), self.unshare(v, above))
                                           for k, v in node.value], node.start_mark, node.end_mark)

    def load_document(self, node, t):
        return self.load(self.unshare(node), t)

    def load(self, node, t):
        yaml = self.yaml
        for n in self.walk(node):
            if n.tag in (CORE + 'merge', CORE + 'value'):
                raise Undefined('merge / value key')
        ts = self.types(node, t)
        if len(ts) != 1:
            raise Reject('recognised as {} types'.format(len(ts)))
        r = ts[0]
        k = r[0]
        if k == 'any':
            return self.plain(node)
        if k in SCALAR_TAG:
            return self.scalar(node, k)
        if k == 'seq':
            if node.tag != CORE + 'seq':
                raise Reject('a list must be a !!seq')
            return [self.load(x, r[2]) for x in node.value]
        if k == 'map':
            if node.tag != CORE + 'map':
                raise Reject('a dict must be a !!map')
            out = OrderedDict()
            for kk, v in node.value:
                key = self.load(kk, r[2])
                out[key] = self.load(v, r[3])
            return out
        if k == 'cls':
            return self.construct(node, r[1])
        raise Undefined(str(r))

    def walk(self, node):
        yield node
        if isinstance(node, self.yaml.SequenceNode):
            for x in node.value:
                yield from self.walk(x)
        elif isinstance(node, self.yaml.MappingNode):
            for kk, v in node.value:
                yield from self.walk(kk)
                yield from self.walk(v)

    def scalar(self, node, k):
        try:
            if k == 'str':
                return node.value
            if k == 'path':
                return pathlib.Path(node.value)
            n2 = self.yaml.ScalarNode(CORE + SCALAR_TAG[k], node.value)
            v = self.safe.construct_object(n2, deep=True)
            if k == 'date' and not isinstance(v, (datetime.date, datetime.datetime)):
                raise Reject('not a date')
            return v
        except Reject:
            raise
        except Exception as e:  # noqa
            raise Reject('scalar {!r} refused: {}'.format(node.value, type(e).__name__))

    def plain(self, node):
        """plain data: collections are read by their form; scalars by their core tag, or by their form
        when the tag is not a core one"""
        yaml = self.yaml
        n2 = self.retag(node)
        try:
            con = yaml.constructor.SafeConstructor()
            return con.construct_object(n2, deep=True)
        except Exception as e:  # noqa
            raise Reject('plain data refused: {}'.format(type(e).__name__))

    def retag(self, node):
        yaml = self.yaml
        core = node.tag.startswith(CORE)
        if isinstance(node, yaml.ScalarNode):
            tag = node.tag
            if not core:
                inst = self.loader_cls('')
                tag = inst.resolve(yaml.ScalarNode, node.value, (True, False))
                inst.dispose()
            return yaml.ScalarNode(tag, node.value, node.start_mark, node.end_mark)
        if isinstance(node, yaml.SequenceNode):
            return yaml.SequenceNode(CORE + 'seq', [self.retag(x) for x in node.value],
                                     node.start_mark, node.end_mark)
        return yaml.MappingNode(CORE + 'map',
                                [(self.retag(kk), self.retag(v)) for kk, v in node.value],
                                node.start_mark, node.end_mark)

    def construct(self, node, name):
        yaml = self.yaml
        c = self.by[name]
        cls = self.model.classes[name]
        # savourise: the user's hooks, bases first, on a copy
        work = copy.deepcopy(node)
        scalar_kind = c['kind'] in ('enum', 'str', 'userstring', 'yatimlstring')
        if not scalar_kind:
            work.tag = '!' + name
        elif c['kind'] == 'enum':
            work.tag = CORE + 'str'
        for k in reversed(cls.__mro__):
            if '_yatiml_savorize' in vars(k):
                try:
                    wrapper = self.yatiml.Node(work)
                    vars(k)['_yatiml_savorize'].__func__(cls, wrapper)
                    work = wrapper.yaml_node
                except Exception as e:  # noqa
                    raise Reject('savorize refused: ' + type(e).__name__)
        if scalar_kind and not isinstance(work, yaml.ScalarNode):
            raise Reject('not a scalar after savorize')
        if c['kind'] == 'enum':
            try:
                return cls[work.value]
            except KeyError:
                raise Reject('not a member')
        if scalar_kind:
            try:
                return cls(work.value)
            except Exception as e:  # noqa
                raise Reject('string-like refused: ' + type(e).__name__)
        if not isinstance(work, yaml.MappingNode):
            raise Reject('not a mapping after savorize')
        params = OrderedDict((p['name'], p) for p in c['params'])
        kwargs = OrderedDict()
        extras = OrderedDict()
        seen = set()
        for kk, v in work.value:
            if not (isinstance(kk, yaml.ScalarNode) and kk.tag == CORE + 'str'):
                raise Reject('a key that is not a string')
            key = kk.value
            if key in ('_yatiml_extra', 'self', 'yatiml_extra'):
                raise Undefined('reserved key')
            if key in seen and key in params:
                raise Reject('repeated key ' + key)
            seen.add(key)
            if key in params:
                pt = params[key]['type'] if params[key].get('type') is not None else ('any',)
                kwargs[key] = self.load(v, pt)
            elif c.get('extra'):
                extras[key] = self.plain(v)
            else:
                raise Reject('unknown attribute ' + key)
        for pname, p in params.items():
            if pname not in kwargs and p.get('default', CM.NODEFAULT) is CM.NODEFAULT:
                raise Reject('missing attribute ' + pname)
        if c.get('extra'):
            kwargs['_yatiml_extra'] = extras
        try:
            return cls(**kwargs)
        except Exception as e:  # noqa
            raise Reject('constructor refused: ' + type(e).__name__)
