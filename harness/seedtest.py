"""Development tool (not a registered command): try a seeded change against a check.

  seedtest.py <Cxx> <dir with patch.diff, demo.py> [--keep name]

Applies the patch to /repo's working tree, confirms the 180 tests still pass and that the demo fails
with / passes without the patch, runs ./check Cxx, and restores /repo (git checkout -- .)."""
import json
import os
import shutil
import subprocess
import sys

VERIF = os.path.dirname(os.path.dirname(os.path.abspath(__file__)))
REPO = os.environ.get('VERIF_REPO', '/repo')


def sh(cmd, cwd=None, env=None, timeout=3600):
    p = subprocess.run(cmd, shell=True, cwd=cwd, env=env, stdout=subprocess.PIPE,
                       stderr=subprocess.STDOUT, universal_newlines=True, timeout=timeout)
    return p.returncode, p.stdout


def main():
    prop, d = sys.argv[1], sys.argv[2]
    keep = sys.argv[4] if len(sys.argv) > 4 and sys.argv[3] == '--keep' else None
    patch = os.path.join(d, 'patch.diff')
    demo = os.path.join(d, 'demo.py')
    env = dict(os.environ, PYTHONPATH=REPO)
    res = dict(property=prop, source=d)
    rc, out = sh('git -C {} status --porcelain'.format(REPO))
    if out.strip():
        print('refusing: the repository is not clean:\n' + out)
        return 2
    rc0, out0 = sh('/venv/bin/python {}'.format(demo), env=env)
    res['demo_without_patch'] = rc0
    rc, out = sh('git -C {} apply {}'.format(REPO, patch))
    if rc != 0:
        print('patch does not apply:', out)
        return 2
    try:
        rc, out = sh('cd {} && /venv/bin/python -m pytest -q -p no:cacheprovider tests 2>&1 | tail -3'.format(REPO), env=env)
        res['tests'] = out.strip().split('\n')[-1]
        rc1, out1 = sh('/venv/bin/python {}'.format(demo), env=env)
        res['demo_with_patch'] = rc1
        rc, out = sh('./check {} --tier quick'.format(prop), cwd=VERIF)
        res['check_exit'] = rc
        res['check_output'] = [l for l in out.split('\n') if l.startswith(('VIOLATION', 'KNOWN', prop))]
        rp = [l for l in out.split('\n') if l.startswith('VIOLATION')]
        if rp:
            path = rp[0].split('replay=')[1].split()[0]
            try:
                rep = json.load(open(os.path.join(VERIF, path)))
                res['violation'] = str(rep.get('what') or rep.get('broken'))[:400]
            except Exception as e:  # noqa
                res['violation'] = 'unreadable replay: {}'.format(e)
    finally:
        sh('git -C {0} checkout -- . ; rm -f {0}/cobertura.xml'.format(REPO))
    sh('/venv/bin/python {}/harness/gen_all.py'.format(VERIF))
    print(json.dumps(res, indent=1))
    if keep:
        dst = os.path.join(VERIF, 'seeded', keep)
        os.makedirs(dst, exist_ok=True)
        if os.path.abspath(dst) != os.path.abspath(d):
            shutil.copy(patch, os.path.join(dst, 'patch.diff'))
            shutil.copy(demo, os.path.join(dst, 'demo.py'))
        notes = ''
        if os.path.exists(os.path.join(d, 'notes.txt')):
            notes = open(os.path.join(d, 'notes.txt')).read()
        elif os.path.exists(os.path.join(dst, 'meta.json')):
            notes = json.load(open(os.path.join(dst, 'meta.json'))).get('needs_to_manifest', '')
        meta = dict(property=prop, needs_to_manifest=notes, ran=[
            'git -C /repo apply patch.diff',
            'cd /repo && /venv/bin/python -m pytest -q tests  -> ' + res.get('tests', ''),
            'PYTHONPATH=/repo /venv/bin/python demo.py  -> exit {} with the patch, exit {} without'.format(
                res.get('demo_with_patch'), res.get('demo_without_patch')),
            './check {} --tier quick  -> exit {}'.format(prop, res.get('check_exit')),
            'git -C /repo checkout -- .'],
            detected=res.get('check_exit') == 1, detection=res.get('check_output'),
            violation=res.get('violation'))
        json.dump(meta, open(os.path.join(dst, 'meta.json'), 'w'), indent=1)
    return 0


if __name__ == '__main__':
    sys.exit(main())
