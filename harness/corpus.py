"""Minimised past failures (and hand-written witnesses of the repaired defects); they run first."""
import classmodel as CM

ENUM_TF = dict(name='Flag', bases=[], registered=True, kind='enum', members=['true', 'false', 'red'])
STRL = dict(name='Word', bases=[], registered=True, kind='userstring')


def plain(name, params, **kw):
    d = dict(name=name, bases=[], registered=True, kind='plain', params=params, define_init=True)
    d.update(kw)
    return d


def P(name, type=None, **kw):
    d = dict(name=name, type=type)
    d.update(kw)
    return d


U = lambda *ms: ('union', list(ms))   # noqa: E731

LOAD_CASES = [
    # F3: the recogniser retagged enum-like scalars in place -> Union order mattered
    dict(spec=[ENUM_TF], type=U(('cls', 'Flag'), ('bool',)), text='true', props=['C03', 'C13']),
    dict(spec=[ENUM_TF], type=U(('bool',), ('cls', 'Flag')), text='true', props=['C03', 'C13']),
    dict(spec=[ENUM_TF], type=U(('cls', 'Flag'), ('str',)), text='red', props=['C03']),
    dict(spec=[ENUM_TF, plain('Holder', [P('e', ('cls', 'Flag')), P('f', ('bool',))])],
         type=('cls', 'Holder'), text='{e: &x true, f: *x}', props=['C18']),
    # F2: empty document
    dict(spec=[], type=('int',), text='', props=['C01']),
    dict(spec=[], type=CM.t_opt(('int',)), text='', props=['C01']),
    dict(spec=[plain('Solo', [P('a', ('int',), default=1)])], type=('cls', 'Solo'), text='# nothing', props=['C01']),
    # F4: Union with Any
    dict(spec=[], type=U(('int',), ('any',)), text='x', props=['C08']),
    # F5/F6/F8
    dict(spec=[plain('Dup', [P('x', ('int',))])], type=('cls', 'Dup'), text='{x: 1, x: 2}', props=['C08']),
    dict(spec=[plain('Boom', [P('x', ('int',))], savorize=[('other',)])], type=('cls', 'Boom'),
         text='{x: 1}', props=['C08', 'C10']),
    dict(spec=[plain('Repl', [P('x', ('int',))], savorize=[('replace', 1)])], type=('cls', 'Repl'),
         text='{x: 1}', props=['C08', 'C01']),
    # F7
    dict(spec=[], type=('any',), text='!!int x', props=['C08']),
    dict(spec=[], type=('any',), text='0b_', props=['C08']),
    dict(spec=[], type=('any',), text='2001-13-45', props=['C08']),
    dict(spec=[], type=('any',), text='!!timestamp x', props=['C08']),
    dict(spec=[], type=('any',), text='!!bool maybe', props=['C08']),
    dict(spec=[], type=('int',), text='!!int', props=['C08']),
    # a user __init__ raising an exception without arguments, at the top level and in a list
    dict(spec=[plain('Picky', [P('n', ('int',))], init_raises=('n', 13), init_raise_style='bare')],
         type=('cls', 'Picky'), text='{n: 13}', props=['C08']),
    dict(spec=[plain('Picky', [P('n', ('int',))], init_raises=('n', 13), init_raise_style='assert')],
         type=('seq', 'list', ('cls', 'Picky')), text='[{n: 1}, {n: 13}]', props=['C08']),
    # F16 / F17
    dict(spec=[plain('Keyed', [P('x', ('int',)), P('y', CM.t_opt(('int',)), default=None)])],
         type=('cls', 'Keyed'), text='{? [a] : v}', props=['C08']),
    dict(spec=[plain('Nul', [P('x', ('null',))])], type=('cls', 'Nul'), text='{x: null}', props=['C08', 'C01']),
    # F9: aliases
    dict(spec=[plain('Inner', [P('x', ('int',))]), plain('Outer', [P('a', ('cls', 'Inner')), P('b', ('any',))])],
         type=('cls', 'Outer'), text='{a: &x {x: 1}, b: *x}', props=['C18']),
    dict(spec=[], type=('any',), text='&a [*a]', props=['C18', 'C08']),
    dict(spec=[], type=('seq', 'list', ('any',)), text='&a [1, *a]', props=['C18', 'C08']),
    # F15: ambiguous siblings
    dict(spec=[plain('Base', [P('x', ('int',))]),
               dict(name='Left', bases=['Base'], registered=True, kind='plain', params=[P('x', ('int',))],
                    define_init=True),
               dict(name='Right', bases=['Base'], registered=True, kind='plain', params=[P('x', ('int',))],
                    define_init=True)],
         type=('cls', 'Base'), text='{x: 1}', props=['C17', 'C03']),
]


def for_prop(prop):
    return [c for c in LOAD_CASES if prop in c['props']]
