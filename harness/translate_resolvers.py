"""Translator: the implicit-resolver tables of a live yatiml Loader / Dumper
instance -> Lean (`YatimlModel/Gen/LoaderResolvers.lean`, `DumperResolvers.lean`).

The regular expressions are parsed with CPython's own `re._parser.parse`, so the
AST is the one `re` compiles.  Only the constructs listed below are admitted;
anything else raises `Untranslatable` (the tie is then reported as broken, it is
never approximated).

Encoding of Python's matching discipline (PyYAML calls `regexp.match(value)`):
  * `match` anchors at the start only -> a leading `^` is accepted and dropped;
  * a trailing `$` (no MULTILINE) matches at the end or before a final newline
    -> the pattern body R becomes  R . (eps | "\\n");
  * no trailing `$` -> prefix match -> R . Sigma*.
"""
import re
import sys

try:
    import re._parser as sre_parse
    import re._constants as sre_c
except ImportError:  # Python < 3.11
    import sre_parse
    import sre_constants as sre_c

from common import GEN_DIR, lean_str, use_repo, write_if_changed

MAXCHAR = 0x10FFFF


class Untranslatable(Exception):
    pass


# ---- regex AST -> our own tiny AST -----------------------------------------
# ('empty',) ('eps',) ('set', [(lo,hi),...]) ('cat', a, b) ('alt', a, b) ('star', a)

def cat(a, b):
    if a == ('eps',):
        return b
    if b == ('eps',):
        return a
    return ('cat', a, b)


def cats(xs):
    out = ('eps',)
    for x in reversed(xs):
        out = cat(x, out)
    return out


def alts(xs):
    if not xs:
        return ('empty',)
    out = xs[-1]
    for x in reversed(xs[:-1]):
        out = ('alt', x, out)
    return out


def norm_ranges(rs):
    rs = sorted(rs)
    out = []
    for lo, hi in rs:
        if out and lo <= out[-1][1] + 1:
            out[-1] = (out[-1][0], max(out[-1][1], hi))
        else:
            out.append((lo, hi))
    return out


def negate(rs):
    rs = norm_ranges(rs)
    out = []
    cur = 0
    for lo, hi in rs:
        if lo > cur:
            out.append((cur, lo - 1))
        cur = hi + 1
    if cur <= MAXCHAR:
        out.append((cur, MAXCHAR))
    return out


def tr_in(items):
    neg = False
    rs = []
    for op, av in items:
        if op is sre_c.NEGATE:
            neg = True
        elif op is sre_c.LITERAL:
            rs.append((av, av))
        elif op is sre_c.RANGE:
            rs.append((av[0], av[1]))
        else:
            raise Untranslatable('character class item {}'.format(op))
    rs = norm_ranges(rs)
    return ('set', negate(rs) if neg else rs)


def tr_seq(seq):
    return cats([tr_item(op, av) for op, av in seq])


def tr_item(op, av):
    if op is sre_c.LITERAL:
        return ('set', [(av, av)])
    if op is sre_c.NOT_LITERAL:
        return ('set', negate([(av, av)]))
    if op is sre_c.ANY:
        return ('set', negate([(10, 10)]))
    if op is sre_c.IN:
        return tr_in(av)
    if op is sre_c.BRANCH:
        _, branches = av
        return alts([tr_seq(b) for b in branches])
    if op is sre_c.SUBPATTERN:
        _, add_flags, del_flags, p = av
        if add_flags or del_flags:
            raise Untranslatable('inline flags')
        return tr_seq(p)
    if op in (sre_c.MAX_REPEAT, sre_c.MIN_REPEAT):
        lo, hi, p = av
        body = tr_seq(p)
        if lo > 8 or (hi is not sre_c.MAXREPEAT and hi > 8):
            raise Untranslatable('large counted repeat')
        parts = [body] * lo
        if hi is sre_c.MAXREPEAT:
            parts.append(('star', body))
        else:
            opt = ('alt', ('eps',), body)
            # (eps | R (eps | R (...)))  hi-lo times
            tail = ('eps',)
            for _ in range(hi - lo):
                tail = ('alt', ('eps',), cat(body, tail))
            del opt
            parts.append(tail)
        return cats(parts)
    raise Untranslatable('regex construct {}'.format(op))


def translate_pattern(rx):
    """compiled regex -> (body AST, anchored_end: bool)."""
    if rx.flags & ~(re.X | re.U):
        raise Untranslatable('regex flags {}'.format(rx.flags))
    parsed = list(sre_parse.parse(rx.pattern, rx.flags))
    if parsed and parsed[0] == (sre_c.AT, sre_c.AT_BEGINNING):
        parsed = parsed[1:]
    anchored = False
    if parsed and parsed[-1] == (sre_c.AT, sre_c.AT_END):
        anchored = True
        parsed = parsed[:-1]
    for op, av in parsed:
        if op is sre_c.AT:
            raise Untranslatable('anchor inside pattern')
    body = tr_seq(parsed)
    if anchored:
        full = cat(body, ('alt', ('eps',), ('set', [(10, 10)])))
    else:
        full = cat(body, ('star', ('set', [(0, MAXCHAR)])))
    return full, anchored


def lean_re(t):
    k = t[0]
    if k == 'empty':
        return 'Re.empty'
    if k == 'eps':
        return 'Re.eps'
    if k == 'set':
        return '(Re.set [{}])'.format(', '.join('({}, {})'.format(a, b) for a, b in t[1]))
    if k == 'star':
        return '(Re.star {})'.format(lean_re(t[1]))
    return '(Re.{} {} {})'.format(k, lean_re(t[1]), lean_re(t[2]))


KNOWN_TAGS = ['str', 'int', 'float', 'bool', 'null', 'timestamp', 'merge', 'value', 'yaml']


def lean_tag(tag):
    pre = 'tag:yaml.org,2002:'
    if tag.startswith(pre) and tag[len(pre):] in KNOWN_TAGS:
        return 'RTag.' + tag[len(pre):]
    return '(RTag.other {})'.format(lean_str(tag))


def table_of(resolvers):
    """dict first-char -> [(tag, regex)]  ->  flat list of entries.

    Order: buckets in dict order, the wildcard bucket (key None) last, so that
    'first match in bucket(s[0]) + wildcard' equals 'first match in the flat
    list' (buckets of different keys never both apply to one string)."""
    flat = []
    keys = [k for k in resolvers if k is not None] + ([None] if None in resolvers else [])
    for k in keys:
        if k is None:
            key = 'Key.wild'
        elif k == '':
            key = 'Key.empty'
        elif isinstance(k, str) and len(k) == 1:
            key = '(Key.ch {})'.format(ord(k))
        else:
            raise Untranslatable('resolver bucket key {!r}'.format(k))
        for tag, rx in resolvers[k]:
            flat.append((key, k, tag, rx))
    return flat


def render(name, resolvers, what):
    flat = table_of(resolvers)
    defs = {}
    lines = []
    order = []
    for key, k, tag, rx in flat:
        ident = (rx.pattern, rx.flags)
        if ident not in defs:
            ast, anchored = translate_pattern(rx)
            dn = '{}Re{}'.format(name, len(defs))
            defs[ident] = (dn, anchored)
            order.append((dn, ast, rx, anchored))
    out = ['-- GENERATED by harness/translate_resolvers.py from {}; do not edit.'.format(what),
           'import YatimlModel.Model.Resolver',
           'namespace YatimlModel.Gen',
           'open YatimlModel']
    for dn, ast, rx, anchored in order:
        out.append('-- pattern {!r} flags {} end-anchored {}'.format(
            rx.pattern, rx.flags, anchored).replace('\n', ' '))
        out.append('def {} : Re := {}'.format(dn, lean_re(ast)))
    out.append('def {}Table : List Entry := ['.format(name))
    ents = []
    for key, k, tag, rx in flat:
        dn, _ = defs[(rx.pattern, rx.flags)]
        ents.append('  {{ key := {}, tag := {}, re := {} }}'.format(key, lean_tag(tag), dn))
    out.append(',\n'.join(ents))
    out.append(']')
    out.append('end YatimlModel.Gen')
    return '\n'.join(out) + '\n'


def loader_resolvers():
    import yatiml
    ld = yatiml.load_function()
    inst = ld.loader('')
    return inst.yaml_implicit_resolvers


def dumper_resolvers():
    import io
    import yatiml
    dumps = yatiml.dumps_function()
    cls = dumps.dumper
    inst = cls(io.StringIO(), None, False, None, None, None, None, None, None,
               None, None, None, None, False)
    return inst.yaml_implicit_resolvers


def generate():
    use_repo()
    changed = []
    text = render('loader', loader_resolvers(),
                  'yatiml.load_function().loader(\'\').yaml_implicit_resolvers')
    if write_if_changed(GEN_DIR + '/LoaderResolvers.lean', text):
        changed.append('LoaderResolvers')
    text = render('dumper', dumper_resolvers(),
                  'a yatiml Dumper instance\'s yaml_implicit_resolvers')
    if write_if_changed(GEN_DIR + '/DumperResolvers.lean', text):
        changed.append('DumperResolvers')
    import yaml
    text = render('pyyaml', yaml.SafeLoader.yaml_implicit_resolvers,
                  'yaml.SafeLoader.yaml_implicit_resolvers (PyYAML\'s own table)')
    if write_if_changed(GEN_DIR + '/PyyamlResolvers.lean', text):
        changed.append('PyyamlResolvers')
    return changed


if __name__ == '__main__':
    print(generate())
