"""C16 — UnknownNode.require_* accept exactly the nodes they describe."""
import copy

from props import loadcommon as LC
import classmodel as CM
import loadgen as G
import loadrun as L
import nodes as N

PROPERTY = 'C16'
LEAN_MODULES = ['YatimlModel.Props.C16']
THEOREMS = ['YatimlModel.C16.' + t for t in [
    'C16_require_mapping', 'C16_require_sequence', 'C16_require_scalar', 'C16_require_scalar_typed',
    'C16_require_attribute', 'C16_require_attribute_typed', 'C16_require_attribute_value',
    'C16_require_attribute_value_not']]
RULE = ('generated nodes (documents for generated class models, their mutations, odd keys, duplicate '
        'keys, tags) x attribute names present/absent/dashed x scalar values of every built-in kind x '
        'types of the supported type language with the model\'s registered classes; each require_* call '
        'runs on a real UnknownNode and on the Lean model (raise / no raise compared), is checked '
        'against the documented condition evaluated independently, and must leave the node unchanged.  '
        'Non-trivial = the helper returns normally, or the node is a mapping.'
        ' Directed family: every attribute of a holder asked for by its own declared type (enums'
        ' incl. str mix-ins with members spelt like booleans, string-likes, classes written with'
        ' dashed keys, a class with extras missing its required key, ints in every YAML 1.1'
        " spelling), twice, then by other classes' types.")
ASSUMPTIONS = ['"recognisable as that type by the rules the loader itself uses" is evaluated with the '
               'loader\'s own Recognizer in the independent oracle as well']

VALUES = ['a', 'alpha', '', 'true', '1', 0, 1, 7, 42, -3, 1.5, -0.25, 0.0, True, False, None, 'red', 'special']
TYPS = ['str', 'int', 'float', 'bool', 'none']
PYT = {'str': str, 'int': int, 'float': float, 'bool': bool, 'none': None}


def translate(ctx):
    return []


def documented(real_load, yaml, node, op, py_type_of, oracle=None):
    """the documented condition for the helper to return normally (independent of the model)"""
    k = op[0]
    S, Q, M = yaml.ScalarNode, yaml.SequenceNode, yaml.MappingNode
    from yatiml.util import scalar_type_to_tag
    if k == 'rscalar':
        if not isinstance(node, S):
            return False
        return not op[1] or any(node.tag == scalar_type_to_tag[PYT[t]] for t in op[1])
    if k == 'rmapping':
        return isinstance(node, M)
    if k == 'rsequence':
        return isinstance(node, Q)
    if k == 'rattr':
        if not isinstance(node, M):
            return False
        vals = [v for kn, v in node.value if kn.value == op[1]]
        if not vals:
            return False
        if op[2] is None:
            return True
        if oracle is not None:
            # the reference pipeline's own notion of "the value is of that type" (independent of yatiml)
            import pipeline_oracle as PO
            try:
                return bool(oracle.types(vals[0], op[2]))
            except PO.Reject:
                return False
            except PO.Undefined:
                pass
        ts, _ = real_load.recognize(copy.deepcopy(vals[0]), py_type_of(op[2]))
        return len(ts) > 0
    if k in ('rval', 'rvalnot'):
        if not isinstance(node, M):
            return False
        want = op[2]
        occ = [v for kn, v in node.value if isinstance(kn, S) and kn.tag == N.T['str'] and kn.value == op[1]]
        if not occ:
            return False
        tag = scalar_type_to_tag[type(want) if want is not None else type(None)]
        ctor = yaml.constructor.SafeConstructor()

        def value_of(v):
            try:
                if tag == N.T['str']:
                    return ('ok', v.value)
                if tag == N.T['null']:
                    return ('ok', None)
                return ('ok', ctor.construct_object(yaml.ScalarNode(v.tag, v.value)))
            except Exception:
                return ('bad', None)
        if k == 'rval':
            for v in occ:
                if not (isinstance(v, S) and v.tag == tag):
                    return False
                st, x = value_of(v)
                if st != 'ok' or x != want:
                    return False
            return True
        for v in occ:
            if not (isinstance(v, S) and v.tag == tag):
                return True          # documented: a value of another type is "not equal"
            st, x = value_of(v)
            if st == 'ok' and x == want:
                return False
        return True
    raise ValueError(op)


def apply_real(yatiml, unode, op, py_type_of):
    k = op[0]
    try:
        if k == 'rscalar':
            unode.require_scalar(*[PYT[t] for t in op[1]])
        elif k == 'rmapping':
            unode.require_mapping()
        elif k == 'rsequence':
            unode.require_sequence()
        elif k == 'rattr':
            if op[2] is None:
                unode.require_attribute(op[1])
            else:
                unode.require_attribute(op[1], py_type_of(op[2]))
        elif k == 'rval':
            unode.require_attribute_value(op[1], op[2])
        elif k == 'rvalnot':
            unode.require_attribute_value_not(op[1], op[2])
        return 'ok'
    except yatiml.RecognitionError:
        return 'raise'
    except Exception as e:  # noqa
        return 'fatal:' + type(e).__name__


def directed_cases(ctx, n):
    """a holder whose attributes are an enum (also with a str mix-in) with members spelt like YAML
    booleans / nulls, a string-like, a class written with dashed keys, a class with a hand-written
    recogniser that looks at the dashed spelling, and lists of them"""
    yaml, yatiml = L.setup()
    rng = ctx.rng
    P = lambda nm, t, **kw: dict(name=nm, type=t, **kw)   # noqa: E731

    def plain(name, params, **kw):
        return dict(name=name, bases=[], registered=True, kind='plain', params=params, all_params=params,
                    extra=False, abstract=None, define_init=True, **kw)
    for _ in range(n):
        kind = dict(name='Kind', bases=[], registered=True, kind='enum',
                    members=rng.sample(['true', 'yes', 'red', 'null', 'on', 'false'], rng.randint(2, 4)))
        if rng.random() < 0.6:
            kind['str_mixin'] = True
        word = dict(name='Word', bases=[], registered=True, kind=rng.choice(['str', 'userstring', 'yatimlstring']))
        inner = plain('Inner', [P('line_width', ('int',)), P('max_open_count', CM.t_opt(('int',)), default=None)])
        part = plain('Part', [P('name', ('str',)), P('size', ('int',), default=1)])
        part['extra'] = True        # `_yatiml_extra` has a default value in the generated signature
        raw = plain('Raw', [P('line_width', ('int',))], recognize=[('rattr', 'line-width', None)])
        holder = plain('Holder', [P('kind', ('cls', 'Kind')), P('style', ('cls', 'Inner')), P('word', ('cls', 'Word')),
                                  P('kinds', ('seq', 'list', ('cls', 'Kind'))),
                                  P('styles', ('map', 'dict', ('str',), ('cls', 'Inner'))),
                                  P('part', ('cls', 'Part')), P('mode', ('int',))])
        spec = [kind, word, inner, raw, part, holder]
        try:
            doc = G.gen_doc(rng, spec, ('cls', 'Holder'))

            def dash(d):
                if d[0] == 'm':
                    return ('m', [((G.S(k[1].replace('_', '-')) if k[0] == 's' and rng.random() < 0.6 else k),
                                   dash(v)) for k, v in d[1]], d[2])
                if d[0] == 'q':
                    return ('q', [dash(x) for x in d[1]], d[2])
                return d
            doc = ('m', [(k, dash(v)) for k, v in doc[1]], doc[2])
            # ints in every YAML 1.1 spelling; a Part that lacks its required key half of the time
            pairs = []
            for k, v in doc[1]:
                if k[1] == 'mode':
                    v = G.S(rng.choice(['017', '0o17', '0x1F', '1_000', '1:30', '-012', '0755', '15', '+17', '0b101']))
                if k[1] == 'part' and rng.random() < 0.5:
                    v = rng.choice([('m', [], None), ('m', [(G.S('size'), G.S('2'))], None),
                                    ('m', [(G.S('other'), G.S('x'))], None),
                                    # a key that is not a scalar, the required key missing
                                    ('m', [(('q', [G.S('a'), G.S('b')], None), G.S('1'))], None),
                                    ('m', [(('m', [(G.S('a'), G.S('b'))], None), G.S('1')), (G.S('size'), G.S('2'))], None),
                                    ('m', [(G.S('{odd}'), G.S('1')), (G.S('%s'), G.S('2'))], None)])
                pairs.append((k, v))
            doc = ('m', pairs, doc[2])
            if rng.random() < 0.3:
                doc, _d = G.mutate(rng, doc, spec)
            c = L.build_case(rng, yaml, yatiml, spec, ('cls', 'Holder'), doc, ('directed',))
            L.run_case(c, yaml)
            c.directed = True
        except Exception as e:  # noqa
            ctx.count('gen_error:' + type(e).__name__)
            continue
        ctx.count('directed_cases')
        yield c


def explore(ctx):
    yaml, yatiml = L.setup()
    rng = ctx.rng
    reqs, expected, descs = [], [], []
    import itertools
    for c in itertools.chain(LC.gen_cases(ctx, ctx.budget(500, 10000), mutate_p=0.5, alias_p=0),
                             directed_cases(ctx, ctx.budget(150, 3000))):
        if c.node is None or getattr(c, 'shared', False):
            continue
        # pick a sub-node (root or a nested mapping/scalar)
        cands = [c.node]

        def walk(n):
            if isinstance(n, yaml.SequenceNode):
                for x in n.value:
                    cands.append(x)
                    walk(x)
            elif isinstance(n, yaml.MappingNode):
                for k, v in n.value:
                    cands.append(v)
                    walk(v)
        walk(c.node)
        node = rng.choice(cands[:1] * 3 + cands)
        if getattr(c, 'directed', False):
            node = c.node
        dict_attrs = []
        bad_keys = []
        T = 'tag:yaml.org,2002:'
        # collections that carry an explicit scalar tag (`!!str [a, b]`, `!!int {a: 1}`): legal YAML, and a
        # helper that looked at the tag alone would take them for scalars
        if not getattr(c, 'directed', False) and rng.random() < 0.12:
            colls = [x for x in cands if isinstance(x, (yaml.SequenceNode, yaml.MappingNode))]
            if colls:
                tgt = rng.choice(colls)
                tgt.tag = T + rng.choice(['str', 'int', 'float', 'bool', 'null'])
                ctx.count('collections_with_scalar_tags')
                if rng.random() < 0.6:
                    node = tgt
        if isinstance(node, yaml.MappingNode):
            for kk, x in node.value:
                # explicitly tagged scalars that PyYAML's constructors refuse in different ways
                if isinstance(x, yaml.ScalarNode) and rng.random() < 0.2:
                    if isinstance(kk, yaml.ScalarNode):
                        bad_keys.append(kk.value)
                    x.tag, x.value = rng.choice([(T + 'bool', 'maybe'), (T + 'int', ''), (T + 'bool', ''),
                                                 (T + 'int', '+'), (T + 'timestamp', ''),(T + 'bool', 'maybe'), (T + 'int', ''), (T + 'int', 'x'),
                                                 (T + 'float', 'abc'), (T + 'null', 'x'), (T + 'int', '0x_'),
                                                 (T + 'timestamp', 'nope'), (T + 'float', '1_'),
                                                 (T + 'value', '='), (T + 'merge', '<<'), ('!Colour', 'red'),
                                                 (T + 'binary', 'aGk='), (T + 'set', 'x')])
                # mappings with keys that are not strings
                if isinstance(x, yaml.MappingNode) and isinstance(kk, yaml.ScalarNode):
                    dict_attrs.append(kk.value)
                    if x.value and rng.random() < 0.3:
                        k0 = x.value[rng.randrange(len(x.value))][0]
                        if isinstance(k0, yaml.ScalarNode):
                            k0.tag, k0.value = rng.choice([(T + 'int', '1'), (T + 'bool', 'true'), (T + 'null', '~'),
                                                           (T + 'float', '1.5')])
        keys = [k.value for k, _ in node.value if isinstance(k, yaml.ScalarNode)] \
            if isinstance(node, yaml.MappingNode) else []
        names = keys + ['absent', 'name'] + [k.replace('-', '_') for k in keys]
        avail = [x['name'] for x in c.spec if x.get('registered', True)]
        ops = []
        for _ in range(6):
            r = rng.random()
            a = rng.choice(names)
            if r < 0.15:
                ops.append(('rscalar', rng.sample(TYPS, rng.randint(0, 2))))
            elif r < 0.25:
                ops.append((rng.choice(['rmapping', 'rsequence']),))
            elif r < 0.55:
                t = None if rng.random() < 0.3 else G.gen_type(rng, avail, 2)
                if t is not None and t[0] == 'map' and t[2] != ('str',):
                    t = None
                # half of the time the type some class of the model declares for an attribute of that name
                # (so that well-typed values - enums spelt like booleans, classes written with dashed
                # keys, string-likes - are asked for by their own type)
                declared = [p_['type'] for x in c.spec for p_ in x.get('params', [])
                            if p_['name'] == a.replace('-', '_') and p_.get('type') is not None]
                if declared and rng.random() < 0.5:
                    t = rng.choice(declared)
                    if t[0] == 'map' and t[2] != ('str',):
                        t = None
                if dict_attrs and rng.random() < 0.4:
                    a = rng.choice(dict_attrs)
                    inner = ('map', 'dict', ('str',), rng.choice([('any',), ('int',), ('str',), ('bool',)]))
                    t = rng.choice([inner, ('seq', 'list', inner), ('union', [('int',), inner]),
                                    ('map', 'dict', ('str',), inner)])
                ops.append(('rattr', a, t))
            else:
                # a value equal to the node's own value half of the time
                v = rng.choice(VALUES)
                if bad_keys and rng.random() < 0.5:
                    a = rng.choice(bad_keys)
                if isinstance(node, yaml.MappingNode) and rng.random() < 0.5:
                    occ = [x for kk, x in node.value if isinstance(kk, yaml.ScalarNode) and kk.value == a
                           and isinstance(x, yaml.ScalarNode)]
                    if occ:
                        try:
                            v = yatiml.Node(occ[0]).get_value()
                        except Exception:  # noqa
                            pass
                        if isinstance(v, float) and v != v:
                            v = 1.5
                if not isinstance(v, (str, int, float, bool, type(None))):
                    v = 'a'
                ops.append((rng.choice(['rval', 'rvalnot']), a, v))
        if getattr(c, 'directed', False):
            # every attribute asked for by its own declared type, twice (a call must not change what
            # the next one sees), then by the other classes' types
            holder = [x for x in c.spec if x['name'] == 'Holder'][0]
            typed = [('rattr', p_['name'], p_['type']) for p_ in holder['params']]
            rng.shuffle(typed)
            others = [('rattr', p_['name'], ('cls', rng.choice(['Kind', 'Word', 'Inner', 'Raw'])))
                      for p_ in holder['params']]
            ops = typed + typed[:2] + others[:3] + ops[:2] + [
                (rng.choice(['rval', 'rvalnot']), 'mode', v) for v in rng.sample([15, 17, 31, 1000, 90, -10, -12, 493, 755, 5], 3)]
        py_type_of = c.model.py_type
        oracle = None
        try:
            import pipeline_oracle as PO
            oracle = PO.Oracle(c.model, yaml, yatiml, c.real.loader_cls, lazy=True)
        except Exception:  # noqa  (custom recognisers etc.: outside the reference)
            oracle = None
        before = N.canon_node(yaml, node)
        strings = N.all_scalar_values(yaml, node, set())
        for op in ops:
            if op[0] in ('rval', 'rvalnot') and isinstance(op[2], float):
                strings.add(repr(op[2]))
        env = c.model.env_wire(c.real.loader_cls, N.ext_sexp(yaml, strings))
        ty_wire = lambda t: CM.ty_sexp_of_py(c.model.py_type(t), None)   # noqa: E731
        reqs.append('reqops {} {} {}'.format(env, N.node_sexp(yaml, node),
                                             ' '.join(CM.rec_wire(op, ty_wire) for op in ops)))
        inst = c.real.loader_cls('')
        rec = inst._Loader__recognizer
        real_results = []
        for op in ops:
            unode = yatiml.UnknownNode(rec, node)
            res = apply_real(yatiml, unode, op, py_type_of)
            real_results.append(res)
            ctx.case((op[0], N.node_sexp(yaml, node)[:120], repr(op)), nontrivial=(res == 'ok' or
                                                                                  isinstance(node, yaml.MappingNode)))
            ctx.count('op:' + op[0] + ':' + res.split(':')[0])
            if N.canon_node(yaml, node) != before:
                ctx.violation('{} modified the node'.format(op),
                              dict(key='modified:' + op[0], node=N.node_sexp(yaml, node)[:600], op=repr(op),
                                   classes=c.model.source[-1500:]))
                before = N.canon_node(yaml, node)
            if res.startswith('fatal'):
                if op[0] in ('rval', 'rvalnot') or op[0] == 'rattr':
                    # SeasoningError for a repeated key inside recognition is reported by the loader
                    if 'SeasoningError' in res:
                        continue
                ctx.violation('{} raised {}'.format(op, res),
                              dict(key='reqraises:{}:{}'.format(op[0], res), node=N.node_sexp(yaml, node)[:600],
                                   op=repr(op), classes=c.model.source[-1500:]))
                continue
            try:
                want = documented(c.real, yaml, node, op, py_type_of, oracle)
            except Exception as e:  # noqa
                ctx.count('oracle_error:' + type(e).__name__)
                continue
            if (res == 'ok') != want:
                ctx.violation('{} {} but the documented condition is {}'.format(
                    op, 'returns normally' if res == 'ok' else 'raises RecognitionError', want),
                    dict(key='require:{}:{}'.format(op[0], res), node=N.node_sexp(yaml, node)[:800], op=repr(op),
                         classes=c.model.source[-1500:]))
        expected.append(' '.join(r if not r.startswith('fatal') else 'fatal' for r in real_results))
        descs.append((N.node_sexp(yaml, node)[:600], repr(ops)))
        if len(ctx.samples) < 3:
            ctx.sample(dict(node=N.node_sexp(yaml, node)[:200], ops=repr(ops)[:300], results=real_results))
    answers = ctx.driver(reqs)
    for req, ans, want, d in zip(reqs, answers, expected, descs):
        ctx.count('correspondence_cases')
        got = ' '.join(a if not a.startswith('fatal') else 'fatal' for a in ans.split(' '))
        if got != want:
            ctx.disagree('require_*: model {} vs real {}'.format(got, want), dict(node=d[0], ops=d[1]))


def search(ctx, broken):
    explore(ctx)


def replay(ctx, rep):
    import json
    print(json.dumps(rep.get('case', rep), indent=1)[:3000])
    explore(ctx)
    return not ctx.violations
