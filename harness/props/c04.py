"""C04 — a document cannot cause construction of objects the type model does not call for."""
import os
import sys

from props import loadcommon as LC
import classmodel as CM
import loadgen as G
import loadrun as L

PROPERTY = 'C04'
LEAN_MODULES = ['YatimlModel.Props.C04']
THEOREMS = ['YatimlModel.C04.' + t for t in [
    'loaderTable_core', 'C04_any_processed_core', 'C04_any_plain', 'C04_stripped_plain',
    'C04_python_tags_fail', 'byTag_registered', 'C04_calls_within_reach', 'C04_any_reaches_nothing']] + ['YatimlModel.construct_quiet']
RULE = ('class models with Any / untyped / _yatiml_extra positions x valid and invalid documents with '
        'arbitrary tags injected at one to three nodes (registered class names, unknown names, '
        '!!python/object, !!python/object/apply, !!python/name, !!python/module, core tags); on the real '
        'code: every constructor call logged is for an object that ends up in the result at a position '
        'whose type admits it, Any/untyped/extra positions hold plain data, nothing named by a tag is '
        'imported or called (canary module, os.system trap).  Non-trivial = at least one injected tag.'
        ' Directed families: untyped regions with tags at values / keys / complex keys, a key'
        ' spelt _yatiml_extra, dashed or repeated untyped attributes, merge keys.')
ASSUMPTIONS = ['yatiml.Loader derives from yaml.SafeLoader (checked on every run)']

CANARY = 'colorsys'


def translate(ctx):
    return []


def count_objects(model, v):
    """instances of plain model classes inside a loaded value, in any position"""
    names = {n for n, c in model.by_name_spec.items() if c['kind'] == 'plain'}
    out = []

    def rec(x):
        if type(x).__name__ in names and type(x) is model.classes[type(x).__name__]:
            out.append(type(x).__name__)
            for a in vars(x).values():
                rec(a)
        elif isinstance(x, dict):
            for k, a in x.items():
                rec(k)
                rec(a)
        elif isinstance(x, (list, tuple)):
            for a in x:
                rec(a)
    rec(v)
    return out


def explore(ctx):
    yaml, yatiml = L.setup()
    if not issubclass(yatiml.loader.Loader, yaml.SafeLoader):
        ctx.violation('yatiml.Loader no longer derives from yaml.SafeLoader', dict(key='not-safeloader'))
    called = []
    real_system = os.system
    os.system = lambda *a, **k: called.append(a) or 0
    sys.modules.pop(CANARY, None)
    G.TAGS.append('!!python/module:' + CANARY)
    G.TAGS.append('!!python/object/new:' + CANARY + '.rgb_to_hsv')
    cases = LC.CaseBuffer(ctx)
    try:
        def has_open(spec):
            if ctx.rng.random() < 0.3:
                return True
            return any(c.get('extra') or any(p.get('type') in (None, ('any',)) for p in c.get('params', []))
                       for c in spec)
        import itertools
        for c in itertools.chain(
                LC.gen_cases(ctx, ctx.budget(500, 12000), mutate_p=0.0, prop='C04', model_filter=has_open),
                LC.alias_across_types(ctx, ctx.budget(40, 800)),
                LC.untyped_regions(ctx, ctx.budget(200, 4000)),
                LC.class_key_faults(ctx, ctx.budget(150, 3000))):
            # inject 1-3 tags
            doc = c.doc
            if doc is not None and ctx.rng.random() < 0.75 and not (
                    c.desc and c.desc[0] in ('alias-across-types', 'untyped-region', 'class-key-fault')):
                k = ctx.rng.randint(1, 3)
                descs = []
                for _ in range(k):
                    ps = G.all_paths(doc)
                    p = ctx.rng.choice(ps)
                    tag = ctx.rng.choice(G.TAGS + ['!' + x['name'] for x in c.spec])
                    doc = G.replace_at(doc, p, lambda d: G.with_tag(d, tag))
                    descs.append((p, tag))
                if ctx.rng.random() < 0.3:
                    doc, d2 = G.mutate(ctx.rng, doc, c.spec)
                    descs.append(d2)
                try:
                    c2 = L.build_case(ctx.rng, yaml, yatiml, c.spec, c.doc_type, doc, ('tags', descs))
                    L.run_case(c2, yaml)
                    c = c2
                except Exception:  # noqa
                    ctx.count('rebuild_error')
            cases.append(c)
            LC.record_distribution(ctx, c)
            from props import c01 as _c01
            bad = _c01.env_wf(c.model)
            ctx.count('envwf_checked')
            if bad:
                ctx.disagree('the class table does not satisfy the hypotheses of C04_calls_within_reach: ' + bad, L.describe(c))
            by = {x['name']: x for x in c.spec}
            ctx.case((c.text, repr(c.doc_type), repr([x['name'] for x in c.spec])), nontrivial=c.desc is not None)
            if len(ctx.samples) < 3:
                ctx.sample(dict(text=c.text, type=repr(c.doc_type), outcome=c.real_out[0]))
            inits = [e[1] for e in c.real_out[2] if e[0] == 'init' and by.get(e[1], {}).get('kind') == 'plain']
            if c.real_out[0] == 'ok':
                v = c.real_out[1]
                if not LC.conforms(c.model, by, v, c.doc_type):
                    ctx.violation('loaded value does not conform (plain data expected at Any/untyped/extra '
                                  'positions): {!r}'.format(v)[:300],
                                  dict(L.describe(c), key='nonplain:' + c.text[:60]))
                objs = count_objects(c.model, v)
                from props import c10 as _c10
                if _c10.repeated_keys(c):
                    # an entry of a dict whose key occurs again later is constructed and then overwritten
                    ctx.count('repeated_keys')
                    import collections
                    if collections.Counter(objs) - collections.Counter(inits):
                        ctx.violation('the result contains {} but constructors ran only for {}'.format(objs, inits),
                                      dict(L.describe(c), key='unconstructed-object:' + c.text[:60]))
                elif sorted(objs) != sorted(inits):
                    ctx.violation('constructors ran for {} but the result contains {}'.format(inits, objs),
                                  dict(L.describe(c), key='extra-construction:' + c.text[:60]))
            else:
                # a failing load may have run constructors, but only for classes the type model reaches
                reach = reachable_classes(c.spec, c.doc_type)
                bad = [n for n in inits if n not in reach]
                if bad:
                    ctx.violation('constructor of {} ran although the document type {} cannot reach it'.format(
                        bad, c.doc_type), dict(L.describe(c), key='unreachable-construction:' + c.text[:60]))
            if called:
                ctx.violation('os.system was called while loading', dict(L.describe(c), key='os.system'))
            if c.desc and c.desc[0] == 'untyped-region' and c.doc is not None and ctx.rng.random() < 0.6:
                # every tag on a COLLECTION inside an untyped region is ignored: the same document with those
                # tags removed has the same outcome (an equal value, or a failure of the same kind)
                def untag(d):
                    if d[0] == 'q':
                        return ('q', [untag(x) for x in d[1]], None)
                    if d[0] == 'm':
                        return ('m', [(untag(k), untag(v)) for k, v in d[1]], None)
                    return d
                doc2 = untag(c.doc)
                if doc2 != c.doc:
                    try:
                        c3 = L.build_case(ctx.rng, yaml, yatiml, c.spec, c.doc_type, doc2, ('untagged-twin',))
                        L.run_case(c3, yaml)
                    except Exception:  # noqa
                        c3 = None
                    if c3 is not None:
                        ctx.count('collection_tag_twins')

                        def outcome(cc):
                            if cc.real_out[0] == 'ok':
                                return ('ok', CM.val_sexp(cc.real_out[1], cc.model))
                            return (cc.real_out[0],)
                        if outcome(c) != outcome(c3):
                            ctx.violation('a tag on a collection inside an untyped region is not ignored: with the tags the '
                                          'outcome is {}, without them {}'.format(str(outcome(c))[:150], str(outcome(c3))[:150]),
                                          dict(L.describe(c), key='collection-tag:' + c.text[:60], without=c3.text[:400]))
                del called[:]
            if CANARY in sys.modules:
                ctx.violation('module {} was imported while loading'.format(CANARY),
                              dict(L.describe(c), key='import'))
                sys.modules.pop(CANARY, None)
    finally:
        os.system = real_system
        G.TAGS.remove('!!python/module:' + CANARY)
        G.TAGS.remove('!!python/object/new:' + CANARY + '.rgb_to_hsv')
    LC.correspond(ctx, cases)


def reachable_classes(spec, t):
    by = {c['name']: c for c in spec}
    seen = set()

    def add_cls(n):
        if n in seen:
            return
        seen.add(n)
        c = by[n]
        for p in c.get('params', []):
            if p.get('type') is not None:
                walk(p['type'])
        for d in spec:
            if n in d['bases']:
                add_cls(d['name'])
        for b in c['bases']:
            pass

    def walk(t):
        k = t[0]
        if k == 'cls':
            add_cls(t[1])
        elif k == 'seq':
            walk(t[2])
        elif k == 'map':
            walk(t[2])
            walk(t[3])
        elif k == 'union':
            for m in t[1]:
                walk(m)
    walk(t)
    return seen


def search(ctx, broken):
    explore(ctx)


def replay(ctx, rep):
    import json
    print(json.dumps(rep.get('case', rep), indent=1)[:3000])
    explore(ctx)
    return not ctx.violations
