"""C14 — yatiml.Node accessors behave like an ordered map and a typed scalar."""
import copy
import math
from collections import OrderedDict

from common import hexs, use_repo
import nodes as N

PROPERTY = 'C14'
LEAN_MODULES = ['YatimlModel.Props.C14']
THEOREMS = ['YatimlModel.C14.' + t for t in [
    'C14_has_attribute', 'C14_get_attribute', 'C14_set_attribute', 'C14_remove_attribute',
    'C14_rename_attribute', 'C14_distinct_preserved', 'C14_ops_refine_odict', 'C14_classify',
    'C14_set_get', 'C14_get_value_is_load', 'C14_remove_defaults_exact',
    'C14_remove_defaults_total']]
RULE = ('random operation sequences (has/get/set/remove/rename/has_attribute_type, is_*, '
        'get/set_value, remove_attributes_with_default_values, key renaming) on generated mapping, '
        'sequence and scalar nodes; every scalar spelling of the pool under every core tag; all '
        '(default, value) pairs over the built-in scalar kinds.  Each sequence runs on the real '
        'yatiml.Node and on the Lean model (results and final node compared) and is checked against '
        'an ordered-dict oracle / the loader\'s own constructor.  Non-trivial = the sequence mutates '
        'the node or touches a scalar with a non-str tag.')
ASSUMPTIONS = ['PyYAML SafeConstructor.construct_yaml_float is an external function of the model '
               '(values supplied per case by the harness from the real PyYAML)']

CORE5 = [N.T[k] for k in ('str', 'int', 'float', 'bool', 'null')]
TYPS = [('str', str), ('int', int), ('float', float), ('bool', bool), ('none', None),
        ('list', list), ('dict', dict)]
SCALAR_VALUES = ['a', '', 'x y', 'true', '1', 0, 1, -7, 10 ** 20, 1.5, -0.0, 1e22, 1e-7, float('inf'),
                 float('nan'), True, False, None]


def translate(ctx):
    return []


class Real:
    def __init__(self):
        use_repo()
        import yaml
        import yatiml
        self.yaml = yaml
        self.yatiml = yatiml
        self.load = yatiml.load_function()

    def construct(self, node):
        inst = self.load.loader('')
        return inst.construct_object(copy.deepcopy(node), deep=True)


def same_scalar(a, b):
    if isinstance(a, float) and isinstance(b, float):
        if math.isnan(a) or math.isnan(b):
            return math.isnan(a) and math.isnan(b)
        return a == b and math.copysign(1, a) == math.copysign(1, b)
    return type(a) is type(b) and a == b


def err_name(e, op):
    n = type(e).__name__
    if op == 'get_value' and n not in ('RuntimeError',):
        return 'scalar-constructor-error'
    return n


def apply_real(real, wrapper, op):
    """apply op (a tuple) to the yatiml.Node wrapper; return the canonical result string"""
    yaml = real.yaml
    name = op[0]
    try:
        if name == 'is_scalar':
            if op[1] == 'any':
                return 'ok {}'.format(str(wrapper.is_scalar()).lower())
            typ = dict(TYPS).get(op[1], yaml.Node)
            return 'ok {}'.format(str(wrapper.is_scalar(typ)).lower())
        if name == 'is_mapping':
            return 'ok {}'.format(str(wrapper.is_mapping()).lower())
        if name == 'is_sequence':
            return 'ok {}'.format(str(wrapper.is_sequence()).lower())
        if name == 'get_value':
            return 'ok ' + N.scalar_sexp(wrapper.get_value())
        if name == 'set_value':
            wrapper.set_value(op[1])
            return 'ok'
        if name == 'make_mapping':
            wrapper.make_mapping()
            return 'ok'
        if name == 'has_attribute':
            return 'ok {}'.format(str(wrapper.has_attribute(op[1])).lower())
        if name == 'has_attribute_type':
            typ = dict(TYPS).get(op[2], yaml.Node)
            return 'ok {}'.format(str(wrapper.has_attribute_type(op[1], typ)).lower())
        if name == 'get_attribute':
            return 'ok ' + N.node_sexp(yaml, wrapper.get_attribute(op[1]).yaml_node)
        if name == 'set_attribute':
            wrapper.set_attribute(op[1], op[2])
            return 'ok'
        if name == 'remove_attribute':
            wrapper.remove_attribute(op[1])
            return 'ok'
        if name == 'rename_attribute':
            wrapper.rename_attribute(op[1], op[2])
            return 'ok'
        if name == 'unders_to_dashes':
            wrapper.unders_to_dashes_in_keys()
            return 'ok'
        if name == 'dashes_to_unders':
            wrapper.dashes_to_unders_in_keys()
            return 'ok'
        if name == 'remove_defaults':
            wrapper.remove_attributes_with_default_values(op[2])
            return 'ok'
        if name == 'remove_defaults_cls':
            wrapper.remove_attributes_with_default_values(op[3])
            return 'ok'
        if name == 'seq_to_map':
            wrapper.seq_attribute_to_map(op[1], op[2], op[3], op[4])
            return 'ok'
        if name == 'map_to_seq':
            wrapper.map_attribute_to_seq(op[1], op[2], op[3])
            return 'ok'
        if name == 'index_to_map':
            wrapper.index_attribute_to_map(op[1], op[2], op[3])
            return 'ok'
        if name == 'map_to_index':
            wrapper.map_attribute_to_index(op[1], op[2], op[3])
            return 'ok'
        raise RuntimeError('unknown op ' + name)
    except Exception as e:  # noqa
        return 'err ' + err_name(e, name)


def opt_hex(s):
    return '~' if s is None else hexs(s)


def default_sexp(d):
    if d is None or isinstance(d, (bool, int, float, str)):
        return N.scalar_sexp(d)
    if d == [] and isinstance(d, list):
        return 'emptylist'
    return 'other'


def op_sexp(real, op):
    name = op[0]
    if name in ('is_scalar',):
        return '( is_scalar {} )'.format(op[1])
    if name in ('is_mapping', 'is_sequence', 'get_value', 'make_mapping', 'unders_to_dashes',
                'dashes_to_unders'):
        return '( {} )'.format(name)
    if name == 'set_value':
        return '( set_value {} )'.format(N.scalar_sexp(op[1]))
    if name in ('has_attribute', 'get_attribute', 'remove_attribute'):
        return '( {} {} )'.format(name, hexs(op[1]))
    if name == 'has_attribute_type':
        return '( has_attribute_type {} {} )'.format(hexs(op[1]), op[2])
    if name == 'set_attribute':
        if isinstance(op[2], real.yaml.Node):
            return '( set_attribute {} ( node {} ) )'.format(hexs(op[1]), N.node_sexp(real.yaml, op[2]))
        return '( set_attribute {} {} )'.format(hexs(op[1]), N.scalar_sexp(op[2]))
    if name == 'rename_attribute':
        return '( rename_attribute {} {} )'.format(hexs(op[1]), hexs(op[2]))
    if name == 'remove_defaults':
        return '( remove_defaults ( {} ) )'.format(' '.join(
            '( {} {} )'.format(hexs(k), default_sexp(d)) for k, d in op[1]))
    if name == 'remove_defaults_cls':
        return '( remove_defaults_cls ( {} ) ( {} ) )'.format(
            ' '.join('( {} {} )'.format(hexs(k), '~' if d is NODEF else default_sexp(d)) for k, d in op[1]),
            ' '.join('( {} {} )'.format(hexs(k), default_sexp(d)) for k, d in op[2]))
    if name == 'seq_to_map':
        return '( seq_to_map {} {} {} {} )'.format(hexs(op[1]), hexs(op[2]), opt_hex(op[3]),
                                                    1 if op[4] else 0)
    if name in ('map_to_seq', 'index_to_map', 'map_to_index'):
        return '( {} {} {} {} )'.format(name, hexs(op[1]), hexs(op[2]), opt_hex(op[3]))
    raise RuntimeError(name)


NODEF = object()


def make_class(defaults, overrides=None):
    """a class whose __init__ has the given (name, default) optional parameters"""
    names = [k for k, _ in defaults]
    src = 'def __init__(self, req0, {}): pass'.format(
        ', '.join('{}=_D[{}]'.format(k.replace('-', '_'), i) for i, k in enumerate(names)))
    glob = {'_D': [d for _, d in defaults]}
    exec(src, glob)
    body = {'__init__': glob['__init__']}
    if overrides:
        body['_yatiml_defaults'] = overrides
    return type('Defaulted', (), body)


def run_case(ctx, real, node, ops, extra_strings=()):
    """run ops on the real Node and on the model; returns (real results, final real node)"""
    yaml = real.yaml
    strings = N.all_scalar_values(yaml, node, set(extra_strings))
    for op in ops:
        for a in op[1:]:
            if isinstance(a, yaml.Node):
                N.all_scalar_values(yaml, a, strings)
            elif isinstance(a, float):
                strings.add(repr(a))
            elif isinstance(a, str):
                strings.add(a)
    req = 'nodeops {} {} {}'.format(N.ext_sexp(yaml, strings), N.node_sexp(yaml, node),
                                    ' '.join(op_sexp(real, op) for op in ops))
    wrapper = real.yatiml.Node(copy.deepcopy(node))
    results = [apply_real(real, wrapper, op) for op in ops]
    final = N.node_sexp(yaml, wrapper.yaml_node)
    return req, results, final, wrapper


def compare(ctx, reqs, reals, label):
    answers = ctx.driver(reqs)
    for req, ans, (results, final, desc) in zip(reqs, answers, reals):
        ctx.count('correspondence_cases')
        want = ' | '.join(results) + ' || ' + final
        if ans != want:
            ctx.disagree('{}: model and yatiml.Node differ'.format(label),
                         dict(request=req[:1500], real=want[:1500], model=ans[:1500], ops=desc))


def abs_map(yaml, node):
    return [(k.value, N.canon_node(yaml, v)) for k, v in node.value]


def distinct_str_keys(yaml, node):
    ks = [k.value for k, _ in node.value if isinstance(k, yaml.ScalarNode)]
    return len(ks) == len(node.value) and len(set(ks)) == len(ks)


def explore_opseqs(ctx, real):
    yaml = real.yaml
    rng = ctx.rng
    reqs, reals = [], []
    for i in range(ctx.budget(1500, 30000)):
        node = N.gen_mapping(yaml, rng, depth=2, distinct=True)
        keys = [k.value for k, _ in node.value]
        names = keys + ['zz', 'new', 'a_b']
        ops = []
        od = OrderedDict(abs_map(yaml, node))
        ok_oracle = True
        for _ in range(rng.randint(1, ctx.budget(6, 10))):
            r = rng.random()
            a = rng.choice(names)
            if r < 0.15:
                ops.append(('has_attribute', a))
            elif r < 0.3:
                ops.append(('get_attribute', a))
            elif r < 0.5:
                v = rng.choice(SCALAR_VALUES) if rng.random() < 0.7 else N.gen_node(yaml, rng, 1)
                ops.append(('set_attribute', a, v))
            elif r < 0.65:
                ops.append(('remove_attribute', a))
            elif r < 0.8:
                b = rng.choice(names)
                ops.append(('rename_attribute', a, b))
            elif r < 0.9:
                ops.append(('has_attribute_type', a, rng.choice([t for t, _ in TYPS])))
            else:
                ops.append((rng.choice(['is_mapping', 'is_sequence']),))
        req, results, final, wrapper = run_case(ctx, real, node, ops)
        mutating = any(o[0] in ('set_attribute', 'remove_attribute', 'rename_attribute') for o in ops)
        ctx.case(('ops', i), nontrivial=mutating)
        reqs.append(req)
        reals.append((results, final, repr(ops)[:600]))
        if i < 2:
            ctx.sample(dict(node=N.node_sexp(yaml, node)[:300], ops=repr(ops)[:300], results=results))
        # ---- ordered-dict oracle on the real results ----
        w = real.yatiml.Node(copy.deepcopy(node))
        for op, res in zip(ops, results):
            if not ok_oracle:
                break
            name = op[0]
            before = OrderedDict(od)
            if name == 'has_attribute':
                want = 'ok ' + str(op[1] in od).lower()
            elif name == 'get_attribute':
                want = None
                if op[1] not in od and res != 'err SeasoningError':
                    want = 'err SeasoningError'
                if op[1] in od and not res.startswith('ok '):
                    want = 'ok <node>'
            elif name == 'has_attribute_type':
                # the documented table: str/int/float/bool/None <-> a ScalarNode of that kind, list <->
                # SequenceNode, dict <-> MappingNode; False when the attribute is absent.  (A collection
                # carrying a scalar tag is left to the model comparison.)
                want = None
                if op[1] not in od:
                    want = 'ok false'
                else:
                    vn = [v for k, v in w.yaml_node.value if k.value == op[1]]
                    if len(vn) == 1:
                        vn = vn[0]
                        if op[2] == 'list':
                            want = 'ok ' + str(isinstance(vn, yaml.SequenceNode)).lower()
                        elif op[2] == 'dict':
                            want = 'ok ' + str(isinstance(vn, yaml.MappingNode)).lower()
                        elif isinstance(vn, yaml.ScalarNode):
                            from yatiml.util import scalar_type_to_tag as _t
                            want = 'ok ' + str(vn.tag == _t[dict(TYPS)[op[2]]]).lower()
            else:
                want = 'ok' if name in ('set_attribute', 'remove_attribute', 'rename_attribute') else None
            got = apply_real(real, w, op)
            if name == 'set_attribute':
                vn = w.get_attribute(op[1]).yaml_node if w.has_attribute(op[1]) else None
                if op[1] in od:
                    od[op[1]] = N.canon_node(yaml, vn)
                else:
                    od[op[1]] = N.canon_node(yaml, vn)
                # value check: a scalar must read back as itself
                if not isinstance(op[2], yaml.Node):
                    try:
                        back = real.yatiml.Node(vn).get_value()
                        if not same_scalar(back, op[2]) and not (isinstance(op[2], float)):
                            ctx.violation('set_attribute({!r}) reads back {!r}'.format(op[2], back),
                                          dict(key='setattr-readback', ops=repr(ops)[:400]))
                    except Exception:
                        pass
            elif name == 'remove_attribute':
                od.pop(op[1], None)
            elif name == 'rename_attribute':
                if op[1] in od:
                    if op[2] in od and op[2] != op[1]:
                        ok_oracle = False          # keys no longer distinct: outside the law
                        continue
                    od = OrderedDict((op[2] if k == op[1] else k, v) for k, v in od.items())
            if want is not None and got != want and not (want == 'ok <node>' and got.startswith('ok ')):
                ctx.violation('{} returned {!r}, an ordered dict says {!r}'.format(op, got, want),
                              dict(key='odict:' + name, node=N.node_sexp(yaml, node)[:500],
                                   ops=repr(ops)[:500]))
                ok_oracle = False
                break
            if isinstance(w.yaml_node, yaml.MappingNode) and abs_map(yaml, w.yaml_node) != list(od.items()):
                ctx.violation('after {} the mapping is {!r}, an ordered dict gives {!r}'.format(
                    op, [k for k, _ in abs_map(yaml, w.yaml_node)], list(od.keys())),
                    dict(key='odict-state:' + name, node=N.node_sexp(yaml, node)[:500],
                         ops=repr(ops)[:500]))
                ok_oracle = False
            del before
    compare(ctx, reqs, reals, 'operation sequence')


def explore_aliasing(ctx, real):
    """an ordered dictionary holds values, not places: after `set_attribute(a, get_attribute(b).yaml_node)`
    the two keys hold equal values, and overwriting, removing or renaming one of them afterwards leaves the
    other as it was; a Node fetched earlier with get_attribute() keeps showing what it showed.  The expected
    state is computed on an OrderedDict alone (never read from yatiml)."""
    yaml = real.yaml
    rng = ctx.rng
    for i in range(ctx.budget(400, 6000)):
        node = N.gen_mapping(yaml, rng, depth=2, distinct=True, nkeys=rng.randint(2, 5))
        if not distinct_str_keys(yaml, node):
            continue
        w = real.yatiml.Node(copy.deepcopy(node))
        od = OrderedDict((k, ('node', N.canon_node(yaml, v, marks=False))) for k, v in
                         ((kn.value, vn) for kn, vn in node.value))
        held = []           # (Node wrapper fetched earlier, what it showed then)
        log = []
        bad = None
        for _ in range(rng.randint(2, 7)):
            keys = list(od.keys())
            if not keys:
                break
            r = rng.random()
            a = rng.choice(keys + ['fresh', 'zz'])
            try:
                if r < 0.35:
                    b = rng.choice(keys)
                    log.append(('copy', a, b))
                    w.set_attribute(a, w.get_attribute(b).yaml_node)
                    od[a] = od[b]
                elif r < 0.7:
                    v = rng.choice(SCALAR_VALUES)
                    if isinstance(v, float):
                        continue
                    log.append(('set', a, v))
                    w.set_attribute(a, v)
                    od[a] = ('scalar', v)
                elif r < 0.8 and a in od:
                    log.append(('remove', a))
                    w.remove_attribute(a)
                    del od[a]
                elif r < 0.9 and a in od:
                    log.append(('hold', a))
                    got = w.get_attribute(a)
                    held.append((got, N.canon_node(yaml, got.yaml_node, marks=False)))
                else:
                    continue
            except Exception as e:  # noqa
                bad = 'raised {}: {}'.format(type(e).__name__, e)
                break
            # compare the whole state with the ordered dictionary
            pairs = [(kn.value, vn) for kn, vn in w.yaml_node.value]
            if [k for k, _ in pairs] != list(od.keys()):
                bad = 'keys are {} but an ordered dict has {}'.format([k for k, _ in pairs], list(od.keys()))
                break
            for k, vn in pairs:
                kind, want = od[k]
                if kind == 'node':
                    if N.canon_node(yaml, vn, marks=False) != want:
                        bad = 'the value of {!r} changed to {!r} although that key was not assigned'.format(
                            k, N.node_sexp(yaml, vn)[:80])
                else:
                    try:
                        back = real.yatiml.Node(vn).get_value()
                    except Exception as e:  # noqa
                        back = 'raised ' + type(e).__name__
                    if not (isinstance(vn, yaml.ScalarNode) and same_scalar(back, want)):
                        bad = 'the value of {!r} reads {!r} but {!r} was assigned last'.format(k, back, want)
                if bad:
                    break
            if bad:
                break
            for hw, shown in held:
                if N.canon_node(yaml, hw.yaml_node, marks=False) != shown:
                    bad = 'a Node fetched earlier with get_attribute() changed under its holder'
                    break
            if bad:
                break
        ctx.case(('aliasing', i), nontrivial=len(log) > 1)
        ctx.count('aliasing_sequences')
        if bad:
            ctx.violation('ordered-map law broken after {}: {}'.format(log, bad),
                          dict(key='aliasing:' + bad[:40], node=N.node_sexp(yaml, node)[:500], ops=repr(log)[:500]))


def explore_scalars(ctx, real):
    """classification, set_value/get_value, get_value vs load for every spelling x tag"""
    yaml = real.yaml
    rng = ctx.rng
    reqs, reals = [], []
    spellings = sorted(set(v for _, vs in N.SCALAR_POOL for v in vs))
    mark = N.mk_mark(yaml, (1, 2))
    cases = [(tag, s) for tag in CORE5 + [N.T['timestamp'], '!Foo'] for s in spellings]
    for tag, s in cases:
        node = yaml.ScalarNode(tag, s, mark, mark)
        ops = [('is_scalar', 'any'), ('is_mapping',), ('is_sequence',), ('get_value',)] + \
              [('is_scalar', t) for t, _ in TYPS[:5]] + [('is_scalar', 'list')]
        req, results, final, _ = run_case(ctx, real, node, ops)
        ctx.case(('scalar', tag, s), nontrivial=tag != N.T['str'])
        reqs.append(req)
        reals.append((results, final, (tag, s)))
        # oracle: get_value == what the loader constructs
        if tag in CORE5:
            try:
                want = ('ok', real.construct(node))
            except Exception as e:  # noqa
                want = ('exc', type(e).__name__)
            got = results[3]
            if want[0] == 'ok':
                ok = got == 'ok ' + N.scalar_sexp(want[1]) if not isinstance(want[1], float) else \
                    got.startswith('ok ( float') and same_scalar(
                        float(N.unhexs(got.split()[3])) if got.split()[3] != '-' else 0.0, want[1])
                if not ok:
                    ctx.violation('get_value() on {} {!r} gives {}, a load constructs {!r}'.format(
                        tag, s, got, want[1]), dict(key='getvalue:{}:{}'.format(tag.split(':')[-1], s),
                                                    tag=tag, value=s, got=got, load=repr(want[1])))
            ctx.count('get_value_vs_load')
        # exactly one of the three classifiers
        if [results[0], results[1], results[2]].count('ok true') != 1:
            ctx.violation('classification not exclusive', dict(key='classify', tag=tag, value=s))
    for i in range(ctx.budget(300, 5000)):
        node = N.gen_node(yaml, rng, 2)
        v = rng.choice(SCALAR_VALUES)
        typ = 'none' if v is None else type(v).__name__
        ops = [('is_scalar', 'any'), ('is_mapping',), ('is_sequence',), ('set_value', v),
               ('get_value',), ('is_scalar', typ)]
        req, results, final, _ = run_case(ctx, real, node, ops)
        ctx.case(('setget', i), nontrivial=True)
        reqs.append(req)
        reals.append((results, final, repr(ops)))
        if [results[0], results[1], results[2]].count('ok true') != 1:
            ctx.violation('classification not exclusive', dict(key='classify', node=N.node_sexp(yaml, node)[:300]))
        core = node.tag.startswith(N.CORE)
        if core:
            want = 'ok ' + N.scalar_sexp(v)
            if results[4] != want and not (isinstance(v, float) and math.isnan(v) and 'nan' in results[4]):
                ctx.violation('set_value({!r}) then get_value() gives {}'.format(v, results[4]),
                              dict(key='setget:{!r}'.format(v), node=N.node_sexp(yaml, node)[:300]))
            if results[5] != 'ok true':
                ctx.violation('set_value({!r}) then is_scalar({}) is {}'.format(v, typ, results[5]),
                              dict(key='setget-type:{!r}'.format(v), node=N.node_sexp(yaml, node)[:300]))
    compare(ctx, reqs, reals, 'scalar accessors')


DEFAULT_POOL = [None, True, False, 0, 1, 5, -7, 1.5, 1.0, 0.0, float('inf'), 'auto', '', '1', 'true',
                [], [1], {}, 'x']


def value_nodes_for(yaml, rng, mark):
    out = []
    for tag, vals in [('null', ['', '~', 'null']), ('int', ['0', '1', '5', '-7', '0x5', '1_0', 'x']),
                      ('float', ['1.5', '1.0', '0.0', '.inf', '5.0', '1e0', 'x']),
                      ('bool', ['true', 'false', 'yes', 'No', 'y', 'maybe']),
                      ('str', ['auto', '', '1', 'true', 'x', 'None'])]:
        for v in vals:
            out.append(yaml.ScalarNode(N.T[tag], v, mark, mark))
    out.append(yaml.SequenceNode(N.T['seq'], [], mark, mark))
    out.append(yaml.SequenceNode(N.T['seq'], [yaml.ScalarNode(N.T['int'], '1', mark, mark)], mark, mark))
    out.append(yaml.MappingNode(N.T['map'], [], mark, mark))
    out.append(yaml.ScalarNode('!Color', 'red', mark, mark))
    return out


def py_equal_default(real, vnode, default):
    """independent oracle: does the value the loader would construct equal the default?"""
    yaml = real.yaml
    if isinstance(vnode, yaml.ScalarNode) and vnode.tag in CORE5:
        try:
            v = real.construct(vnode)
        except Exception:
            return False
        if v is None:
            return default is None
        if default is None:
            return False
        if isinstance(v, bool) != isinstance(default, bool):
            return False
        if not isinstance(default, (bool, int, float, str)):
            return False
        return v == default
    if isinstance(vnode, yaml.ScalarNode):
        return isinstance(default, str) and vnode.value == default
    return vnode.value == [] and isinstance(default, list) and default == []


def explore_defaults(ctx, real):
    yaml = real.yaml
    rng = ctx.rng
    mark = N.mk_mark(yaml, (0, 0))
    reqs, reals = [], []
    values = value_nodes_for(yaml, rng, mark)
    pairs = [(d, v) for d in DEFAULT_POOL for v in values]
    if ctx.tier == 'quick':
        rng.shuffle(pairs)
    ctx.stats['default_value_pairs'] = len(pairs)
    for i in range(0, len(pairs), 4):
        chunk = pairs[i:i + 4]
        defaults = [('a%d' % j, d) for j, (d, _) in enumerate(chunk)]
        use_override = rng.random() < 0.4
        if use_override:
            user = {k: d for k, d in defaults}
            if rng.random() < 0.5:
                user['req0'] = 1          # names a parameter without a default
                user['other'] = None      # names no parameter at all
            # the signature's own defaults differ from the overriding ones (None overriding a
            # non-None default included)
            sigd = [(k, rng.choice([None, 'unset', 7, True, 0.5])) for k, _ in defaults]
            cls = make_class(sigd, user)
            sig = [('req0', NODEF)] + sigd
        else:
            user = {}
            cls = make_class(defaults)
            sig = [('req0', NODEF)] + list(defaults)
        kvs = [(yaml.ScalarNode(N.T['str'], 'req0', mark, mark), yaml.ScalarNode(N.T['int'], '1', mark, mark))]
        for j, (_, v) in enumerate(chunk):
            kvs.append((yaml.ScalarNode(N.T['str'], 'a%d' % j, mark, mark), copy.deepcopy(v)))
        kvs.append((yaml.ScalarNode(N.T['str'], 'other', mark, mark), yaml.ScalarNode(N.T['null'], '', mark, mark)))
        node = yaml.MappingNode(N.T['map'], kvs, mark, mark)
        ops = [('remove_defaults_cls', sig, list(user.items()), cls)]
        req, results, final, wrapper = run_case(ctx, real, node, ops,
                                                extra_strings=[repr(d) for _, d in defaults if isinstance(d, float)])
        ctx.case(('defaults', i), nontrivial=True)
        reqs.append(req)
        reals.append((results, final, repr(defaults)))
        # oracle
        if results[0] != 'ok':
            for (k, d), (_, v) in zip(defaults, chunk):
                w1 = real.yatiml.Node(yaml.MappingNode(N.T['map'], [
                    (yaml.ScalarNode(N.T['str'], k, mark, mark), copy.deepcopy(v))], mark, mark))
                r1 = apply_real(real, w1, ('remove_defaults', [(k, d)], make_class([(k, d)])))
                if r1 != 'ok':
                    ctx.violation('remove_attributes_with_default_values raises {} for default {!r} '
                                  'and value {} {!r}'.format(r1, d, v.tag, v.value),
                                  dict(key='removedefaults-raises:{!r}:{}:{}'.format(d, v.tag.split(':')[-1], v.value),
                                       default=repr(d), tag=v.tag, value=repr(v.value)))
            continue
        left = [k.value for k, _ in wrapper.yaml_node.value]
        for (k, d), (_, v) in zip(defaults, chunk):
            want_removed = py_equal_default(real, v, d)
            if (k not in left) != want_removed:
                ctx.violation('default {!r}, value {} {!r}: attribute {} but the constructed value '
                              '{} the default'.format(d, v.tag, v.value,
                                                      'removed' if k not in left else 'kept',
                                                      'equals' if want_removed else 'differs from'),
                              dict(key='removedefaults:{!r}:{}:{}'.format(d, v.tag.split(':')[-1], v.value),
                                   default=repr(d), tag=v.tag, value=repr(v.value)))
        if 'req0' not in left or 'other' not in left:
            ctx.violation('a non-defaulted attribute was removed', dict(key='removedefaults-extra'))
    compare(ctx, reqs, reals, 'remove_attributes_with_default_values')


def explore(ctx):
    real = Real()
    explore_opseqs(ctx, real)
    explore_scalars(ctx, real)
    explore_defaults(ctx, real)
    explore_aliasing(ctx, real)


def search(ctx, broken):
    explore(ctx)


def replay(ctx, rep):
    import json
    print(json.dumps(rep.get('case', rep), indent=1)[:3000])
    explore(ctx)
    return not ctx.violations
