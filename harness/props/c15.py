"""C15 — structural seasoning transforms are inverse pairs and no-ops when not applicable."""
import copy

from common import use_repo
import nodes as N
from props import c14

PROPERTY = 'C15'
LEAN_MODULES = ['YatimlModel.Props.C15']
THEOREMS = ['YatimlModel.C15.' + t for t in [
    'C15_noop_missing', 'C15_noop_wrong_kind', 'C15_noop_not_all_mappings',
    'checkSeqItems_noop_of_nonmap', 'C15_duplicate_keys', 'C15_dash_under_inverse', 'C15_seq_map_item_long', 'C15_seq_map_item_short',
    'C15_index_item_long', 'C15_index_item_short', 'C15_seq_map_seq_items', 'C15_index_map_index_items']]
RULE = ('generated mapping nodes whose attribute is a sequence of mappings / a mapping of mappings '
        'or scalars / something else (scalar, sequence of scalars, mixed), with unique or duplicate '
        'keys, x choices of attribute, key and value attribute names (present, absent, None) x '
        'strict; each transform and each transform pair runs on the real yatiml.Node and on the '
        'Lean model (compared) and against the documented shape / inverse / no-op oracle on plain '
        'data.  Non-trivial = the transform changes the node or raises.'
        ' Values may carry application tags, items and nodes non-scalar keys; every collection'
        ' node a transform creates must be a plain !!map / !!seq.')
ASSUMPTIONS = []


def translate(ctx):
    return []


def plain(yaml, node):
    """plain-data view of a node tree (tags and marks erased, order kept)"""
    if isinstance(node, yaml.ScalarNode):
        return ('s', node.value)
    if isinstance(node, yaml.SequenceNode):
        return ('q', tuple(plain(yaml, x) for x in node.value))
    return ('m', tuple((plain(yaml, k), plain(yaml, v)) for k, v in node.value))


def S(yaml, rng, v, tag='str'):
    m = N.mk_mark(yaml, N.gen_mark(rng))
    return yaml.ScalarNode(N.T[tag], v, m, m)


def M(yaml, rng, pairs):
    m = N.mk_mark(yaml, N.gen_mark(rng))
    return yaml.MappingNode(N.T['map'], pairs, m, m)


def Q(yaml, rng, items):
    m = N.mk_mark(yaml, N.gen_mark(rng))
    return yaml.SequenceNode(N.T['seq'], items, m, m)


def gen_value(yaml, rng, allow_map=True):
    r = rng.random()
    if r < 0.6:
        n = S(yaml, rng, rng.choice(['w', 'Basic widget', '100.0', 'x']),
              rng.choice(['str', 'str', 'float', 'int']))
        if rng.random() < 0.15:
            n.tag = rng.choice(['!Price', '!Label'])      # an application tag on a value
        return n
    if r < 0.8 or not allow_map:
        return Q(yaml, rng, [S(yaml, rng, 'e')] * rng.randint(0, 2))
    return M(yaml, rng, [(S(yaml, rng, 'deep'), S(yaml, rng, '1', 'int'))])


def gen_item(yaml, rng, key_attr, val_attr, key_value, style):
    """an item mapping; style selects well-formed or broken variants"""
    pairs = []
    extra = rng.sample(['description', 'price', 'other', 'note', '', 'id', 'item'], rng.randint(0, 3))
    extra = [x for x in extra if x != key_attr]
    names = [key_attr] + extra
    if val_attr is not None and rng.random() < 0.7 and val_attr not in names:
        names.append(val_attr)
    rng.shuffle(names)
    for n in names:
        if n == key_attr:
            if style == 'nokey':
                continue
            if style == 'intkey':
                pairs.append((S(yaml, rng, n), S(yaml, rng, '7', 'int')))
            elif style == 'seqkey':
                pairs.append((S(yaml, rng, n), Q(yaml, rng, [])))
            else:
                pairs.append((S(yaml, rng, n), S(yaml, rng, key_value)))
                if style == 'dupattr':
                    pairs.append((S(yaml, rng, n), S(yaml, rng, key_value + 'x')))
        else:
            pairs.append((S(yaml, rng, n), gen_value(yaml, rng, allow_map=(style == 'mapvalue' or rng.random() < 0.1))))
    if rng.random() < 0.06:
        # a key that is not a scalar
        pairs.insert(rng.randint(0, len(pairs)), (Q(yaml, rng, [S(yaml, rng, 'x'), S(yaml, rng, 'y')]),
                                                  S(yaml, rng, '1', 'int')))
    return M(yaml, rng, pairs)


def gen_case(yaml, rng):
    attr = rng.choice(['items', 'list1', 'index1'])
    key_attr = rng.choice(['item_id', 'name', 'id'])
    val_attr = rng.choice([None, 'price', 'description', 'absent', '', 'id'])
    kind = rng.choice(['seq', 'seq', 'map', 'map', 'index', 'index', 'scalar', 'seqscalar', 'mixedseq',
                       'mixedmap', 'missing', 'empty-seq', 'empty-map'])
    style = rng.choice(['ok'] * 8 + ['nokey', 'intkey', 'seqkey', 'dupattr', 'mapvalue', 'dupkeys'])
    n = rng.randint(1, 4)
    keys = ['item%d' % i for i in range(n)]
    if style == 'dupkeys' and n > 1:
        keys[-1] = keys[0]
    if kind == 'seq':
        v = Q(yaml, rng, [gen_item(yaml, rng, key_attr, val_attr, k,
                                   style if i == n - 1 or style in ('mapvalue',) else 'ok')
                          for i, k in enumerate(keys)])
    elif kind == 'map':
        v = M(yaml, rng, [(S(yaml, rng, k), gen_item(yaml, rng, 'zz', val_attr, k, 'nokey')
                           if rng.random() < 0.7 else gen_value(yaml, rng, allow_map=False))
                          for k in keys])
    elif kind == 'index':
        v = M(yaml, rng, [(S(yaml, rng, k), gen_item(yaml, rng, key_attr, val_attr, k,
                                                      style if style in ('ok', 'nokey', 'mapvalue') else 'ok'))
                          for k in keys])
    elif kind == 'scalar':
        v = S(yaml, rng, 'x')
    elif kind == 'seqscalar':
        v = Q(yaml, rng, [S(yaml, rng, '1', 'int'), S(yaml, rng, '2', 'int')])
    elif kind == 'mixedseq':
        v = Q(yaml, rng, [gen_item(yaml, rng, key_attr, val_attr, 'item0', 'ok'), S(yaml, rng, 'x'),
                          gen_item(yaml, rng, key_attr, val_attr, 'item2', 'ok')])
    elif kind == 'mixedmap':
        v = M(yaml, rng, [(S(yaml, rng, 'item0'), gen_item(yaml, rng, key_attr, val_attr, 'item0', 'ok')),
                          (S(yaml, rng, 'item1'), S(yaml, rng, 'x')),
                          (S(yaml, rng, 'item2'), gen_item(yaml, rng, key_attr, val_attr, 'item2', 'ok'))])
    elif kind == 'empty-seq':
        v = Q(yaml, rng, [])
    elif kind == 'empty-map':
        v = M(yaml, rng, [])
    else:
        v = None
    pairs = [(S(yaml, rng, 'first'), S(yaml, rng, '1', 'int'))]
    if v is not None:
        pairs.append((S(yaml, rng, attr), v))
    pairs.append((S(yaml, rng, 'last'), S(yaml, rng, 'z')))
    return M(yaml, rng, pairs), attr, key_attr, val_attr, kind, style


def is_mapping_of(yaml, node, pred):
    return isinstance(node, yaml.MappingNode) and all(pred(v) for _, v in node.value)


def attr_node(yaml, node, attr):
    vs = [v for k, v in node.value if k.value == attr]
    return vs[0] if len(vs) == 1 else None


def item_ok(yaml, item, key_attr):
    if not isinstance(item, yaml.MappingNode):
        return False
    if not all(isinstance(k, yaml.ScalarNode) for k, _ in item.value):
        return False        # the documented shapes are for mappings with unique *string* keys
    ks = [k.value for k, _ in item.value]
    if len(set(ks)) != len(ks) or ks.count(key_attr) != 1:
        return False
    kv = [v for k, v in item.value if k.value == key_attr][0]
    return isinstance(kv, yaml.ScalarNode) and kv.tag == N.T['str']


def move_key_last(p, key_attr):
    """plain item with the key attribute moved to the end"""
    kind, pairs = p
    rest = tuple(x for x in pairs if x[0] != ('s', key_attr))
    keyp = tuple(x for x in pairs if x[0] == ('s', key_attr))
    return (kind, rest + keyp)


def explore(ctx):
    use_repo()
    real = c14.Real()
    yaml = real.yaml
    rng = ctx.rng
    reqs, reals = [], []
    for i in range(ctx.budget(2500, 60000)):
        node, attr, ka, va, kind, style = gen_case(yaml, rng)
        strict = rng.random() < 0.7
        which = rng.choice(['seq_to_map', 'map_to_seq', 'index_to_map', 'map_to_index', 'pair-seq',
                            'pair-index', 'dashes'])
        if which != 'dashes' and rng.random() < 0.06:
            # a key that is not a scalar beside the attribute (the key renamings call str methods on every
            # key: they are documented for string keys only)
            node.value.insert(rng.randint(0, len(node.value)),
                              (M(yaml, rng, [(S(yaml, rng, 'a'), S(yaml, rng, 'b'))]), S(yaml, rng, '1', 'int')))
        if which == 'seq_to_map':
            ops = [('seq_to_map', attr, ka, va, strict)]
        elif which in ('map_to_seq', 'index_to_map', 'map_to_index'):
            ops = [(which, attr, ka, va)]
        elif which == 'pair-seq':
            ops = [('seq_to_map', attr, ka, va, strict), ('map_to_seq', attr, ka, va)]
        elif which == 'pair-index':
            ops = [('index_to_map', attr, ka, va), ('map_to_index', attr, ka, va)]
        else:
            ops = [rng.choice([('unders_to_dashes',), ('dashes_to_unders',)])]
            if rng.random() < 0.5:
                ops.append(('dashes_to_unders',) if ops[0][0] == 'unders_to_dashes' else ('unders_to_dashes',))
        given = set()

        def ids(x):
            given.add(id(x))
            if isinstance(x, yaml.SequenceNode):
                for y in x.value:
                    ids(y)
            elif isinstance(x, yaml.MappingNode):
                for k, v in x.value:
                    ids(k)
                    ids(v)
        req, results, final, wrapper = c14.run_case(ctx, real, node, ops)
        ids(node)
        before = plain(yaml, node)
        after = plain(yaml, wrapper.yaml_node)
        ctx.case(('t', i), nontrivial=(before != after or any(r != 'ok' for r in results)))
        ctx.count('kind:' + kind)
        ctx.count('op:' + which)
        ctx.count('result:' + ('changed' if before != after else 'unchanged') +
                  ('+raise' if any(r != 'ok' for r in results) else ''))
        reqs.append(req)
        reals.append((results, final, repr((ops, kind, style))))
        if i < 3:
            ctx.sample(dict(ops=repr(ops), kind=kind, style=style, before=repr(before)[:300],
                            after=repr(after)[:300], results=results))
        desc = dict(node=N.node_sexp(yaml, node)[:1500], ops=repr(ops), kind=kind, style=style,
                    results=results, before=repr(before)[:600], after=repr(after)[:600])
        an = attr_node(yaml, node, attr)
        # ---- oracle -------------------------------------------------------------
        first = ops[0][0]
        r0 = results[0]
        # every collection node a transform creates is a plain !!map / !!seq
        def created_wrong(x):
            if isinstance(x, yaml.SequenceNode):
                if id(x) not in given and x.tag != N.T['seq']:
                    return x.tag
                return next((t for t in map(created_wrong, x.value) if t), None)
            if isinstance(x, yaml.MappingNode):
                if id(x) not in given and x.tag != N.T['map']:
                    return x.tag
                return next((t for kv in x.value for t in map(created_wrong, kv) if t), None)
            return None
        if which != 'dashes':
            wrong = created_wrong(wrapper.yaml_node)
            if wrong:
                ctx.violation('{} created a collection node tagged {}'.format(ops, wrong),
                              dict(desc, key='created-tag:{}:{}'.format(first, wrong)))
                continue
        bad = [r for r in results if r not in ('ok', 'err SeasoningError')]
        if bad:
            ctx.violation('{} raised {}'.format(ops, bad[0]),
                          dict(desc, key='raises:{}:{}:{}'.format(first, kind, bad[0])))
            continue
        if first in ('seq_to_map', 'map_to_seq', 'index_to_map', 'map_to_index'):
            expected_kind = yaml.SequenceNode if first == 'seq_to_map' else yaml.MappingNode
            applicable = an is not None and isinstance(an, expected_kind)
            if first == 'seq_to_map' and applicable:
                applicable = all(isinstance(x, yaml.MappingNode) for x in an.value)
            if first == 'index_to_map' and applicable:
                applicable = all(isinstance(v, yaml.MappingNode) for _, v in an.value)
            if first == 'map_to_seq' and applicable and va is None:
                applicable = all(isinstance(v, yaml.MappingNode) for _, v in an.value)
            if not applicable and len(ops) == 1:
                if r0 != 'ok' or before != after:
                    ctx.violation('{} on a missing / wrong-kind attribute: result {}, node {}'.format(
                        first, r0, 'changed' if before != after else 'unchanged'),
                        dict(desc, key='noop:{}:{}'.format(first, kind)))
                continue
            if r0 != 'ok' and before != after:
                ctx.violation('{} raised after modifying the node'.format(first),
                              dict(desc, key='halfmutated:{}:{}'.format(first, kind)))
                continue
        # documented shapes for well-formed inputs
        if not all(isinstance(k, yaml.ScalarNode) for k, _ in node.value):
            ctx.count('skipped_shape:non-scalar-key')
            continue
        if first == 'seq_to_map' and an is not None and isinstance(an, yaml.SequenceNode) \
                and all(item_ok(yaml, x, ka) for x in an.value):
            keys = [[v.value for k, v in x.value if k.value == ka][0] for x in an.value]
            if len(set(keys)) != len(keys):
                want = 'err SeasoningError' if strict else 'ok'
                if r0 != want or (len(ops) == 1 and before != after):
                    ctx.violation('duplicate keys, strict={}: result {} node {}'.format(
                        strict, r0, 'changed' if before != after else 'unchanged'),
                        dict(desc, key='dupkeys:{}'.format(strict)))
                continue
            if r0 != 'ok':
                ctx.violation('seq_attribute_to_map failed on a well-formed sequence: ' + r0,
                              dict(desc, key='seq_to_map-fails:' + style))
                continue
            if len(ops) == 1:
                exp_pairs = []
                for x in an.value:
                    px = plain(yaml, x)
                    rest = tuple(q for q in px[1] if q[0] != ('s', ka))
                    kv = [q[1] for q in px[1] if q[0] == ('s', ka)][0]
                    if va is not None and len(rest) == 1 and rest[0][0] == ('s', va):
                        exp_pairs.append((kv, rest[0][1]))
                    else:
                        exp_pairs.append((kv, ('m', rest)))
                exp = ('m', tuple((k, ('m', tuple(exp_pairs))) if k == ('s', attr) else (k, v)
                                  for k, v in before[1]))
                if after != exp:
                    ctx.violation('seq_attribute_to_map: not the documented shape',
                                  dict(desc, key='shape:seq_to_map', expected=repr(exp)[:600]))
            else:
                # inverse law: restores the data up to the position of the key attribute,
                # provided a short-formed value attribute does not hold a mapping
                provis = True
                for x in an.value:
                    rest = [(k, v) for k, v in x.value if k.value != ka]
                    if va is not None and len(rest) == 1 and rest[0][0].value == va \
                            and isinstance(rest[0][1], yaml.MappingNode):
                        provis = False
                if provis and results[1] == 'ok':
                    exp_items = tuple(move_key_last(plain(yaml, x), ka) for x in an.value)
                    exp = ('m', tuple((k, ('q', exp_items)) if k == ('s', attr) else (k, v)
                                      for k, v in before[1]))
                    if after != exp:
                        ctx.violation('seq->map->seq does not restore the data',
                                      dict(desc, key='inverse:seq', expected=repr(exp)[:600]))
                    ctx.count('inverse_seq_checked')
        if first == 'index_to_map' and len(ops) == 2 and an is not None \
                and isinstance(an, yaml.MappingNode) and results == ['ok', 'ok'] \
                and all(item_ok(yaml, v, ka) and
                        [x.value for kk, x in v.value if kk.value == ka][0] == k.value
                        for k, v in an.value):
            provis = True
            for k, v in an.value:
                rest = [(kk, x) for kk, x in v.value if kk.value != ka]
                if va is not None and len(rest) == 1 and rest[0][0].value == va \
                        and isinstance(rest[0][1], yaml.MappingNode):
                    provis = False
            if provis:
                exp_items = tuple((plain(yaml, k), move_key_last(plain(yaml, v), ka)) for k, v in an.value)
                exp = ('m', tuple((k, ('m', exp_items)) if k == ('s', attr) else (k, v)
                                  for k, v in before[1]))
                if after != exp:
                    ctx.violation('index->map->index does not restore the data',
                                  dict(desc, key='inverse:index', expected=repr(exp)[:600]))
                ctx.count('inverse_index_checked')
        if first in ('unders_to_dashes', 'dashes_to_unders') and len(ops) == 2:
            target = '-' if first == 'unders_to_dashes' else '_'
            ks = [k.value for k, _ in node.value]
            if all(target not in k for k in ks) and before != after:
                ctx.violation('dash/underscore renaming is not inverse on keys free of the target',
                              dict(desc, key='inverse:dashes'))
    c14.compare(ctx, reqs, reals, 'transform')


def search(ctx, broken):
    explore(ctx)


def replay(ctx, rep):
    import json
    print(json.dumps(rep.get('case', rep), indent=1)[:3000])
    explore(ctx)
    return not ctx.violations
