"""C01 — a loaded value always conforms to the declared type."""
from props import loadcommon as LC
import loadrun as L

PROPERTY = 'C01'
LEAN_MODULES = ['YatimlModel.Props.C01']
THEOREMS = ['YatimlModel.C01.' + t for t in [
    'C01_recognised_type_admitted', 'C01_root_tag', 'C01_scalar_exact_kind', 'checkAttributes_none',
    'C01_any_is_plain', 'C01_empty_document', 'C01_every_constructor_call_typed', 'C01_loaded_value_conforms']] + [
    'YatimlModel.processNode_tagged', 'YatimlModel.construct_conforms'] + ['YatimlModel.recognize_admits',
                                                  'YatimlModel.construct_quiet']
RULE = ('generated class models (typed signatures, hierarchies, enums, string-likes, Union/Optional, '
        'List/Dict and abstract variants, Any, date, Path, bool_union_fix, permissive custom '
        'recognisers, node-rewriting savorizers) x documents derived from the type, mutated, tagged '
        'adversarially, and the empty document; every value a real load returns is checked against an '
        'independent conformance oracle all the way down, and against the model.  Non-trivial = the '
        'load succeeds with a value that is not a bare scalar.'
        ' Directed families: tags at values, keys and complex keys inside untyped regions (Any,'
        ' untyped, _yatiml_extra, List[Any], Dict[str, Any]; merge keys there), attributes given'
        ' twice / in both spellings / dashed with a wrong-kind or tagged value / with odd key'
        ' names, string-like dict keys with node-rewriting hooks, anchors reused across declared'
        ' types.')
ASSUMPTIONS = ['Python fills omitted optional parameters with their defaults (a default is accepted as '
               'conforming)']


def translate(ctx):
    return []


def env_wf(model):
    """the hypothesis `EnvWF` of `C01_loaded_value_conforms`, evaluated on the real classes: no class is
    called Path; a class reachable through registered direct-subclass steps has the start in its MRO;
    MROs are transitive"""
    regs = [c for c in model.registered]
    names = {c.__name__: c for c in regs}
    if 'Path' in names:
        return 'a class called Path'
    anc = {c.__name__: [b.__name__ for b in c.__mro__[1:]] for c in regs}
    bases = {c.__name__: [b.__name__ for b in c.__bases__] for c in regs}
    for c in names:
        # descendants through registered direct-subclass steps
        seen, todo = {c}, [c]
        while todo:
            x = todo.pop()
            for d in names:
                if x in bases[d] and d not in seen:
                    seen.add(d)
                    todo.append(d)
        for d in seen:
            if d != c and c not in anc[d]:
                return '{} descends from {} but does not have it in its MRO'.format(d, c)
    for e in names:
        for d in anc[e]:
            if d in names:
                for c in anc[d]:
                    if c not in anc[e]:
                        return 'MRO of {} lacks {} (an ancestor of its ancestor {})'.format(e, c, d)
    # the names __init__ accepts (apart from self / _yatiml_extra) are the parameters, each once
    # (hypotheses `paramNames` and `ArgsAreParams` of C01_loaded_value_conforms / C04_calls_within_reach)
    import enum
    import inspect
    from yatiml.introspection import class_subobjects
    from yatiml.util import is_string_like
    for c in regs:
        if issubclass(c, enum.Enum) or is_string_like(c):
            continue
        args = [a for a in inspect.getfullargspec(c.__init__).args if a not in ('self', '_yatiml_extra')]
        params = [x[0] for x in class_subobjects(c)]
        if len(set(params)) != len(params):
            return 'repeated parameter name in ' + c.__name__
        if set(args) != set(params):
            return 'argument names {} of {} differ from its parameters {}'.format(args, c.__name__, params)
    return None


def enum_name_grid(ctx):
    """a fixed grid: an enum expected at the root, in a list, as a dict value, in a Union with str / bool;
    scalars that are member names, near-misses, and names that Python's attribute lookup would find"""
    import loadgen as G
    yaml, yatiml = L.setup()
    S = G.S
    en = dict(name='Colour', bases=[], registered=True, kind='enum', members=['red', 'green', 'true'])
    words = ['red', 'true', 'blue', '__doc__', '__module__', '__members__', 'mro', '__class__', 'name', 'value',
             '_value_', '__init__', '__dict__', 'Red', 'RED', '']
    e = ('cls', 'Colour')
    for w in words:
        sw = S(w, w == '')
        for t, doc in ((e, sw), (('seq', 'list', e), ('q', [S('red'), sw], None)),
                       (('map', 'dict', ('str',), e), ('m', [(S('k'), sw)], None)),
                       (('union', [e, ('int',)]), sw), (('union', [('bool',), e]), sw)):
            try:
                c = L.build_case(ctx.rng, yaml, yatiml, [en], t, doc, ('enum-name-grid',))
                L.run_case(c, yaml)
            except Exception as ex:  # noqa
                ctx.count('gen_error:' + type(ex).__name__)
                continue
            ctx.count('enum_name_grid')
            yield c


def same_named_classes(ctx):
    """two different classes with the same __name__ registered with one load function (v1.Settings and
    v2.Settings): whatever the load does, it never returns an object of the class that was not asked for"""
    yaml, yatiml = L.setup()
    from typing import Dict, List

    def mk(fields):
        src = 'def __init__(self, {}) -> None:\n{}'.format(
            ', '.join(f + ': int' for f in fields), ''.join('    self.{0} = {0}\n'.format(f) for f in fields))
        ns = {}
        exec(src, ns)
        return type('Settings', (), {'__init__': ns['__init__']})
    for f1, f2 in ((['a'], ['a']), (['a'], ['a', 'b']), (['a', 'b'], ['a'])):
        for order in (0, 1):
            s1, s2 = mk(f1), mk(f2)
            regs = [s1, s2] if order == 0 else [s2, s1]
            for ty, text in ((s1, '{a: 1}'), (List[s1], '[{a: 1}, {a: 2, b: 3}]'), (Dict[str, s1], '{k: {a: 1}}'),
                             (List[s1], '[{a: 1, b: 2}]')):
                try:
                    v = yatiml.load_function(ty, *regs)(text)
                    out = ('ok', v)
                except (yatiml.RecognitionError, yaml.YAMLError):
                    out = ('rec', None)
                except Exception as ex:  # noqa
                    out = ('other', type(ex).__name__)
                ctx.case(('same-named', repr(ty), text, order, tuple(f1), tuple(f2)), nontrivial=True)
                ctx.count('same_named:' + out[0])
                if out[0] == 'ok':
                    vals = [v] if not isinstance(v, (list, dict)) else (list(v.values()) if isinstance(v, dict) else v)
                    if any(type(x) is not s1 for x in vals):
                        ctx.violation('load_function({}, ...) over two classes called Settings returns an instance of '
                                      'the other class: {!r}'.format(getattr(ty, '__name__', ty), [type(x) is s1 for x in vals]),
                                      dict(key='same-named-class', text=text))


def explore(ctx):
    same_named_classes(ctx)
    cases = LC.CaseBuffer(ctx)
    import loadgen as G
    yaml, yatiml = L.setup()
    import itertools
    for c in itertools.chain(LC.gen_cases(ctx, ctx.budget(500, 12000), mutate_p=0.45, prop='C01'),
                             LC.alias_across_types(ctx, ctx.budget(40, 800)),
                             LC.untyped_regions(ctx, ctx.budget(150, 3000)),
                             LC.class_key_faults(ctx, ctx.budget(200, 4000)),
                             LC.strlike_key_grid(ctx), enum_name_grid(ctx)):
        if c.doc is not None and ctx.rng.random() < 0.3 and not (
                c.desc and c.desc[0] in ('alias-across-types', 'untyped-region', 'class-key-fault', 'strlike-key-grid', 'enum-name-grid')):
            # tags at arbitrary nodes, keys included
            doc = c.doc
            for _ in range(ctx.rng.randint(1, 3)):
                p = ctx.rng.choice(G.all_paths(doc))
                tag = ctx.rng.choice(G.TAGS + ['!' + x['name'] for x in c.spec])
                doc = G.replace_at(doc, p, lambda d: G.with_tag(d, tag) if d[0] in ('s', 'q', 'm') else d)
            try:
                c2 = L.build_case(ctx.rng, yaml, yatiml, c.spec, c.doc_type, doc, ('tags',))
                L.run_case(c2, yaml)
                c = c2
            except Exception:  # noqa
                pass
        cases.append(c)
        LC.record_distribution(ctx, c)
        bad = env_wf(c.model)
        ctx.count('envwf_checked')
        if bad:
            ctx.disagree('the class table does not satisfy EnvWF: ' + bad, L.describe(c))
        by = {x['name']: x for x in c.spec}
        ok = c.real_out[0] == 'ok'
        ctx.case((c.text, repr(c.doc_type), repr([x['name'] for x in c.spec])),
                 nontrivial=ok and not isinstance(c.real_out[1], (str, int, float, bool, type(None))))
        if len(ctx.samples) < 3 and ok:
            ctx.sample(dict(text=c.text, type=repr(c.doc_type), value=repr(c.real_out[1])[:200]))
        if ok and not LC.conforms(c.model, by, c.real_out[1], c.doc_type):
            ctx.violation('load returned {!r}, which does not conform to {}'.format(
                c.real_out[1], c.doc_type)[:400],
                dict(L.describe(c), key='nonconforming:{}:{}'.format(c.text[:50], repr(c.doc_type)[:50])))
        # the empty document, for the same model and type
        if ctx.rng.random() < 0.3:
            for text in ('', '# only a comment\n', '---\n...\n'):
                out = c.real.run(text)
                ctx.count('empty:' + out[0])
                ctx.case(('empty', text, repr(c.doc_type), repr([x['name'] for x in c.spec])), nontrivial=False)
                if out[0] == 'ok' and not LC.conforms(c.model, by, out[1], c.doc_type):
                    ctx.violation('the empty document {!r} loads as {!r}, which does not conform to {}'.format(
                        text, out[1], c.doc_type)[:400],
                        dict(L.describe(c), key='empty:' + repr(c.doc_type)[:60], text=text))
                    break
    LC.correspond(ctx, cases)


def search(ctx, broken):
    explore(ctx)


def replay(ctx, rep):
    import json
    print(json.dumps(rep.get('case', rep), indent=1)[:3000])
    explore(ctx)
    return not ctx.violations
