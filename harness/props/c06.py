"""C06 — dumps are faithful, tag-free and ordered, and leave the object untouched."""
import datetime
import enum
import math
import pathlib
from collections import OrderedDict

import classmodel as CM
import dumprun as D
import loadgen as G
import loadrun as L
import nodes as N

PROPERTY = 'C06'
LEAN_MODULES = ['YatimlModel.Props.C06', 'YatimlModel.Props.C06Tree']
THEOREMS = ['YatimlModel.C06.' + t for t in [
    'C06_collection_tags_default', 'C06_scalar_tags_core', 'C06_attribute_order', 'C06_enum_by_name',
    'C06_represented_ints_resolve', 'C06_represented_floats_resolve', 'C06_represented_bools_nulls_resolve',
    'C06_represented_tree_core']]
RULE = ('generated class models (typed signatures, inheritance, _yatiml_extra, enums, string-likes, '
        'sweeten functions from the hook DSL) x generated values of their types (adversarial strings, '
        'non-finite floats, dates, paths, ordered dicts); the represented node tree of the real Dumper is '
        'compared with the Lean model; the dumped text must be one document, free of explicit tags, read '
        'back by a plain YAML parser as the projection of the object (parameters in declaration order, '
        'then extras; enum members by name; string-likes and paths by str()), identical when dumped '
        'twice, and the object graph must be unchanged.  Non-trivial = the value contains a user object '
        'or a container.'
        ' Also: repeated JSON dumps of the same object with a failing dump in between.')
ASSUMPTIONS = ['PyYAML\'s emitter writes a scalar without a tag when the serializer marks it implicit and '
               'quotes it when its plain form would resolve differently (emitter analysis is PyYAML\'s)']


def translate(ctx):
    return []


def projection(v, model, sweetened=None):
    if v is None or isinstance(v, (bool, int, float)):
        return v
    if isinstance(v, enum.Enum):
        return v.name
    if isinstance(v, pathlib.PurePath):
        return str(v)
    n = type(v).__name__
    if n in model.classes and type(v) is model.classes[n]:
        spec = model.by_name_spec[n]
        if spec['kind'] != 'plain':
            return str(v)
        if sweetened is not None and has_sweeten(model, n):
            sweetened.append(n)
        if hasattr(v, '_yatiml_attributes'):
            items = list(v._yatiml_attributes().items())
        else:
            items = []
            for a in model.defaults_of(n).keys():
                if a == '_yatiml_extra':
                    continue
                items.append((a, getattr(v, a)))
            if '_yatiml_extra' in model.defaults_of(n):
                items.extend(v._yatiml_extra.items())
        return OrderedDict((projection(k, model, sweetened), projection(x, model, sweetened)) for k, x in items)
    if isinstance(v, str):
        return str(v)
    if isinstance(v, (datetime.date, datetime.datetime)):
        return v
    if isinstance(v, (list, tuple)):
        return [projection(x, model, sweetened) for x in v]
    if isinstance(v, dict):
        return OrderedDict((projection(k, model, sweetened), projection(x, model, sweetened)) for k, x in v.items())
    return v


def has_sweeten(model, name):
    cls = model.classes[name]
    return any('_yatiml_sweeten' in k.__dict__ for k in cls.__mro__)


def same(a, b):
    if isinstance(a, dict) and isinstance(b, dict):
        return len(a) == len(b) and all(same(x, y) and same(a[x], b[y]) for x, y in zip(a.keys(), b.keys()))
    if isinstance(a, list) and isinstance(b, list):
        return len(a) == len(b) and all(same(x, y) for x, y in zip(a, b))
    if isinstance(a, float) and isinstance(b, float):
        if math.isnan(a) or math.isnan(b):
            return math.isnan(a) and math.isnan(b)
        return a == b and math.copysign(1, a) == math.copysign(1, b)
    if isinstance(a, bool) or isinstance(b, bool):
        return a is b
    if isinstance(a, (datetime.date, datetime.datetime)) or isinstance(b, (datetime.date, datetime.datetime)):
        try:
            return a == b or (isinstance(a, datetime.datetime) and isinstance(b, datetime.datetime)
                              and a.replace(tzinfo=None) - (a.utcoffset() or datetime.timedelta(0)) ==
                              b.replace(tzinfo=None) - (b.utcoffset() or datetime.timedelta(0)))
        except Exception:  # noqa
            return False
    return type(a) is type(b) and a == b


def nontrivial_value(v, model):
    return isinstance(v, (list, dict)) or type(v).__name__ in model.classes


def explore(ctx):
    yaml, yatiml = L.setup()
    rng = ctx.rng
    reqs, wants, descs = [], [], []
    made = 0
    attempts = 0
    target = ctx.budget(500, 12000)
    while made < target and attempts < target * 4:
        attempts += 1
        spec, cands = G.gen_model(rng, features={'sweeten'})
        try:
            model = CM.Model(spec)
            rd = D.RealDump(model, yatiml, yaml)
            t = rng.choice(cands)
            v = D.gen_value(rng, model, t)
        except (D.GenFail, G.GenFail):
            ctx.count('gen_skip')
            continue
        except Exception as e:  # noqa
            ctx.count('gen_error:' + type(e).__name__)
            continue
        made += 1
        ctx.case((repr(v)[:300], repr(t)), nontrivial=nontrivial_value(v, model))
        desc = dict(classes=model.source[-3000:], value=repr(v)[:600], doc_type=repr(t))
        # ---- represented node: real vs model ----
        before = CM.val_sexp(v, model)
        try:
            node, swe = rd.node(v)
        except yatiml.SeasoningError:
            ctx.count('sweeten_raises')
            continue
        except Exception as e:  # noqa
            ctx.count('represent_error:' + type(e).__name__)
            continue
        if not L.has_sharing(yaml, node):
            try:
                reqs.append('represent {} {}'.format(D.denv_wire(model, rd.dumper_cls), D.dump_val_sexp(v, model)))
                wants.append('ok ' + N.node_sexp(yaml, node) + ' | ( ' + ' '.join(CM.hexs(e[1]) for e in swe) + ' )')
                descs.append(desc)
            except D.GenFail:
                pass
        # ---- the dumped text ----
        try:
            text = rd.text(v)
            text2 = rd.text(v)
        except Exception as e:  # noqa
            ctx.violation('dumps raises {}: {}'.format(type(e).__name__, str(e)[:100]),
                          dict(desc, key='dumps-raises:' + type(e).__name__))
            continue
        if len(ctx.samples) < 3 and nontrivial_value(v, model):
            ctx.sample(dict(value=repr(v)[:200], text=text[:300]))
        if text != text2:
            ctx.violation('two dumps of the same object differ', dict(desc, key='nondeterministic', text=text[:400]))
        if made % 4 == 0:
            # the JSON flavour of the dump functions: repeated dumps give identical text, also with a
            # dump that fails part-way (a shared sub-object: "Aliases are not supported by JSON") in between
            try:
                dj = yatiml.dumps_json_function(*model.registered)
                j1 = dj(v)
            except Exception:  # noqa  (dates as keys, non-finite floats ...: C07's business)
                j1 = None
            if j1 is not None:
                shared = [1]
                try:
                    dj([shared, [shared]])
                except Exception:  # noqa
                    ctx.count('json_dump_aborted')
                try:
                    j2 = dj(v)
                    j3 = yatiml.dumps_json_function(*model.registered)(v)
                except Exception as e:  # noqa
                    j2 = j3 = 'raises ' + type(e).__name__
                ctx.count('json_repeat_checked')
                if not (j1 == j2 == j3):
                    ctx.violation('repeated JSON dumps of the same object differ after a failed dump: {!r} then {!r}'.format(
                        j1[:100], j2[:100]), dict(desc, key='nondeterministic-json', text=j1[:300], again=j2[:300]))
        if CM.val_sexp(v, model) != before:
            ctx.violation('dumping modified the object', dict(desc, key='mutated'))
        try:
            events = list(yaml.parse(text, Loader=yaml.SafeLoader))
        except Exception as e:  # noqa
            ctx.violation('the dumped text is not well-formed YAML: {}'.format(e)[:200],
                          dict(desc, key='malformed', text=text[:400]))
            continue
        ndocs = sum(1 for e in events if isinstance(e, yaml.DocumentStartEvent))
        if ndocs != 1:
            ctx.violation('the dumped text holds {} documents'.format(ndocs), dict(desc, key='ndocs', text=text[:400]))
        tagged = [e for e in events if getattr(e, 'tag', None) is not None]
        if tagged:
            ctx.violation('explicit tag {} in the dumped text'.format(tagged[0].tag),
                          dict(desc, key='explicit-tag:' + str(tagged[0].tag), text=text[:400]))
            continue
        sweetened = []
        proj = projection(v, model, sweetened)
        if sweetened:
            ctx.count('with_sweeten')
            continue     # the content is altered by the class's own sweeten: covered by the model comparison
        try:
            back = yaml.safe_load(text)
        except Exception as e:  # noqa
            ctx.violation('a plain YAML parser cannot read the dump: {}'.format(e)[:200],
                          dict(desc, key='unreadable', text=text[:400]))
            continue
        ctx.count('projection_checked')
        if not same(back, plainify(proj)):
            ctx.violation('read back by a plain YAML parser the dump is {!r}, the projection is {!r}'.format(
                back, proj)[:400], dict(desc, key='projection:' + repr(v)[:50], text=text[:600]))
    shared_objects(ctx, yaml, yatiml)
    deep_chains(ctx, yaml, yatiml)
    odd_signatures(ctx, yaml, yatiml)
    answers = ctx.driver(reqs)
    for a, w, d in zip(answers, wants, descs):
        ctx.count('correspondence_cases')
        if a != w:
            i = 0
            while i < min(len(a), len(w)) and a[i] == w[i]:
                i += 1
            ctx.disagree('represented node differs: real …{} model …{}'.format(w[max(0, i - 40):i + 100],
                                                                               a[max(0, i - 40):i + 100]), d)


def plainify(p):
    if isinstance(p, OrderedDict):
        return {plainify(k): plainify(v) for k, v in p.items()}
    if isinstance(p, list):
        return [plainify(x) for x in p]
    return p


SHARED_SRC = '''
import yatiml
from typing import Dict, List
from collections import UserString

class Postcode:
    def __init__(self, digits: int, letters: str) -> None:
        self.digits = digits
        self.letters = letters
    @classmethod
    def _yatiml_recognize(cls, node: yatiml.UnknownNode) -> None:
        node.require_scalar(str)
    @classmethod
    def _yatiml_savorize(cls, node: yatiml.Node) -> None:
        text = str(node.get_value())
        node.make_mapping()
        node.set_attribute('digits', int(text[:4]))
        node.set_attribute('letters', text[5:])
    @classmethod
    def _yatiml_sweeten(cls, node: yatiml.Node) -> None:
        node.set_value('{} {}'.format(node.get_attribute('digits').get_value(),
                                      node.get_attribute('letters').get_value()))

class Code(UserString):
    @classmethod
    def _yatiml_sweeten(cls, node: yatiml.Node) -> None:
        node.set_value(str(node.get_value()).upper())

class Renamed:
    def __init__(self, a_b: int) -> None:
        self.a_b = a_b
    @classmethod
    def _yatiml_sweeten(cls, node: yatiml.Node) -> None:
        node.unders_to_dashes_in_keys()

class Holder:
    def __init__(self, first: Postcode, second: Postcode, codes: List[Code], more: Dict[str, Renamed]) -> None:
        self.first = first
        self.second = second
        self.codes = codes
        self.more = more

class Employee:
    def __init__(self, name: str, role: str) -> None:
        self.name = name
        self.role = role

class Company:      # the documented index recipe; `boss` may be one of the employees
    def __init__(self, employees: Dict[str, Employee], boss: Employee) -> None:
        self.employees = employees
        self.boss = boss
    @classmethod
    def _yatiml_sweeten(cls, node: yatiml.Node) -> None:
        node.index_attribute_to_map('employees', 'name', 'role')

class Company2:     # the same without the short form
    def __init__(self, boss: Employee, employees: Dict[str, Employee]) -> None:
        self.boss = boss
        self.employees = employees
    @classmethod
    def _yatiml_sweeten(cls, node: yatiml.Node) -> None:
        node.index_attribute_to_map('employees', 'name')

class Team:         # the documented sequence-to-mapping recipe; `lead` may be one of the members
    def __init__(self, members: List[Employee], lead: Employee) -> None:
        self.members = members
        self.lead = lead
    @classmethod
    def _yatiml_sweeten(cls, node: yatiml.Node) -> None:
        node.seq_attribute_to_map('members', 'name', 'role')

class Team2:
    def __init__(self, lead: Employee, members: List[Employee]) -> None:
        self.lead = lead
        self.members = members
    @classmethod
    def _yatiml_sweeten(cls, node: yatiml.Node) -> None:
        node.seq_attribute_to_map('members', 'name')
'''


def odd_signatures(ctx, yaml, yatiml):
    """constructors with keyword-only parameters, *args, **kwargs (the `**kwargs` + `_yatiml_extra` recipe of
    the documentation): the dump holds the positional-or-keyword parameters in declaration order, and
    dumping does not fail"""
    from collections import OrderedDict

    class KwOnly:
        def __init__(self, name: str, age: int, *, strict: bool = False) -> None:
            self.name, self.age, self.strict = name, age, strict

    class Kwargs:
        def __init__(self, name: str, age: int = 3, **kwargs: int) -> None:
            self.name, self.age = name, age
            self.kwargs_seen = dict(kwargs)

    class StarArgs:
        def __init__(self, name: str, *rest: int) -> None:
            self.name = name
            self.rest = rest
    dumps = yatiml.dumps_function(KwOnly, Kwargs, StarArgs)
    for v, want in ((KwOnly('a', 1, strict=True), ['name', 'age']), (Kwargs('b', 2, x=1), ['name', 'age']),
                    (StarArgs('c', 1, 2), ['name']), ([KwOnly('a', 1), Kwargs('b')], None)):
        try:
            data = yaml.safe_load(dumps(v))
            res = 'ok'
        except Exception as e:  # noqa
            data, res = None, type(e).__name__
        ctx.case(('odd-signature', type(v).__name__), nontrivial=True)
        ctx.count('odd_signatures')
        if res != 'ok':
            ctx.violation('dumping an object of a class with keyword-only / *args / **kwargs parameters raises ' + res,
                          dict(key='odd-signature:' + type(v).__name__ + ':' + res))
        elif want is not None and list(data.keys())[:len(want)] != want:
            ctx.violation('{}: the dump has keys {} but the constructor parameters are {}'.format(
                type(v).__name__, list(data.keys()), want), dict(key='odd-signature-order:' + type(v).__name__))


CHAIN_SRC = '''
import yatiml

class Top:
    def __init__(self, top_attr: int) -> None:
        self.top_attr = top_attr
    @classmethod
    def _yatiml_sweeten(cls, node: yatiml.Node) -> None:
        node.unders_to_dashes_in_keys()

class Mid(Top):
    def __init__(self, top_attr: int, mid_attr: str) -> None:
        super().__init__(top_attr)
        self.mid_attr = mid_attr
    @classmethod
    def _yatiml_sweeten(cls, node: yatiml.Node) -> None:
        # not idempotent: the name of the key it adds depends on how many keys there are
        node.set_attribute('added_by_mid_{}'.format(len(node.yaml_node.value)), 1)

class Plain(Mid):
    def __init__(self, top_attr: int, mid_attr: str, plain_attr: bool) -> None:
        super().__init__(top_attr, mid_attr)
        self.plain_attr = plain_attr

class Leaf(Plain):
    def __init__(self, top_attr: int, mid_attr: str, plain_attr: bool, leaf_attr: float) -> None:
        super().__init__(top_attr, mid_attr, plain_attr)
        self.leaf_attr = leaf_attr
    @classmethod
    def _yatiml_sweeten(cls, node: yatiml.Node) -> None:
        node.set_attribute('added_by_leaf', 2)
'''


def deep_chains(ctx, yaml, yatiml):
    """registered chains three and four levels deep whose sweeten hooks neither commute nor are idempotent
    (the top one rewrites underscores in the keys present when it runs, lower ones add keys with underscores):
    the dump is the projection with every registered ancestor's own hook applied exactly once, bases first;
    the expectation is computed here on plain dictionaries"""
    import itertools
    ns = {}
    exec(CHAIN_SRC, ns)
    Top, Mid, Plain, Leaf = ns['Top'], ns['Mid'], ns['Plain'], ns['Leaf']
    hooks = {'Top': lambda d: OrderedDict((k.replace('_', '-'), v) for k, v in d.items()),
             'Mid': lambda d: OrderedDict(list(d.items()) + [('added_by_mid_{}'.format(len(d)), 1)]),
             'Plain': lambda d: d,
             'Leaf': lambda d: OrderedDict(list(d.items()) + [('added_by_leaf', 2)])}
    values = [Top(1), Mid(1, 'm'), Plain(1, 'm', True), Leaf(1, 'm', False, 2.5)]
    order = ['Top', 'Mid', 'Plain', 'Leaf']
    for k in range(1, 5):
        for regs in itertools.combinations([Top, Mid, Plain, Leaf], k):
            try:
                dumps = yatiml.dumps_function(*regs)
            except Exception as e:  # noqa
                ctx.count('deep_chain_create_error:' + type(e).__name__)
                continue
            for v in values:
                if type(v) not in regs:
                    continue
                # the chain of registered direct bases, as the rule (C10) has it: stop at an unregistered base
                chain = []
                c = type(v)
                while c in regs:
                    chain.insert(0, c.__name__)
                    c = c.__bases__[0]
                want = OrderedDict((a, getattr(v, a)) for a in
                                   ['top_attr', 'mid_attr', 'plain_attr', 'leaf_attr'][:order.index(type(v).__name__) + 1])
                for name in chain:
                    want = hooks[name](want)
                try:
                    got = yaml.safe_load(dumps(v))
                    got_keys = list(got.items())
                except Exception as e:  # noqa
                    got_keys = 'raised {}: {}'.format(type(e).__name__, e)
                ctx.case(('deep-chain', tuple(r.__name__ for r in regs), type(v).__name__), nontrivial=True)
                ctx.count('deep_chain_dumps')
                if got_keys != list(want.items()):
                    ctx.violation('{} dumped with {} registered gives {!r}; each registered ancestor\'s hook applied once, '
                                  'bases first, gives {!r}'.format(type(v).__name__, [r.__name__ for r in regs],
                                                                 got_keys, list(want.items())),
                                  dict(key='deep-chain:{}:{}'.format(type(v).__name__, len(regs)), classes=CHAIN_SRC))


def shared_objects(ctx, yaml, yatiml):
    """the same object referenced twice is dumped like two equal objects (up to the anchor PyYAML writes):
    classes whose sweeten hook replaces the node (a mapping turned into a scalar, a string rewritten)
    or edits it in place"""
    import copy
    ns = {}
    exec(SHARED_SRC, ns)
    P, C, R, H = ns['Postcode'], ns['Code'], ns['Renamed'], ns['Holder']
    E, Co, Co2, T, T2 = ns['Employee'], ns['Company'], ns['Company2'], ns['Team'], ns['Team2']
    dumps = yatiml.dumps_function(P, C, R, H, E, Co, Co2, T, T2)
    p, c, r = P(1098, 'XG'), C('ab'), R(3)
    m, v2 = E('Mary', 'Director'), E('Vishnu', 'Sales')
    values = [[p, p], {'x': p, 'y': p}, [c, c], [r, r], [[p], [p]], H(p, p, [c, c], {'k': r, 'l': r}),
              [H(p, P(1, 'A'), [c], {}), p, c],
              # an item of a collection that a structural transform rewrites is also referenced elsewhere
              Co({'Mary': m, 'Vishnu': v2}, m), Co2(m, {'Mary': m, 'Vishnu': v2}), T([m, v2], v2), T2(m, [m, v2]),
              [Co({'Mary': m}, v2), m], [m, T([m], v2)], {'a': T2(v2, [v2, m]), 'b': Co2(m, {'Vishnu': v2})}]
    for v in values:
        try:
            shared_text = dumps(v)
            plain_text = dumps(copy.deepcopy(v))       # deepcopy keeps sharing: rebuild without it below
            def unshare(x):
                if isinstance(x, list):
                    return [unshare(y) for y in x]
                if isinstance(x, dict):
                    return {k: unshare(y) for k, y in x.items()}
                if isinstance(x, (P, R, H, E, Co, Co2, T, T2)):
                    return type(x)(**{k: unshare(y) for k, y in vars(x).items()})
                if isinstance(x, C):
                    return C(str(x))
                return x
            plain_text = dumps(unshare(v))
            a, b = yaml.safe_load(shared_text), yaml.safe_load(plain_text)
        except Exception as e:  # noqa
            ctx.violation('dumping a value with a shared sub-object raises {}: {}'.format(type(e).__name__, str(e)[:100]),
                          dict(key='shared-raises', value=repr(v)[:200]))
            continue
        ctx.case(('shared-objects', shared_text), nontrivial=True)
        ctx.count('shared_object_dumps')
        if a != b:
            ctx.violation('an object referenced twice is dumped differently the second time: {!r} (two equal objects '
                          'give {!r})'.format(shared_text[:200], plain_text[:200]),
                          dict(key='shared-sweeten', text=shared_text[:400], expected=plain_text[:400], classes=SHARED_SRC))


def search(ctx, broken):
    explore(ctx)


def replay(ctx, rep):
    import json
    print(json.dumps(rep.get('case', rep), indent=1)[:3000])
    explore(ctx)
    return not ctx.violations
