"""C03 — polymorphic positions resolve to the unique most-derived match, never a guess."""
import itertools

from props import loadcommon as LC
import classmodel as CM
import loadgen as G
import loadrun as L

PROPERTY = 'C03'
LEAN_MODULES = ['YatimlModel.Props.C03']
THEOREMS = ['YatimlModel.C03.' + t for t in [
    'C03_candidates', 'C03_abstract_never', 'C03_unregistered_never', 'C03_union_member',
    'C03_ambiguity_fails', 'C03_tag_picks', 'C03_no_tag_stays_ambiguous', 'C03_bad_tag_fails', 'C03_registration_order', 'C03_registration_order_single', 'C03_load_registration_order',
    'C03_union_member_order', 'C03_union_member_order_single']] + [
    'YatimlModel.recognizeReq_perm', 'YatimlModel.recognizeReq_nodup']
RULE = ('class models with hierarchies (single/multiple inheritance, abstract classes, unregistered '
        'mix-ins, custom recognisers), enums and string-likes, and Union/Optional types over them x '
        'documents with and without explicit tags; each case is re-run under permutations of the '
        'registration order and of every Union\'s members and must give the same outcome; abstract and '
        'unregistered classes must never be instantiated; model and real recognised outcome compared.  '
        'Non-trivial = the document type involves a class with registered subclasses or a Union.'
        ' Directed families: small hierarchies (chains, siblings, unions; abstract middle classes;'
        ' with and without _yatiml_extra) with documents written for one chosen class and then a'
        ' key dropped / added / a tag, judged by the reference pipeline; URI tags (%TAG handles,'
        ' primary handle, verbatim); Union members told apart by recognisers that pin an int'
        ' written in every YAML 1.1 spelling.')
ASSUMPTIONS = ['typing.Union normalisation (flattening, duplicate removal) is CPython\'s']


def translate(ctx):
    return []


def permute_unions(t, rng):
    k = t[0]
    if k == 'union':
        ms = [permute_unions(m, rng) for m in t[1]]
        rng.shuffle(ms)
        return ('union', ms)
    if k == 'seq':
        return ('seq', t[1], permute_unions(t[2], rng))
    if k == 'map':
        return ('map', t[1], t[2], permute_unions(t[3], rng))
    return t


def permute_spec(spec, rng):
    import copy
    out = copy.deepcopy(spec)
    for c in out:
        for p in c.get('params', []):
            if p.get('type') is not None:
                p['type'] = permute_unions(p['type'], rng)
    return out


def outcome_key(c):
    kind = c.real_out[0]
    if kind == 'ok':
        return ('ok', CM.val_sexp(c.real_out[1], c.model))
    if kind == 'other':
        return ('other', c.real_out[1].split(':')[0])
    return (kind,)


def polymorphic(spec, t):
    s = repr(t)
    if 'union' in s:
        return True
    names = [c['name'] for c in spec if c.get('bases')]
    return bool(names)


def discriminated_cases(ctx, n):
    """Union members / sibling classes told apart by hand-written recognisers that pin an attribute to a
    value (`require_attribute_value` / `_not`), with the value written in every spelling YAML 1.1 knows"""
    yaml, yatiml = L.setup()
    rng = ctx.rng
    S = G.S
    spell = {493: ['493', '0755', '0x1ED', '4_93', '8:13', '0b111101101'], 15: ['15', '017', '0xF', '1_5'],
             1: ['1', '01', '0x1', '+1'], 420: ['420', '0644', '7:00']}
    for _ in range(n):
        want = rng.choice(list(spell))
        other = rng.choice([x for x in spell if x != want])
        P = lambda nm, t: dict(name=nm, type=t)   # noqa: E731

        def plain(name, rec):
            ps = [P('mode', ('int',))]
            return dict(name=name, bases=[], registered=True, kind='plain', params=ps, all_params=ps, extra=False,
                        abstract=None, define_init=True, recognize=rec)
        a = plain('Alpha', [('rval', 'mode', want)])
        b = plain('Beta', [('rvalnot', 'mode', want)])
        spec = [a, b]
        rng.shuffle(spec)
        ms = [('cls', 'Alpha'), ('cls', 'Beta')]
        rng.shuffle(ms)
        val = rng.choice([want, want, other])
        text = rng.choice(spell[val])
        # what the text means is PyYAML's business: ask it (plain yaml.safe_load, not yatiml)
        if yaml.safe_load(text) != val or type(yaml.safe_load(text)) is not int:
            ctx.count('discriminated_spelling_skipped')
            continue
        try:
            c = L.build_case(rng, yaml, yatiml, spec, ('union', ms), ('m', [(S('mode'), S(text))], None),
                             ('discriminated', val))
            L.run_case(c, yaml)
        except Exception as e:  # noqa
            ctx.count('gen_error:' + type(e).__name__)
            continue
        ctx.count('discriminated')
        c.expect_class = 'Alpha' if val == want else 'Beta'
        c.expect_value = val
        yield c


def explore(ctx):
    yaml, yatiml = L.setup()
    rng = ctx.rng
    cases = LC.CaseBuffer(ctx)
    from props import c02
    for c in itertools.chain(LC.gen_cases(ctx, ctx.budget(350, 8000), mutate_p=0.35, prop='C03'),
                             LC.hierarchy_cases(ctx, ctx.budget(250, 5000)),
                             discriminated_cases(ctx, ctx.budget(80, 1500))):
        cases.append(c)
        if getattr(c, 'expect_class', None):
            got = c.real_out
            if not (got[0] == 'ok' and type(got[1]).__name__ == c.expect_class and got[1].mode == c.expect_value):
                ctx.violation('{!r} holds the integer {}, so the recognisers single out {}; load gives {} {!r}'.format(
                    c.text, c.expect_value, c.expect_class, got[0], got[1])[:300],
                    dict(L.describe(c), key='discriminated:{}:{}'.format(c.expect_class, c.text)))
        LC.record_distribution(ctx, c)
        nontrivial = polymorphic(c.spec, c.doc_type)
        ctx.case((c.text, repr(c.doc_type), repr([x['name'] for x in c.spec])), nontrivial)
        if len(ctx.samples) < 3 and nontrivial:
            ctx.sample(dict(text=c.text, type=repr(c.doc_type), outcome=c.real_out[0]))
        by = {x['name']: x for x in c.spec}
        # the class a polymorphic position resolves to is the one the reference pipeline names
        if nontrivial and c02.auto_recognised(c.spec):
            c02.judge(ctx, c, yaml, yatiml, 'polymorphic')
        # abstract / unregistered classes never instantiated
        for e in c.real_out[2]:
            if e[0] == 'init' and e[1] in by:
                cl = by[e[1]]
                if not cl.get('registered', True) or LC.is_abstract_spec(by, cl):
                    ctx.violation('an instance of the {} class {} was constructed'.format(
                        'unregistered' if not cl.get('registered', True) else 'abstract', e[1]),
                        dict(L.describe(c), key='instantiated:' + e[1]))
        # explicit tags on the root mapping of a class-typed document: naming the class the document
        # loads as changes nothing, naming any other registered class or an unknown one makes it fail
        if c.doc is not None and c.doc[0] == 'm' and c.doc[2] is None and c.doc_type[0] == 'cls' \
                and c.real_out[0] == 'ok' and type(c.real_out[1]).__name__ in by:
            loaded_as = type(c.real_out[1]).__name__
            names = [x['name'] for x in c.spec if x.get('registered', True)]
            for name in names + ['Nonexistent', '<uri>', '<handle>', '<primary>']:
                text2 = '!' + name + ' ' + c.text
                if name == '<uri>':
                    text2 = '!<tag:example.org,2020:{}> {}'.format(loaded_as, c.text)
                elif name == '<handle>':
                    text2 = '%TAG !e! tag:example.org,2020:\n--- !e!{} {}'.format(loaded_as, c.text)
                elif name == '<primary>':
                    text2 = '%TAG ! tag:example.org,2020:\n--- !{} {}'.format(loaded_as, c.text)
                out2 = c.real.run(text2)
                ctx.count('root_tag_variants')
                if name.startswith('<'):
                    # a tag that resolves to a URI naming no registered class
                    ok = out2[0] in ('rec', 'yaml')
                elif name == loaded_as:
                    ok = out2[0] == 'ok' and CM.val_sexp(out2[1], c.model) == CM.val_sexp(c.real_out[1], c.model)
                elif name == 'Nonexistent':
                    ok = out2[0] in ('rec', 'yaml')
                else:
                    # another registered class: either the load fails, or the tag picked exactly that
                    # class (an ancestor or sibling reading of the same mapping inside the declared
                    # hierarchy) - never a third class
                    ok = out2[0] in ('rec', 'yaml') or (
                        out2[0] == 'ok' and type(out2[1]).__name__ == name
                        and isinstance(out2[1], c.model.classes[c.doc_type[1]]))
                if not ok:
                    ctx.violation('document loads as {}; with the tag !{} the outcome is {} {}'.format(
                        loaded_as, name, out2[0], repr(out2[1])[:120]),
                        dict(L.describe(c), key='roottag:{}:{}'.format(name, c.text[:50]), tagged_text=text2))
        if not nontrivial:
            continue
        base = outcome_key(c)
        # permutations of registration order and union member order
        for j in range(ctx.budget(2, 5)):
            spec2 = permute_spec(c.spec, rng)
            t2 = permute_unions(c.doc_type, rng)
            try:
                model2 = CM.Model(spec2)
                regs = list(model2.registered)
                rng.shuffle(regs)
                py_t = model2.py_type(t2)
                load2 = yatiml.load_function(py_t, *regs)
                del model2.log[:]
                try:
                    v = load2(c.text)
                    out2 = ('ok', CM.val_sexp(v, model2))
                except yatiml.RecognitionError:
                    out2 = ('rec',)
                except yaml.YAMLError:
                    out2 = ('yaml',)
                except Exception as e:  # noqa
                    out2 = ('other', type(e).__name__)
            except Exception as e:  # noqa
                ctx.count('perm_error:' + type(e).__name__)
                continue
            ctx.count('permutations')
            if out2 != base:
                ctx.violation('outcome depends on the order of registration / Union members: {} vs {}'.format(
                    str(base)[:200], str(out2)[:200]),
                    dict(L.describe(c), key='order:{}:{}'.format(c.text[:50], repr(c.doc_type)[:50]),
                         permuted_type=repr(t2), registration=[r.__name__ for r in regs]))
                break
    LC.correspond(ctx, cases)


def search(ctx, broken):
    explore(ctx)


def replay(ctx, rep):
    import json
    print(json.dumps(rep.get('case', rep), indent=1)[:3000])
    explore(ctx)
    return not ctx.violations
