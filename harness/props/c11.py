"""C11 — load and dump functions are stateless, isolated, and leave PyYAML untouched."""
import copy
import io
import threading

import classmodel as CM
import dumprun as D
import loadgen as G
import loadrun as L

PROPERTY = 'C11'
LEAN_MODULES = ['YatimlModel.Props.C11']
THEOREMS = ['YatimlModel.C11.' + t for t in [
    'C11_step_preserves_bases', 'C11_base_untouched', 'C11_own_tables_fresh', 'C11_isolated',
    'C11_visible_depends_only_on_own_set']]
RULE = ('random histories of creating load / dump / JSON-dump functions over different class sets '
        '(including same-named classes of different models) and calling them on valid and invalid '
        'inputs, sequentially and from concurrent threads: every call result equals the result the same '
        'function gives in a history of its own; the registries of yaml.SafeLoader / SafeDumper / '
        'yatiml.Loader / Dumper (keys and dict identities) and the behaviour of yaml.safe_load / '
        'yaml.safe_dump are unchanged; classes of one function are unknown to the others; user classes '
        'keep their attributes.  Non-trivial = a history with at least two functions and a failing call.')
ASSUMPTIONS = ['CPython: class attribute lookup along the MRO, dict copy semantics; the GIL and thread '
               'scheduling are not modelled (threads are exercised, not proved)']

PROBES = ['a: 1\nb: [true, 1.5, null, 2001-01-01]\n', 'yes', '1e5', '!!python/name:os.system x', '{x: !Foo 1}']


def translate(ctx):
    return []


def base_snapshot(yaml, yatiml):
    snap = {}
    for name, cls in [('SafeLoader', yaml.SafeLoader), ('SafeDumper', yaml.SafeDumper),
                      ('Loader', yaml.Loader), ('Dumper', yaml.Dumper),
                      ('yatiml.Loader', yatiml.loader.Loader), ('yatiml.Dumper', yatiml.dumper.Dumper),
                      ('Resolver', yaml.resolver.Resolver), ('BaseResolver', yaml.resolver.BaseResolver)]:
        for attr in ('yaml_constructors', 'yaml_multi_constructors', 'yaml_representers',
                     'yaml_multi_representers', 'yaml_implicit_resolvers', 'yaml_path_resolvers',
                     '_registered_classes', '_additional_classes', 'document_type', 'output_format'):
            if hasattr(cls, attr):
                v = getattr(cls, attr)
                if isinstance(v, dict):
                    snap[(name, attr)] = (id(v), tuple(sorted(map(repr, v.keys()))),
                                          tuple(sorted((repr(k), len(x) if isinstance(x, list) else id(x))
                                                       for k, x in v.items())))
                else:
                    snap[(name, attr)] = repr(v)
    for i, t in enumerate(PROBES):
        try:
            snap[('safe_load', i)] = repr(yaml.safe_load(t))
        except Exception as e:  # noqa
            snap[('safe_load', i)] = type(e).__name__
    snap['safe_dump'] = yaml.safe_dump({'a': [1, 'yes', 1.5, None], 'b': '1e5'})
    return snap


def call_result(fn, arg, model):
    del model.log[:]
    try:
        r = fn(arg)
        return ('ok', CM.val_sexp(r, model) if not isinstance(r, str) else r)
    except Exception as e:  # noqa
        return ('exc', type(e).__name__)


def explore(ctx):
    yaml, yatiml = L.setup()
    rng = ctx.rng
    before = base_snapshot(yaml, yatiml)
    nhist = ctx.budget(40, 600)
    for h in range(nhist):
        funcs = []       # (kind, model, fn, type, inputs)
        k = rng.randint(2, 5)
        for _ in range(k):
            spec, cands = G.gen_model(rng)
            try:
                model = CM.Model(spec)
                t = rng.choice(cands)
                kind = rng.choice(['load', 'load', 'dumps', 'dumps_json'])
                if kind == 'load':
                    fn = yatiml.load_function(model.py_type(t), *model.registered)
                    inputs = []
                    for _ in range(3):
                        doc = G.gen_doc(rng, spec, t)
                        if rng.random() < 0.4:
                            doc, _d = G.mutate(rng, doc, spec)
                        inputs.append(G.render(doc))
                else:
                    fn = yatiml.dumps_function(*model.registered) if kind == 'dumps' else \
                        yatiml.dumps_json_function(*model.registered)
                    inputs = [D.gen_value(rng, model, t) for _ in range(2)]
                attrs_before = {n: sorted(k2 for k2 in vars(c).keys()) for n, c in model.classes.items()}
                funcs.append((kind, model, fn, t, inputs, spec, attrs_before))
            except (D.GenFail, G.GenFail):
                continue
            except Exception as e:  # noqa
                ctx.count('gen_error:' + type(e).__name__)
                continue
        if len(funcs) < 2:
            continue
        # reference results: each function alone (created afresh), each input once
        ref = {}
        for i, (kind, model, fn, t, inputs, spec, _a) in enumerate(funcs):
            for j, x in enumerate(inputs):
                ref[(i, j)] = call_result(fn, x, model)
        # a random interleaving, repeated calls, sequentially
        order = [(i, j) for i, f in enumerate(funcs) for j in range(len(f[4]))] * 2
        rng.shuffle(order)
        failing = any(r[0] == 'exc' for r in ref.values())
        ctx.case(('history', h), nontrivial=failing)
        ctx.count('histories')
        for (i, j) in order:
            kind, model, fn, t, inputs, spec, _a = funcs[i]
            got = call_result(fn, inputs[j], model)
            ctx.count('calls')
            if got != ref[(i, j)]:
                ctx.violation('a {} function gives {} after other calls, {} in isolation'.format(
                    kind, str(got)[:120], str(ref[(i, j)])[:120]),
                    dict(key='history:' + kind, classes=model.source[-2000:], input=repr(inputs[j])[:400]))
        # classes of one function are unknown to the others
        for i, (kind, model, fn, t, inputs, spec, _a) in enumerate(funcs):
            mine = {c.__name__: c for c in model.registered}
            for i2, f2 in enumerate(funcs):
                if i2 == i:
                    continue
                other = f2[2]
                reg = None
                if f2[0] == 'load':
                    reg = set(other.loader._registered_classes.values())
                else:
                    reg = set(k2 for k2 in other.dumper.yaml_representers if isinstance(k2, type))
                leaked = [c for c in mine.values() if c in reg]
                if leaked:
                    ctx.violation('classes {} of one function are registered with another'.format(
                        [c.__name__ for c in leaked]), dict(key='leak', classes=model.source[-1500:]))
        # concurrent calls
        results = {}
        errors = []

        def worker(idx):
            try:
                for (i, j) in order[idx::4]:
                    kind, model, fn, t, inputs, spec, _a = funcs[i]
                    try:
                        r = fn(inputs[j])
                        res = ('ok', CM.val_sexp(r, model) if not isinstance(r, str) else r)
                    except Exception as e:  # noqa
                        res = ('exc', type(e).__name__)
                    results.setdefault((i, j), []).append(res)
            except Exception as e:  # noqa
                errors.append(repr(e))
        threads = [threading.Thread(target=worker, args=(n,)) for n in range(4)]
        for th in threads:
            th.start()
        for th in threads:
            th.join()
        ctx.count('threaded_rounds')
        for key, rs in results.items():
            for r in rs:
                if r != ref[key]:
                    ctx.violation('concurrent call gives {} but {} sequentially'.format(str(r)[:100], str(ref[key])[:100]),
                                  dict(key='threads:' + funcs[key[0]][0]))
                    break
        for (kind, model, fn, t, inputs, spec, attrs_before) in funcs:
            now = {n: sorted(k2 for k2 in vars(c).keys()) for n, c in model.classes.items()}
            if now != attrs_before:
                ctx.violation('user classes were modified', dict(key='userclass', classes=model.source[-1500:]))
        after = base_snapshot(yaml, yatiml)
        if after != before:
            diff = [k2 for k2 in before if before[k2] != after.get(k2)]
            ctx.violation('PyYAML / yatiml base registries or yaml.safe_load/safe_dump changed: {}'.format(diff[:5]),
                          dict(key='base:' + str(diff[:1])))
            before = after
        if len(ctx.samples) < 2:
            ctx.sample(dict(functions=[(f[0], repr(f[3])[:60]) for f in funcs], calls=len(order)))


def search(ctx, broken):
    explore(ctx)


def replay(ctx, rep):
    import json
    print(json.dumps(rep.get('case', rep), indent=1)[:3000])
    explore(ctx)
    return not ctx.violations
