"""C11 — load and dump functions are stateless, isolated, and leave PyYAML untouched."""
import copy
import io
import os
import threading

import classmodel as CM
import dumprun as D
import loadgen as G
import loadrun as L

PROPERTY = 'C11'
LEAN_MODULES = ['YatimlModel.Props.C11']
THEOREMS = ['YatimlModel.C11.' + t for t in [
    'translation_complete', 'progs_checked', 'C11_base_untouched', 'C11_isolated', 'C11_call_state',
    'C11_call_is_noop_on_world']] + ['YatimlModel.Reg.explore_sound', 'YatimlModel.Reg.runProg_frame', 'YatimlModel.Reg.run_inv']
RULE = ('random histories of creating load / dump / JSON-dump functions over different class sets '
        '(including same-named classes of different models) and calling them on valid and invalid '
        'inputs, sequentially and from concurrent threads: every call result equals the result the same '
        'function gives in a history of its own; the registries of yaml.SafeLoader / SafeDumper / '
        'yatiml.Loader / Dumper (keys and dict identities) and the behaviour of yaml.safe_load / '
        'yaml.safe_dump are unchanged; classes of one function are unknown to the others; user classes '
        'keep their attributes.  Non-trivial = a history with at least two functions and a failing call.'
        ' Also: plug-ins - one shared base class, each load function with its own same-named'
        ' subclass.')
ASSUMPTIONS = ['CPython: class attribute lookup along the MRO, dict copy semantics; the GIL and thread '
               'scheduling are not modelled (threads are exercised, not proved)']

PROBES = ['a: 1\nb: [true, 1.5, null, 2001-01-01]\n', 'yes', '1e5', '!!python/name:os.system x', '{x: !Foo 1}']


def translate(ctx):
    import translate_registry as TR
    return TR.generate()


# ---- shape correspondence: where attributes resolve, model vs live objects -----------------------

def canon(text):
    """rename own-level table indices by order of first appearance; keep base indices"""
    import re
    seen = {}

    def sub(m):
        lvl, idx = m.group(1), m.group(2)
        if lvl == '0':
            return m.group(0)
        key = (lvl, idx)
        if key not in seen:
            seen[key] = len(seen)
        return 't{}.#{}'.format(lvl, seen[key]) + m.group(3)
    return re.sub(r't(\d)\.(\d+)(/\d)', sub, text)


def real_shape(obj, level, attrs, tr, lower):
    """`lower`: list of (level, object) whose dicts count as lower-level tables"""
    import yaml  # noqa
    out = []
    base_tbl = tr['tbl_idx']
    base_lists = {}
    for lvl, o in lower:
        for klass in (o.__mro__ if isinstance(o, type) else [o]):
            for v in vars(klass).values():
                if isinstance(v, dict):
                    for x in v.values():
                        if isinstance(x, list):
                            base_lists.setdefault(id(x), 0 if id(v) in base_tbl else lvl)
    own_ids = {}
    for a in attrs:
        name = tr['rev'][a]
        own = name in vars(obj)
        missing = object()
        v = getattr(obj, name, missing)
        if v is missing:
            val = 'missing'
        elif v is None:
            val = 'none'
        elif isinstance(v, dict):
            inner = 3
            for x in v.values():
                if isinstance(x, list):
                    inner = min(inner, base_lists.get(id(x), level))
            if id(v) in base_tbl:
                val = 't0.{}/{}'.format(base_tbl[id(v)], inner)
            else:
                lvl = level
                for l2, o in lower:
                    if l2 >= 1 and any(v is w for w in vars(o).values()):
                        lvl = l2
                val = 't{}.{}/{}'.format(lvl, own_ids.setdefault(id(v), 100 + len(own_ids)), inner)
        else:
            val = 'atom'
        out.append('{}:{}:{}'.format(a, 1 if own else 0, val))
    return ' '.join(out)


def norm_inner(text):
    """an empty / list-free table has inner 3 on the real side whatever the model says for its level"""
    import re
    return re.sub(r'(t(\d)\.[#\d]+)/(\d)', lambda m: m.group(1) + ('/own' if int(m.group(3)) >= int(m.group(2)) else '/shared' + m.group(3)), text)


def shape_cases(ctx, yatiml, tr):
    import io
    rng = ctx.rng
    kinds = list(tr['factory'])
    attrs = sorted(tr['names'][n] for n in tr['attr_names'] if n in tr['names'])
    tr['rev'] = {v: k for k, v in tr['names'].items()}
    made = []
    lines = []
    n = ctx.budget(30, 200)
    for i in range(n):
        kind = rng.choice(kinds)
        spec, cands = G.gen_model(rng)
        try:
            model = CM.Model(spec)
        except Exception:  # noqa
            continue
        k = rng.choice([0, 1, len(model.registered)])
        classes = model.registered[:k]
        if kind == 'load_function':
            fn = yatiml.load_function(*classes) if classes else yatiml.load_function()
            cls = fn.loader
            nloop = max(0, len(classes))
            inst = cls('')
        else:
            fn = getattr(yatiml, kind)(*classes)
            cls = fn.dumper
            nloop = len(classes)
            inst = cls(io.StringIO(), None, False, None, None, None, None, None, None, None, None, None, None, False)
        made.append((kind, nloop, cls, inst))
        # some use in between
        if rng.random() < 0.5 and kind != 'load_function' and not kind.startswith('dump_'):
            try:
                fn([1, 'a'])
            except Exception:  # noqa
                pass
    for kind, nloop, cls, inst in made:
        kid = tr['names']['kind:' + kind]
        lines.append('regshape {} ( {} ) ( 7 7 ) ( {} )'.format(kid, nloop, ' '.join(map(str, attrs))))
    answers = ctx.driver(lines) if lines else []
    for (kind, nloop, cls, inst), ans in zip(made, answers):
        ctx.count('shape_cases')
        ctx.case(('shape', kind, min(nloop, 2)), nontrivial=nloop > 0)
        parts = ans.split(' | ')
        if len(parts) != 3 or not parts[0].startswith('ok true true true'):
            ctx.disagree('model run not clean: ' + ans[:200], dict(key='shape-model', kind=kind, classes=nloop))
            continue
        want_cls = norm_inner(canon(parts[1]))
        want_inst = norm_inner(canon(parts[2])).replace(':1:none', ':1:atom')
        got_cls = norm_inner(canon(real_shape(cls, 1, attrs, tr, [(0, cls.__mro__[1])])))
        got_inst = norm_inner(canon(real_shape(inst, 2, attrs, tr, [(0, cls.__mro__[1]), (1, cls)]))).replace(':1:none', ':1:atom')
        if want_cls != got_cls:
            ctx.disagree('class of a {} over {} classes: model {} real {}'.format(kind, nloop, want_cls, got_cls),
                         dict(key='shape-class', kind=kind, classes=nloop))
        if want_inst != got_inst:
            ctx.disagree('instance of a {} over {} classes: model {} real {}'.format(kind, nloop, want_inst, got_inst),
                         dict(key='shape-inst', kind=kind, classes=nloop))


def base_snapshot(yaml, yatiml):
    snap = {}
    for name, cls in [('SafeLoader', yaml.SafeLoader), ('SafeDumper', yaml.SafeDumper),
                      ('Loader', yaml.Loader), ('Dumper', yaml.Dumper),
                      ('yatiml.Loader', yatiml.loader.Loader), ('yatiml.Dumper', yatiml.dumper.Dumper),
                      ('Resolver', yaml.resolver.Resolver), ('BaseResolver', yaml.resolver.BaseResolver)]:
        for attr in ('yaml_constructors', 'yaml_multi_constructors', 'yaml_representers',
                     'yaml_multi_representers', 'yaml_implicit_resolvers', 'yaml_path_resolvers',
                     '_registered_classes', '_additional_classes', 'document_type', 'output_format'):
            if hasattr(cls, attr):
                v = getattr(cls, attr)
                if isinstance(v, dict):
                    snap[(name, attr)] = (id(v), tuple(sorted(map(repr, v.keys()))),
                                          tuple(sorted((repr(k), len(x) if isinstance(x, list) else id(x))
                                                       for k, x in v.items())))
                else:
                    snap[(name, attr)] = repr(v)
    import sys
    for modname, mod in sorted(sys.modules.items()):
        if modname == 'yatiml' or modname.startswith('yatiml.'):
            for k, v in sorted(vars(mod).items()):
                if isinstance(v, (dict, list, set)) and not k.startswith('__'):
                    snap[('module', modname, k)] = repr(v)[:2000]
                if isinstance(v, type) and getattr(v, '__module__', '') == modname:
                    for k2, v2 in sorted(vars(v).items()):
                        if isinstance(v2, (list, set)) or (isinstance(v2, dict) and not k2.startswith('yaml_')):
                            snap[('class', modname, k, k2)] = repr(v2)[:2000]
    for i, t in enumerate(PROBES):
        try:
            snap[('safe_load', i)] = repr(yaml.safe_load(t))
        except Exception as e:  # noqa
            snap[('safe_load', i)] = type(e).__name__
    snap['safe_dump'] = yaml.safe_dump({'a': [1, 'yes', 1.5, None], 'b': '1e5'})
    return snap


def user_snapshot(model):
    out = {}
    for n, c in model.classes.items():
        items = []
        for k2, v in sorted(vars(c).items()):
            if callable(v) or isinstance(v, (staticmethod, classmethod, property)) or k2.startswith('__'):
                items.append((k2, type(v).__name__))
            else:
                items.append((k2, repr(v)))
        out[n] = items
    return out


def call_result(fn, arg, model):
    del model.log[:]
    try:
        r = fn(arg)
        return ('ok', CM.val_sexp(r, model) if not isinstance(r, str) else r)
    except Exception as e:  # noqa
        return ('exc', type(e).__name__)


def explore(ctx):
    yaml, yatiml = L.setup()
    rng = ctx.rng
    before = base_snapshot(yaml, yatiml)
    import translate_registry as TR
    tr = TR.build()
    if tr['errors'] or tr['census']:
        ctx.disagree('translator: untranslated {} census {}'.format(tr['errors'][:2], tr['census'][:2]),
                     dict(key='translator'))
    shape_cases(ctx, yatiml, tr)
    defaults_family(ctx, yatiml)
    plugins_family(ctx, yatiml)
    pristine_pyyaml(ctx)
    import yaml as _y
    odd_helper_calls(ctx, _y, yatiml)
    nhist = ctx.budget(40, 600)
    for h in range(nhist):
        funcs = []       # (kind, model, fn, type, inputs)
        k = rng.randint(2, 5)
        for _ in range(k):
            spec, cands = G.gen_model(rng)
            try:
                model = CM.Model(spec)
                t = rng.choice(cands)
                kind = rng.choice(['load', 'load', 'dumps', 'dumps_json'])
                if kind == 'load':
                    fn = yatiml.load_function(model.py_type(t), *model.registered)
                    inputs = []
                    for _ in range(3):
                        doc = G.gen_doc(rng, spec, t)
                        if rng.random() < 0.4:
                            doc, _d = G.mutate(rng, doc, spec)
                        inputs.append(G.render(doc))
                else:
                    fn = yatiml.dumps_function(*model.registered) if kind == 'dumps' else \
                        yatiml.dumps_json_function(*model.registered)
                    inputs = [D.gen_value(rng, model, t) for _ in range(2)]
                    if rng.random() < 0.5:
                        shared = [1, 2]
                        inputs.insert(rng.randint(0, 2), [0, shared, {'k': shared}])   # JSON: aliases raise mid-dump
                attrs_before = user_snapshot(model)
                funcs.append((kind, model, fn, t, inputs, spec, attrs_before))
            except (D.GenFail, G.GenFail):
                continue
            except Exception as e:  # noqa
                ctx.count('gen_error:' + type(e).__name__)
                continue
        if len(funcs) < 2:
            continue
        # reference results: each function alone (created afresh), each input once
        ref = {}
        for i, (kind, model, fn, t, inputs, spec, _a) in enumerate(funcs):
            for j, x in enumerate(inputs):
                ref[(i, j)] = call_result(fn, x, model)
        # a random interleaving, repeated calls, sequentially
        order = [(i, j) for i, f in enumerate(funcs) for j in range(len(f[4]))] * 2
        rng.shuffle(order)
        failing = any(r[0] == 'exc' for r in ref.values())
        ctx.case(('history', h), nontrivial=failing)
        ctx.count('histories')
        for (i, j) in order:
            kind, model, fn, t, inputs, spec, _a = funcs[i]
            got = call_result(fn, inputs[j], model)
            ctx.count('calls')
            if got != ref[(i, j)]:
                ctx.violation('a {} function gives {} after other calls, {} in isolation'.format(
                    kind, str(got)[:120], str(ref[(i, j)])[:120]),
                    dict(key='history:' + kind, classes=model.source[-2000:], input=repr(inputs[j])[:400]))
        # classes of one function are unknown to the others
        for i, (kind, model, fn, t, inputs, spec, _a) in enumerate(funcs):
            mine = {c.__name__: c for c in model.registered}
            for i2, f2 in enumerate(funcs):
                if i2 == i:
                    continue
                other = f2[2]
                reg = None
                if f2[0] == 'load':
                    reg = set(other.loader._registered_classes.values())
                else:
                    reg = set(k2 for k2 in other.dumper.yaml_representers if isinstance(k2, type))
                leaked = [c for c in mine.values() if c in reg]
                if leaked:
                    ctx.violation('classes {} of one function are registered with another'.format(
                        [c.__name__ for c in leaked]), dict(key='leak', classes=model.source[-1500:]))
        # concurrent calls
        results = {}
        errors = []

        def worker(idx):
            try:
                for (i, j) in order[idx::4]:
                    kind, model, fn, t, inputs, spec, _a = funcs[i]
                    try:
                        r = fn(inputs[j])
                        res = ('ok', CM.val_sexp(r, model) if not isinstance(r, str) else r)
                    except Exception as e:  # noqa
                        res = ('exc', type(e).__name__)
                    results.setdefault((i, j), []).append(res)
            except Exception as e:  # noqa
                errors.append(repr(e))
        threads = [threading.Thread(target=worker, args=(n,)) for n in range(4)]
        for th in threads:
            th.start()
        for th in threads:
            th.join()
        ctx.count('threaded_rounds')
        for key, rs in results.items():
            for r in rs:
                if r != ref[key]:
                    ctx.violation('concurrent call gives {} but {} sequentially'.format(str(r)[:100], str(ref[key])[:100]),
                                  dict(key='threads:' + funcs[key[0]][0]))
                    break
        for (kind, model, fn, t, inputs, spec, attrs_before) in funcs:
            now = user_snapshot(model)
            if now != attrs_before:
                ctx.violation('user classes were modified', dict(key='userclass', classes=model.source[-1500:]))
        after = base_snapshot(yaml, yatiml)
        if after != before:
            diff = [k2 for k2 in before if before[k2] != after.get(k2)]
            ctx.violation('PyYAML / yatiml base registries or yaml.safe_load/safe_dump changed: {}'.format(diff[:5]),
                          dict(key='base:' + str(diff[:1])))
            before = after
        if len(ctx.samples) < 2:
            ctx.sample(dict(functions=[(f[0], repr(f[3])[:60]) for f in funcs], calls=len(order)))


def defaults_family(ctx, yatiml):
    """classes with `_yatiml_defaults` and a sweeten that drops defaulted attributes, a subclass with
    other defaults, several dump functions: the user's classes stay as written and results do not
    depend on what was dumped before"""
    rng = ctx.rng
    for i in range(ctx.budget(20, 200)):
        names = rng.sample(['alpha', 'beta', 'gamma', 'delta', 'tags', 'sides'], 3)
        d1 = {names[1]: rng.choice([[], 0, 'x', 4]), names[2]: rng.choice([[], 1, 'y', 3])}
        d2 = {names[1]: rng.choice([[], 0, 'x', 5]), names[2]: rng.choice([[], 2, 'z', 3])}
        listed = rng.sample(names[1:], rng.randint(0, 2))
        srcs = [
            'import yatiml',
            'class Base{i}:',
            '    def __init__(self, {a}: str, {b}={db!r}, {c}={dc!r}) -> None:',
            '        self.{a} = {a}; self.{b} = {b}; self.{c} = {c}',
            '    _yatiml_defaults = {ud!r}',
            '    @classmethod',
            '    def _yatiml_sweeten(cls, node: yatiml.Node) -> None:',
            '        node.remove_attributes_with_default_values(cls)',
            'class Derived{i}(Base{i}):',
            '    def __init__(self, {a}: str, {b}={eb!r}, {c}={ec!r}) -> None:',
            '        super().__init__({a}, {b}, {c})',
        ]
        ud = {k: d1[k] for k in listed}
        text = '\n'.join(srcs).format(i=i, a=names[0], b=names[1], c=names[2], db=d1[names[1]], dc=d1[names[2]],
                                      eb=d2[names[1]], ec=d2[names[2]], ud=ud)
        ns = {}
        try:
            exec(text, ns)
        except Exception:  # noqa
            ctx.count('defaults_gen_error')
            continue
        base, derived = ns['Base{}'.format(i)], ns['Derived{}'.format(i)]
        vals = [base('n'), base('n', d1[names[1]], d1[names[2]]), derived('m'),
                derived('m', d2[names[1]], d2[names[2]]), base('n', d2[names[1]], d1[names[2]])]
        snap = repr(sorted((k, repr(v)) for c in (base, derived) for k, v in vars(c).items()
                           if not callable(v) and not k.startswith('__') and not isinstance(v, classmethod)))

        def results(order):
            out = {}
            f1, f2 = yatiml.dumps_function(base, derived), yatiml.dumps_function(derived, base)
            for j in order:
                for fi, f in enumerate((f1, f2)):
                    try:
                        out[(j, fi)] = f(vals[j])
                    except Exception as e:  # noqa
                        out[(j, fi)] = type(e).__name__
            return out
        order = list(range(len(vals)))
        first = results(order)
        rng.shuffle(order)
        second = results(order)
        ctx.count('defaults_families')
        ctx.case(('defaults', text), nontrivial=bool(listed))
        now = repr(sorted((k, repr(v)) for c in (base, derived) for k, v in vars(c).items()
                          if not callable(v) and not k.startswith('__') and not isinstance(v, classmethod)))
        if now != snap:
            ctx.violation('dumping changed the user\'s classes: {} -> {}'.format(snap[:200], now[:200]),
                          dict(key='userclass-defaults', classes=text))
        elif first != second:
            diff = [k for k in first if first[k] != second[k]]
            ctx.violation('a dump result depends on what was dumped before: {!r} vs {!r}'.format(
                first[diff[0]], second[diff[0]]), dict(key='history-defaults', classes=text))


PRISTINE = r'''
import sys, json, pathlib, collections
import yaml
if len(sys.argv) > 1 and sys.argv[1] == 'with-yatiml':
    import yatiml
out = {}
for name, cls in [('SafeLoader', yaml.SafeLoader), ('SafeDumper', yaml.SafeDumper), ('Loader', yaml.Loader),
                  ('Dumper', yaml.Dumper), ('Resolver', yaml.resolver.Resolver),
                  ('SafeRepresenter', yaml.representer.SafeRepresenter),
                  ('SafeConstructor', yaml.constructor.SafeConstructor)]:
    for attr in ('yaml_constructors', 'yaml_multi_constructors', 'yaml_representers',
                 'yaml_multi_representers', 'yaml_implicit_resolvers', 'yaml_path_resolvers'):
        v = getattr(cls, attr, None)
        if isinstance(v, dict):
            out[name + '.' + attr] = sorted((repr(k), len(x) if isinstance(x, list) else 1) for k, x in v.items())
def probe(fn):
    try:
        return repr(fn())
    except Exception as e:
        return type(e).__name__
vals = [pathlib.PurePosixPath('/a/b'), pathlib.Path('/tmp/x'), collections.OrderedDict(a=1), {'a': [1, 'yes', 1.5, None]},
        '1e5', (1, 2), {1, 2}, b'x', 1.5, float('inf'), 'true', 'é']
for i, v in enumerate(vals):
    out['safe_dump.%d' % i] = probe(lambda: yaml.safe_dump(v))
for i, t in enumerate(['1e5', 'yes', '1.5', '.inf', '0x10', '1_000', '2001-01-01', '!!python/name:os.system', '~', '+.5']):
    out['safe_load.%d' % i] = probe(lambda: yaml.safe_load(t))
print(json.dumps(out, sort_keys=True))
'''


def pristine_pyyaml(ctx):
    """importing yatiml leaves PyYAML as it is: registries and the behaviour of safe_load / safe_dump in a
    process that imported yatiml equal those of a process that did not"""
    import json
    import subprocess
    import sys
    from common import REPO
    outs = []
    for arg in ([], ['with-yatiml']):
        p = subprocess.run([sys.executable, '-c', PRISTINE] + arg, env=dict(os.environ, PYTHONPATH=REPO),
                           stdout=subprocess.PIPE, stderr=subprocess.PIPE, universal_newlines=True, timeout=120)
        if p.returncode != 0:
            ctx.notes.append('pristine probe failed: ' + p.stderr[-300:])
            return
        outs.append(json.loads(p.stdout))
    ctx.case(('pristine-pyyaml',), nontrivial=True)
    ctx.count('pristine_probes')
    diff = [k for k in outs[0] if outs[0][k] != outs[1].get(k)]
    if diff:
        k = diff[0]
        ctx.violation('importing yatiml changes PyYAML: {} is {} without yatiml and {} with it'.format(
            k, str(outs[0][k])[:150], str(outs[1].get(k))[:150]), dict(key='pristine:' + k, differing=diff[:10]))


def odd_helper_calls(ctx, yaml, yatiml):
    """helper calls with arguments the documentation does not foresee may fail, but must not leave
    anything behind in module-level tables that other functions read"""
    from collections import UserString

    class Ident(str):
        pass

    class Ident2(UserString):
        pass
    before = base_snapshot(yaml, yatiml)
    mark = yaml.error.Mark('x', 0, 0, 0, None, 0)
    for v in (Ident('ab'), Ident2('cd'), object(), (1, 2), b'x', 3 + 4j):
        for mk in (lambda: yaml.ScalarNode('tag:yaml.org,2002:str', 'x', mark, mark),
                   lambda: yaml.ScalarNode('!Ident', 'x', mark, mark)):
            node = yatiml.Node(mk())
            for call in (lambda: node.set_value(v), lambda: node.set_attribute('a', v),
                         lambda: node.is_scalar(type(v)), lambda: node.has_attribute_type('a', type(v))):
                try:
                    call()
                except Exception:  # noqa
                    pass
                ctx.count('odd_helper_calls')
    after = base_snapshot(yaml, yatiml)
    ctx.case(('odd-helper-calls',), nontrivial=True)
    if after != before:
        diff = [k for k in before if before[k] != after.get(k)] + [k for k in after if k not in before]
        ctx.violation('a helper call with an unusual argument changed shared state: {}'.format(diff[:3]),
                      dict(key='odd-helper:' + str(diff[:1])))
        return
    # and a class registered with a load function afterwards is still built as that class
    load = yatiml.load_function(Ident, Ident)
    try:
        got = load('ab12')
        ok = type(got) is Ident
    except Exception as e:  # noqa
        got, ok = type(e).__name__, False
    if not ok:
        ctx.violation('after helper calls with unusual arguments load_function(Ident) builds {!r}'.format(got),
                      dict(key='odd-helper:leak'))


def plugins_family(ctx, yatiml):
    """one base class shared by several load functions, each with its OWN subclass of the same name (two
    plug-ins both defining Circle(Shape)): a function knows only the subclass registered with it, whatever
    other subclasses exist in the process and whenever they were created"""
    rng = ctx.rng
    import yaml as _yaml
    for i in range(ctx.budget(12, 120)):
        class Shape:
            def __init__(self, name: str) -> None:
                self.name = name

        def mk(attr, plugin):
            src = ('def __init__(self, name: str, {a}: int) -> None:\n'
                   '    self.name = name\n    self.{a} = {a}\n').format(a=attr)
            ns = {}
            exec(src, ns)
            return type('Circle', (Shape,), {'__init__': ns['__init__'], 'plugin': plugin})
        attrs = rng.sample(['radius', 'r', 'size'], 2)
        same_attr = rng.random() < 0.5
        docs = ['{name: a}', '{name: a, %s: 1}' % attrs[0], '{name: a, %s: 1}' % (attrs[0] if same_attr else attrs[1]),
                '{name: a, bogus: 2}']
        plugins = []
        outcomes = {}

        def run(load):
            out = []
            for d in docs:
                try:
                    v = load(d)
                    out.append(('ok', type(v).__name__, getattr(v, 'plugin', None), sorted(vars(v).items())))
                except (yatiml.RecognitionError, _yaml.YAMLError):
                    out.append(('rec',))
                except Exception as e:  # noqa
                    out.append(('other', type(e).__name__))
            return out
        # each plug-in alone (its classes are created, used, then the next plug-in appears)
        for p in range(rng.randint(2, 3)):
            circle = mk(attrs[0] if (same_attr or p == 0) else attrs[1], p)
            load = yatiml.load_function(Shape, circle)
            first = run(load)
            plugins.append((p, load, first))
        for p, load, first in plugins:
            again = run(load)
            ctx.case(('plugins', i, p, repr(again)[:100]), nontrivial=True)
            ctx.count('plugin_calls')
            if again != first:
                k = [j for j in range(len(docs)) if again[j] != first[j]][0]
                ctx.violation('a load function over Shape and its own Circle gives {} for {!r} once another '
                              'function with another Circle(Shape) exists; it gave {} before'.format(
                                  again[k], docs[k], first[k]),
                              dict(key='plugins:{}'.format(again[k][0]), doc=docs[k]))
                break
            for r in again:
                if r[0] == 'ok' and r[1] == 'Circle' and r[2] != p:
                    ctx.violation('a load function returned the Circle of another function', dict(key='plugins:foreign'))


def search(ctx, broken):
    explore(ctx)


def replay(ctx, rep):
    import json
    print(json.dumps(rep.get('case', rep), indent=1)[:3000])
    explore(ctx)
    return not ctx.violations
