"""C12 — every source and sink kind gives the same result."""
import io
import os
import pathlib
import shutil
import tempfile

import classmodel as CM
import dumprun as D
import loadgen as G
import loadrun as L
from props import loadcommon as LC

PROPERTY = 'C12'
LEAN_MODULES = ['YatimlModel.Props.C12']
THEOREMS = ['YatimlModel.C12.' + t for t in [
    'dump_matches_dumps', 'dump_json_matches_dumps_json', 'load_sites_agree', 'setups_agree',
    'sites_exist', 'skeleton', 'C12_sinks_equal', 'C12_sources_equal']]
RULE = ('generated (type, document) cases loaded from a str, a pathlib.Path, an open text stream and an '
        'open binary stream: equal results or the same error class; generated (class model, value, '
        'indent, ensure_ascii) cases dumped with dump_function / dump_json_function to a file name, a Path '
        'and an open text stream: exactly the text dumps_function / dumps_json_function return.  The '
        'call-site table regenerated from the source is what the theorems are about.  Non-trivial = the '
        'document or value is not a bare scalar.'
        "Also: documents that pass recognition and fail in PyYAML's scalar constructors, from"
        ' every source kind.')
ASSUMPTIONS = ['a text stream, a binary stream (UTF-8) and a str decode to the same characters; '
               'Path.open("w") writes what StringIO collects (default encoding UTF-8 in this environment)']


def translate(ctx):
    return []


def outcome(fn, model):
    try:
        v = fn()
        return ('ok', CM.val_sexp(v, model))
    except Exception as e:  # noqa
        return ('exc', type(e).__name__)


def explore(ctx):
    yaml, yatiml = L.setup()
    rng = ctx.rng
    tmp = tempfile.mkdtemp(prefix='verif_c12_')
    try:
        # ---- sources ----
        for c in LC.gen_cases(ctx, ctx.budget(250, 5000), mutate_p=0.3):
            text = c.text
            r = rng.random()
            if r < 0.3:
                text = text + ' # é ü 日本\n'
            elif r < 0.4:
                text = rng.choice(['', '', '\n', '# only a comment\n', '---\n', '   \n'])
            load = c.real.load
            base = outcome(lambda: load(text), c.model)
            p = pathlib.Path(tmp) / 'doc.yaml'
            try:
                p.write_text(text, encoding='utf-8')
            except UnicodeEncodeError:
                continue
            outs = {'Path': outcome(lambda: load(p), c.model)}
            with open(str(p), 'r', encoding='utf-8') as f:
                outs['text stream'] = outcome(lambda: load(f), c.model)
            with open(str(p), 'rb') as f:
                outs['binary stream'] = outcome(lambda: load(f), c.model)
            outs['StringIO'] = outcome(lambda: load(io.StringIO(text)), c.model)
            outs['BytesIO'] = outcome(lambda: load(io.BytesIO(text.encode('utf-8'))), c.model)
            ctx.case(('load', text, repr(c.doc_type)), nontrivial=c.doc is None or c.doc[0] != 's')
            ctx.count('load_cases')
            if len(ctx.samples) < 2:
                ctx.sample(dict(text=text[:200], str_outcome=base[0], others={k: v[0] for k, v in outs.items()}))
            for kind, o in outs.items():
                if o != base:
                    ctx.violation('loading from a {} gives {} but from a str {}'.format(kind, str(o)[:120], str(base)[:120]),
                                  dict(L.describe(c), key='source:' + kind, text=text))
                    break
        # ---- sources, documents that pass recognition and then fail in PyYAML's own constructors ----
        import datetime
        from typing import Any, Dict, List
        fixed_loads = [(Any, yatiml.load_function(Any)), (int, yatiml.load_function(int)),
                       (datetime.date, yatiml.load_function(datetime.date)),
                       (Dict[str, Any], yatiml.load_function(Dict[str, Any])),
                       (List[datetime.date], yatiml.load_function(List[datetime.date]))]
        fixed_texts = ['!!int x', '2001-13-45', '2001-02-30', '{a: !!int ""}', '!!float abc', '[!!bool maybe]',
                       '!!binary "@@@"', '!!timestamp nope', '[2001-02-30, 2001-01-01]', '{a: 2001-13-45}',
                       '!!int 0x_', '[2001-01-01, 2001-00-10]', '{a: [!!null x, !!int +]}', '12', '2001-01-01',
                       '[2001-01-01]', '{a: 1}', '!!set {a, b}', '!!omap [a: 1]', '!!int "1"  # é',
                       '&a [*a]', 'top: &a\n  - 1\n  - *a\n', '&a {k: *a}', '&a {? *a : 1}', '[&b {x: 1}, *b]',
                       '{a: &c 2001-01-01, b: *c}', '*undefined', '{a: 1, a: 2}', '{a: {b: 1}', '[1, 2',
                       'a: b: c', '"unterminated', '\ttab: 1', 'é: ü']
        for ty, load in fixed_loads:
            for text in fixed_texts:
                def oc(fn):
                    try:
                        return ('ok', repr(fn()))
                    except Exception as e:  # noqa
                        return ('exc', type(e).__name__)
                base = oc(lambda: load(text))
                p = pathlib.Path(tmp) / 'doc2.yaml'
                p.write_text(text, encoding='utf-8')
                outs = {'Path': oc(lambda: load(p))}
                with open(str(p), 'r', encoding='utf-8') as f:
                    outs['text stream'] = oc(lambda: load(f))
                with open(str(p), 'rb') as f:
                    outs['binary stream'] = oc(lambda: load(f))
                outs['StringIO'] = oc(lambda: load(io.StringIO(text)))
                outs['BytesIO'] = oc(lambda: load(io.BytesIO(text.encode('utf-8'))))
                ctx.case(('load-fixed', text, repr(ty)), nontrivial=True)
                ctx.count('load_cases_constructor_failures')
                for kind, o in outs.items():
                    if o != base:
                        ctx.violation('loading {!r} as {} from a {} gives {} but from a str {}'.format(
                            text, getattr(ty, '__name__', ty), kind, str(o)[:120], str(base)[:120]),
                            dict(key='source-fixed:' + kind, text=text, doc_type=repr(ty)))
                        break
        # ---- sinks ----
        made = 0
        attempts = 0
        target = ctx.budget(250, 5000)
        while made < target and attempts < target * 5:
            attempts += 1
            spec, cands = G.gen_model(rng)
            try:
                model = CM.Model(spec)
                v = D.gen_value(rng, model, rng.choice(cands))
                regs = model.registered
                dumps, dump = yatiml.dumps_function(*regs), yatiml.dump_function(*regs)
                dumps_json, dump_json = yatiml.dumps_json_function(*regs), yatiml.dump_json_function(*regs)
            except (D.GenFail, G.GenFail):
                continue
            except Exception as e:  # noqa
                ctx.count('gen_error:' + type(e).__name__)
                continue
            made += 1
            if made % 5 == 0:
                # a JSON dump that fails part-way (a shared sub-object) must leave nothing behind
                shared = [1]
                for f_ in (lambda: dumps_json([shared, [shared]]), lambda: dump_json([shared, [shared]], io.StringIO())):
                    try:
                        f_()
                    except Exception:  # noqa
                        ctx.count('aborted_json_dump')
            indent = rng.choice([None, None, 0, 2, 4, 7])
            ea = rng.choice([True, False])
            variants = []
            try:
                want = dumps(v)
                variants.append(('yaml', want, lambda sink: dump(v, sink)))
            except Exception as e:  # noqa
                ctx.count('dumps_error:' + type(e).__name__)
            try:
                wantj = dumps_json(v, indent=indent, ensure_ascii=ea)
                variants.append(('json', wantj, lambda sink: dump_json(v, sink, indent=indent, ensure_ascii=ea)))
                variants.append(('json-positional', wantj, lambda sink: dump_json(v, sink, indent, ea)))
            except Exception as e:  # noqa
                ctx.count('dumps_json_error:' + type(e).__name__)
            for fmt, want, do in variants:
                got = {}
                # the name of the sink says nothing about the format
                fn = os.path.join(tmp, 'out_{}{}'.format(made, rng.choice(
                    ['.txt', '.yaml', '.yml', '.json', '.JSON', '', '.dat', ' with space.json', '.é'])))
                try:
                    do(fn)
                    got['file name'] = open(fn, encoding='utf-8').read()
                    do(fn)
                    got['file name, second dump to it'] = open(fn, encoding='utf-8').read()
                    with open(fn, 'w', encoding='utf-8') as f:
                        f.write('previous content: ' + 'x' * rng.randint(0, 3 * len(want) + 5) + '\n')
                    do(pathlib.Path(fn))
                    got['Path of an existing file'] = open(fn, encoding='utf-8').read()
                    os.remove(fn)
                    do(pathlib.Path(fn))
                    got['Path'] = open(fn, encoding='utf-8').read()
                    os.remove(fn)
                    s = io.StringIO()
                    do(s)
                    got['text stream'] = s.getvalue()
                    with open(fn, 'w', encoding='utf-8') as f:
                        do(f)
                    got['open file'] = open(fn, encoding='utf-8').read()
                    os.remove(fn)
                except Exception as e:  # noqa
                    got['raised'] = '{}: {}'.format(type(e).__name__, e)
                ctx.case(('dump', fmt, repr(v)[:200], indent, ea), nontrivial=not isinstance(v, (str, int, float, bool, type(None))))
                ctx.count('dump_cases:' + fmt)
                for kind, text in got.items():
                    if text != want:
                        ctx.violation('{} dump to a {} writes {!r} but the dumps variant returns {!r}'.format(
                            fmt, kind, text[:150], want[:150]),
                            dict(key='sink:{}:{}'.format(fmt, kind), classes=model.source[-2500:], value=repr(v)[:400],
                                 indent=indent, ensure_ascii=ea))
                        break
    finally:
        shutil.rmtree(tmp, ignore_errors=True)


def search(ctx, broken):
    explore(ctx)


def replay(ctx, rep):
    import json
    print(json.dumps(rep.get('case', rep), indent=1)[:3000])
    explore(ctx)
    return not ctx.violations
