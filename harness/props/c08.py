"""C08 — bad input is reported only as RecognitionError or a YAML error."""
from props import loadcommon as LC
import loadgen as G
import loadrun as L

from typing import List  # noqa: E402

PROPERTY = 'C08'
LEAN_MODULES = ['YatimlModel.Props.C08']
THEOREMS = ['YatimlModel.C08.' + t for t in ['C08_process_no_other', 'C08_construct_no_other',
                                              'C08_load_no_other']] + ['YatimlModel.recognize_noHook']
RULE = ('generated class models (hierarchies, enums, string-likes, hooks incl. raising savorizers, '
        'raising constructors) x documents derived from the type, single/double mutations (tags, '
        'wrong kinds, duplicate / non-scalar / merge keys), token soup and mutated valid texts; the '
        'exception class of the real load is observed.  Non-trivial = the load fails.'
        ' Directed families: class-key faults (repeated / dashed / odd-named keys with a required'
        " key missing, explicitly core-tagged scalars PyYAML's constructors refuse), untyped"
        ' regions, recognisers that pin a value (every scalar kind) on such scalars, the'
        ' no-argument RecognitionError().')
ASSUMPTIONS = ['exceptions raised by a custom _yatiml_recognize other than RecognitionError are outside '
               'the property (it lists constructors, string-likes and savorize)']

SOUP = ['{', '}', '[', ']', ':', ',', '- ', '? ', '&a ', '*a', '!', '!!', '|', '>', '#', '"', "'", '%',
        '@', '`', '\n', '  ', 'a', '1', 'true', '<<', '~', '...', '---', '!Alpha ', '!!int ', '\t', 'é',
        '\x00', '\ud800'.encode('utf-8', 'surrogatepass').decode('utf-8', 'ignore'), '﻿', '0x', '1:', '- - ', 'k: ']


def translate(ctx):
    return []


def explore(ctx):
    cases = LC.CaseBuffer(ctx)
    import itertools
    for c in itertools.chain(LC.gen_cases(ctx, ctx.budget(500, 12000), mutate_p=0.75, prop='C08'),
                             LC.class_key_faults(ctx, ctx.budget(250, 5000)),
                             LC.untyped_regions(ctx, ctx.budget(60, 1200))):
        cases.append(c)
        LC.record_distribution(ctx, c)
        ctx.case((c.text, repr(c.doc_type)), nontrivial=c.real_out[0] != 'ok')
        if len(ctx.samples) < 4:
            ctx.sample(dict(text=c.text, type=repr(c.doc_type), outcome=c.real_out[0]))
        if c.real_out[0] == 'other':
            exc = c.real_out[1].split(':')[0]
            hook = any(cl.get('recognize') and ('rother',) in cl['recognize'] for cl in c.spec)
            if hook and exc == 'ValueError' and 'custom recogniser blew up' in c.real_out[1]:
                ctx.count('excluded:raising-recogniser')
                continue
            ctx.violation('load raises {} for {!r} as {}'.format(c.real_out[1][:120], c.text[:200], c.doc_type),
                          dict(L.describe(c), key='escapes:{}:{}'.format(exc, c.text[:60])))
    # hand-written recognisers that pin an attribute to a value, on explicitly tagged scalars that
    # PyYAML's constructors refuse (each with another exception type)
    yaml_, yatiml_ = L.setup()
    S = G.S
    bads = [('s', '', True, '!!int'), ('s', 'maybe', False, '!!bool'), ('s', '_', False, '!!int'),
            ('s', '', True, '!!bool'), ('s', 'x', False, '!!float'), ('s', '+', False, '!!int'),
            ('s', '0x_', False, '!!int'), ('s', 'nope', False, '!!timestamp'), ('s', '1', False, '!!int')]
    for opname in ('rval', 'rvalnot'):
        for pt, pv in ((('int',), 1), (('bool',), True), (('float',), 1.5), (('str',), 'special')):
            ps = [dict(name='kind', type=pt), dict(name='x', type=('int',), default=0)]
            pinned = dict(name='Pinned', bases=[], registered=True, kind='plain', params=ps, all_params=ps,
                          extra=False, abstract=None, define_init=True, recognize=[(opname, 'kind', pv)])
            po = [dict(name='kind', type=('str',))]
            other = dict(name='Other', bases=[], registered=True, kind='plain', params=po, all_params=po,
                         extra=False, abstract=None, define_init=True)
            for t in (('cls', 'Pinned'), ('union', [('cls', 'Pinned'), ('cls', 'Other')]),
                      ('seq', 'list', ('cls', 'Pinned'))):
                for bad in bads:
                    doc = ('m', [(S('kind'), bad), (S('x'), S('1'))], None)
                    if t[0] == 'seq':
                        doc = ('q', [doc], None)
                    try:
                        c = L.build_case(ctx.rng, yaml_, yatiml_, [pinned, other], t, doc, ('pinned', opname))
                        L.run_case(c, yaml_)
                    except Exception as e:  # noqa
                        ctx.count('gen_error:' + type(e).__name__)
                        continue
                    cases.append(c)
                    ctx.case((c.text, repr(t), opname, repr(pv)), nontrivial=c.real_out[0] != 'ok')
                    ctx.count('pinned_cases')
                    if c.real_out[0] == 'other':
                        ctx.violation('load raises {} for {!r} as {} (recogniser: {}({!r}))'.format(
                            c.real_out[1][:120], c.text, t, opname, pv),
                            dict(L.describe(c), key='escapes-pinned:{}:{}'.format(c.real_out[1].split(':')[0], c.text[:40])))
    # integers too long for CPython's int -> str conversion (3.11+): they load, and nothing may try to print them
    from typing import Dict as _D, List as _L

    class _Big:
        def __init__(self, x: int, y: int = 0) -> None:
            self.x = x
            self.y = y
    big = '0x' + 'f' * 4000
    for ty, text in ((_Big, '{x: %s}' % big), (_L[_Big], '[{x: 1}, {x: %s, y: 2}]' % big), (_D[str, _Big], '{k: {x: %s}}' % big),
                     (int, big), (_L[int], '[1, %s]' % big), (_Big, '{x: 1, y: %s, z: 3}' % big), (_Big, '{x: %s, x: 2}' % big)):
        try:
            yatiml_.load_function(ty, _Big)(text)
            res = 'ok'
        except (yatiml_.RecognitionError, yaml_.YAMLError):
            res = 'rec'
        except Exception as e:  # noqa
            res = 'other:' + type(e).__name__
        ctx.case(('huge-int', repr(ty), len(text)), nontrivial=True)
        ctx.count('huge_int:' + res.split(':')[0])
        if res.startswith('other'):
            ctx.violation('load raises {} for a document with a 4000-hex-digit integer (type {})'.format(
                res[6:], getattr(ty, '__name__', ty)), dict(key='huge-int:' + res, text=text[:60] + '...'))
    # token soup and mutated text on a few fixed models
    rng = ctx.rng
    yaml, yatiml = L.setup()
    import classmodel as CM
    for i in range(ctx.budget(60, 600)):
        spec, cands = G.gen_model(rng)
        try:
            t = rng.choice(cands)
            model = CM.Model(spec)
            real = G.RealLoad(model, t, yatiml, yaml)
            base = G.render(G.gen_doc(rng, spec, t))
        except Exception:
            continue
        for j in range(ctx.budget(6, 12)):
            if rng.random() < 0.5:
                text = ''.join(rng.choice(SOUP) for _ in range(rng.randint(1, 12)))
            else:
                k = rng.randrange(len(base) + 1)
                text = base[:k] + rng.choice(SOUP) + base[k + rng.randint(0, 2):]
            out = real.run(text)
            ctx.case(('soup', text), nontrivial=out[0] != 'ok')
            ctx.count('soup:' + out[0])
            if out[0] == 'other':
                ctx.violation('load raises {} for text {!r}'.format(out[1][:120], text[:200]),
                              dict(key='soup:{}:{}'.format(out[1].split(':')[0], text[:60]), text=text,
                                   doc_type=repr(t), classes=model.source[-2500:]))
    # class models with annotations yatiml cannot use: forward references, strings, tuples, sets, callables
    ODD = ["Optional[List['Node']]", "'Node'", "Tuple[int, int]", "set", "Dict[int, str]", "Optional['Node']",
           "Callable[[int], int]", "List['Missing']", "Union['Node', int]", "frozenset", "bytes", "complex", "object",
           "list[int]", "dict[str, int]", "int | None", "Literal['a']", "Type[int]", "Set[int]", "Tuple[int, ...]",
           "Optional[Tuple[int, int]]", "Dict[str, 'Node']", "Union[int, Set[str]]", "List[list]", "type(None)"]
    DOCS = ['{v: 1}', '{v: 1, x: [{v: 2}]}', '{v: 1, x: {v: 2}}', '{v: 1, x: [1, 2]}', '{v: 1, x: 3}',
            '{v: 1, x: null}', '{v: 1, x: {1: a}}', '{v: 1, x: !Node {v: 2}}', '{v: 1, x: a}', '[{v: 1, x: []}]']
    for i in range(ctx.budget(len(ODD), len(ODD) * 3)):
        ann = ODD[i % len(ODD)]
        default = ' = None' if rng.random() < 0.5 else ''
        src = ('import yatiml\nfrom typing import *\nclass Node:\n'
               '    def __init__(self, v: int, x: {}{}) -> None:\n        self.v = v\n        self.x = x\n'.format(ann, default))
        ns = {}
        try:
            exec(src, ns)
            loaders = [yatiml.load_function(ns['Node']), yatiml.load_function(List[ns['Node']], ns['Node'])]
        except Exception:  # noqa
            ctx.count('odd_model_rejected_at_creation')
            continue
        for load in loaders:
            for text in DOCS:
                try:
                    load(text)
                    res = 'ok'
                except (yatiml.RecognitionError, yaml.YAMLError):
                    res = 'rec'
                except Exception as e:  # noqa
                    res = 'other:' + type(e).__name__
                ctx.case(('odd', ann, text), nontrivial=res != 'ok')
                ctx.count('odd_annotation:' + res.split(':')[0])
                if res == 'other:RuntimeError' and ann.startswith('Dict[int'):
                    # "YAtiML only supports dicts with strings as keys": the documented answer to this
                    # programming error (HooksTame / TameP in the theorem's hypotheses)
                    ctx.count('excluded:dict-with-non-string-keys')
                    continue
                if res.startswith('other'):
                    ctx.violation('load raises {} for {!r} with an attribute annotated {}'.format(res[6:], text, ann),
                                  dict(key='odd:{}:{}'.format(ann, res), classes=src, text=text))
    hooks_raising_yatiml_errors(ctx, yaml, yatiml)
    LC.correspond(ctx, cases)


def hooks_raising_yatiml_errors(ctx, yaml, yatiml):
    """hand-written hooks that raise yatiml's own exception types, with and without a message, from
    `_yatiml_recognize` and from `_yatiml_savorize`, at the root, inside a list and inside another class:
    only RecognitionError may come out"""
    from typing import List as L_
    for hook in ('_yatiml_recognize', '_yatiml_savorize'):
        for exc in ('yatiml.SeasoningError()', "yatiml.SeasoningError('no')", 'yatiml.RecognitionError()',
                    "yatiml.RecognitionError('no')"):
            src = ('import yatiml\nclass Inner:\n    def __init__(self, v: int) -> None:\n        self.v = v\n'
                   '    @classmethod\n    def {}(cls, node) -> None:\n        raise {}\n'
                   'class Outer:\n    def __init__(self, i: Inner) -> None:\n        self.i = i\n').format(hook, exc)
            ns = {}
            exec(src, ns)
            I, O = ns['Inner'], ns['Outer']
            for load, text in ((yatiml.load_function(I), '{v: 1}'), (yatiml.load_function(L_[I], I), '[{v: 1}]'),
                               (yatiml.load_function(O, I), '{i: {v: 1}}')):
                try:
                    load(text)
                    res = 'ok'
                except (yatiml.RecognitionError, yaml.YAMLError):
                    res = 'rec'
                except Exception as e:  # noqa
                    res = 'other:' + type(e).__name__
                ctx.case(('hook-raises', hook, exc, text), nontrivial=True)
                ctx.count('hook_raises_yatiml_error:' + res.split(':')[0])
                if res.startswith('other'):
                    ctx.violation('load raises {} when {} raises {}'.format(res[6:], hook, exc),
                                  dict(key='hook-raises:{}:{}:{}'.format(hook, exc, res), classes=src, text=text))


def search(ctx, broken):
    explore(ctx)


def replay(ctx, rep):
    import json
    print(json.dumps(rep.get('case', rep), indent=1)[:3000])
    explore(ctx)
    return not ctx.violations
