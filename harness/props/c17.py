"""C17 — recognition errors point at the offending place."""
from props import loadcommon as LC
import classmodel as CM
import loadgen as G
import loadrun as L
import nodes as N

PROPERTY = 'C17'
LEAN_MODULES = ['YatimlModel.Props.C17']
THEOREMS = ['YatimlModel.C17.' + t for t in [
    'C17_errAt_one_position', 'C17_scalar_mismatch_cites_node', 'C17_missing_key_named',
    'C17_unknown_key_named', 'C17_wrong_attribute_type_cites_value', 'C17_construct_errors_positioned', 'C17_recognition_failure_positioned',
    'C17_unrecognised_node_error_positioned', 'C17_repeated_key_cites_mapping', 'C17_repeated_key_inner_kept']]
RULE = ('hierarchy-free generated class models x valid documents rendered in block style x single-point '
        'corruptions (wrong scalar type, misspelt key, dropped required key, added key, a key repeated, '
        'also in nested mappings (directed grid), unknown enum member); the real RecognitionError message is parsed: it must cite a position on the line of the '
        'corrupted node, of its key, or of the start of the enclosing mapping, and name an unknown or '
        'missing key; for arbitrary models every RecognitionError must cite at least one position and '
        'only positions inside the document.  Model and real cited position sets are compared on every '
        'failing case.  Non-trivial = the corrupted document fails to load.')
ASSUMPTIONS = ['yaml.Mark.__str__ prints "line N, column M" (1-based)']


def translate(ctx):
    return []


def block(doc, ind=0):
    """block-style YAML lines for a document tree (scalars and empty collections in flow form)"""
    pad = '  ' * ind
    k = doc[0]
    if k == 's' or (k in ('q', 'm') and not doc[1]):
        return [pad + G.render(doc)]
    tag = doc[2]
    lines = []
    if k == 'q':
        if tag:
            lines.append(pad + tag)
        for x in doc[1]:
            if x[0] == 's' or not x[1]:
                lines.append(pad + '- ' + G.render(x))
            else:
                sub = block(x, ind + 1)
                first = sub[0].lstrip()
                if x[2]:
                    lines.append(pad + '- ' + first)
                    lines.extend(sub[1:])
                else:
                    lines.append(pad + '- ' + first)
                    lines.extend(sub[1:])
        return lines
    if tag:
        lines.append(pad + tag)
    for kk, v in doc[1]:
        ks = G.render(kk)
        if kk[0] != 's':
            ks = '? ' + ks + '\n' + pad
        if v[0] == 's' or not v[1]:
            lines.append(pad + ks + ': ' + G.render(v))
        else:
            lines.append(pad + ks + ':' + ((' ' + v[2]) if v[2] else ''))
            sub = block((v[0], v[1], None), ind + 1)
            lines.extend(sub)
    return lines


def hierarchy_free(spec):
    return all(not c['bases'] and not c.get('recognize') and not c.get('savorize') and not c.get('abstract')
               for c in spec)


def node_at(yaml, node, path):
    """(node, key node or None, nearest enclosing mapping or None)"""
    key, enclosing = None, None
    i = 0
    while i < len(path):
        if isinstance(node, yaml.SequenceNode):
            node = node.value[path[i]]
            key = None
            i += 1
        else:
            enclosing = node
            k, v = node.value[path[i]]
            if path[i + 1] == 0:
                node, key = k, None
            else:
                node, key = v, k
            i += 2
    if isinstance(node, yaml.MappingNode) and enclosing is None:
        enclosing = node
    return node, key, enclosing


def is_key_path(doc, path):
    i = 0
    last_key = False
    while i < len(path):
        if doc[0] == '&':
            doc = doc[2]
        if doc[0] == 'q':
            doc = doc[1][path[i]]
            last_key = False
            i += 1
        else:
            k, v = doc[1][path[i]]
            last_key = path[i + 1] == 0
            doc = k if last_key else v
            i += 2
    return last_key


def class_map_paths(spec, doc, t, path=()):
    """paths of the mappings that are read as (plain) classes when doc is loaded as t"""
    by = {c['name']: c for c in spec}
    out = []
    if t is None:
        return out
    k = t[0]
    if k == 'union':
        fits = [m for m in t[1] if (m[0] == 'cls' and doc[0] == 'm') or (m[0] == 'seq' and doc[0] == 'q') or
                (m[0] == 'map' and doc[0] == 'm')]
        if len(fits) == 1:
            return class_map_paths(spec, doc, fits[0], path)
        return out      # which member the mapping was written for cannot be told from its kind
    if k == 'cls' and doc[0] == 'm' and by[t[1]]['kind'] == 'plain':
        out.append(path)
        ptypes = {p['name']: p.get('type') for p in by[t[1]]['params']}
        for i, (kk, v) in enumerate(doc[1]):
            if kk[0] == 's':
                pt = ptypes.get(kk[1].replace('-', '_'))
                out += class_map_paths(spec, v, pt, path + (i, 1))
    elif k == 'seq' and doc[0] == 'q':
        for i, x in enumerate(doc[1]):
            out += class_map_paths(spec, x, t[2], path + (i,))
    elif k == 'map' and doc[0] == 'm':
        for i, (kk, v) in enumerate(doc[1]):
            out += class_map_paths(spec, v, t[3], path + (i, 1))
    return out


def corrupt(rng, spec, doc, t):
    """one corruption with the path of the corrupted place; None if not applicable"""
    by = {c['name']: c for c in spec}
    ps = G.all_paths(doc)
    maps = [p for p in class_map_paths(spec, doc, t) if G.get_at_path(doc, p)[1]]
    scal = [p for p in ps if G.get_at_path(doc, p)[0] == 's' and not is_key_path(doc, p)]
    kind = rng.choice(['scalar', 'scalar', 'misspell', 'drop', 'add', 'enum', 'dup'])
    if kind == 'scalar' and scal:
        p = rng.choice(scal)
        old = G.get_at_path(doc, p)
        new = rng.choice([G.S('zzz'), G.S('12'), G.S('1.5'), G.S('true'), ('q', [G.S('a')], None),
                          ('m', [(G.S('q'), G.S('1'))], None)])
        if new == old:
            return None
        return G.replace_at(doc, p, lambda d: new), ('scalar', p, p), None
    if kind in ('misspell', 'drop', 'add') and maps:
        p = rng.choice(maps)
        m = G.get_at_path(doc, p)
        pairs = list(m[1])
        i = rng.randrange(len(pairs))
        if kind == 'misspell':
            k, v = pairs[i]
            if k[0] != 's' or not k[1]:
                return None
            bad = k[1][:-1] + ('x' if k[1][-1] != 'x' else 'y')
            pairs[i] = (G.S(bad), v)
            return G.replace_at(doc, p, lambda d: ('m', pairs, m[2])), ('misspell', p + (i, 0), p), bad
        if kind == 'drop':
            k, v = pairs[i]
            del pairs[i]
            return G.replace_at(doc, p, lambda d: ('m', pairs, m[2])), ('drop', None, p), (k[1] if k[0] == 's' else None)
        pairs.insert(i, (G.S('bogus_key'), G.S('1')))
        return G.replace_at(doc, p, lambda d: ('m', pairs, m[2])), ('add', p + (i, 0), p), 'bogus_key'
    if kind == 'dup' and maps:
        # a key turned into a second occurrence of a sibling key
        p = rng.choice(maps)
        m = G.get_at_path(doc, p)
        pairs = list(m[1])
        strs = [j for j, (k, _) in enumerate(pairs) if k[0] == 's' and k[1]]
        if len(strs) < 2:
            return None
        i, j = rng.sample(strs, 2)
        if pairs[i][0][1] == pairs[j][0][1]:
            return None
        name = pairs[j][0][1]
        pairs[i] = (G.S(name), pairs[i][1])
        return G.replace_at(doc, p, lambda d: ('m', pairs, m[2])), ('dup', p + (i, 0), p), name
    if kind == 'enum':
        members = set()
        for c in spec:
            if c['kind'] == 'enum':
                members |= set(c['members'])
        cand = [p for p in scal if G.get_at_path(doc, p)[1] in members]
        if not cand:
            return None
        p = rng.choice(cand)
        return G.replace_at(doc, p, lambda d: G.S('not_a_member')), ('enum', p, p), None
    return None


def directed_hook_failures(ctx):
    """a fixed grid: savorize hooks that refuse (SeasoningError, another exception), constructors that
    refuse, at the root, in a list, in an attribute, as a dict key / value"""
    yaml, yatiml = L.setup()
    rng = ctx.rng
    S = G.S
    P = lambda nm, t, **kw: dict(name=nm, type=t, **kw)   # noqa: E731
    for hook in (('fail',), ('other',), ('fail', 'bare'), ('other', 'bare')):
        for kind in ('plain', 'userstring', 'str'):
            if kind == 'plain':
                ps = [P('a', ('int',))]
                inner = dict(name='Inner', bases=[], registered=True, kind='plain', params=ps, all_params=ps,
                             extra=False, abstract=None, define_init=True, savorize=[hook])
                good = ('m', [(S('a'), S('1'))], None)
            else:
                inner = dict(name='Inner', bases=[], registered=True, kind=kind, savorize=[hook])
                good = S('word')
            hp = [P('x', ('cls', 'Inner')), P('n', ('int',), default=0)]
            holder = dict(name='Holder', bases=[], registered=True, kind='plain', params=hp, all_params=hp,
                          extra=False, abstract=None, define_init=True)
            shapes = [(('cls', 'Inner'), good), (('seq', 'list', ('cls', 'Inner')), ('q', [good, good], None)),
                      (('cls', 'Holder'), ('m', [(S('n'), S('2')), (S('x'), good)], None)),
                      (('map', 'dict', ('str',), ('cls', 'Inner')), ('m', [(S('k'), good)], None))]
            if kind != 'plain':
                shapes.append((('map', 'dict', ('cls', 'Inner'), ('int',)), ('m', [(good, S('1'))], None)))
            for t, doc in shapes:
                try:
                    c = L.build_case(rng, yaml, yatiml, [inner, holder], t, doc, ('directed-hook-failure',))
                    c.text = '\n'.join(block(doc)) + '\n'
                    L.run_case(c, yaml)
                except Exception as e:  # noqa
                    ctx.count('gen_error:' + type(e).__name__)
                    continue
                ctx.count('directed_hook_failures')
                yield c


def directed_one_or_many(ctx):
    """a fixed grid: attributes that take one value or a (nested) collection of them, a valid block
    document, and one wrong scalar at an element that is NOT the first of its collection"""
    yaml, yatiml = L.setup()
    rng = ctx.rng
    S = G.S
    P = lambda nm, t, **kw: dict(name=nm, type=t, **kw)   # noqa: E731
    for T, good, bad in ((('int',), ['1', '2', '3'], 'zzz'), (('str',), ['p', 'q', 'r'], '12'),
                         (('float',), ['1.5', '2.5', '0.5'], 'x'), (('bool',), ['true', 'false', 'true'], '7')):
        lst = ('seq', 'list', T)
        deep = ('map', 'dict', ('str',), ('map', 'dict', ('str',), T))
        dl = ('map', 'dict', ('str',), ('seq', 'list', T))
        ps = [P('vals', ('union', [T, lst])), P('deep', ('union', [T, deep])), P('lists', ('union', [dl, T])),
              P('plain', lst), P('n', ('int',))]
        holder = dict(name='Holder', bases=[], registered=True, kind='plain', params=ps, all_params=ps,
                      extra=False, abstract=None, define_init=True)
        g = [S(x) for x in good]
        doc = ('m', [(S('vals'), ('q', list(g), None)),
                     (S('deep'), ('m', [(S('a'), ('m', [(S('x'), g[0]), (S('y'), g[1])], None)),
                                        (S('b'), ('m', [(S('z'), g[2])], None))], None)),
                     (S('lists'), ('m', [(S('k1'), ('q', list(g), None)), (S('k2'), ('q', g[:2], None))], None)),
                     (S('plain'), ('q', list(g), None)), (S('n'), S('5'))], None)
        places = [(0, 1, 1), (0, 1, 2), (1, 1, 0, 1, 1, 1), (1, 1, 1, 1, 0, 1), (2, 1, 0, 1, 2), (2, 1, 1, 1, 1),
                  (3, 1, 1), (3, 1, 2)]
        for path in places:
            try:
                c = L.build_case(rng, yaml, yatiml, [holder], ('cls', 'Holder'), doc, ('directed-one-or-many',))
                L.run_case(c, yaml)
            except Exception as e:  # noqa
                ctx.count('gen_error:' + type(e).__name__)
                continue
            c.forced = (G.replace_at(doc, path, lambda d: S(bad)), ('scalar', path, path), None)
            ctx.count('directed_one_or_many')
            yield c


def directed_nested_duplicates(ctx):
    """a fixed grid: a key of a class mapping that is NOT the root (an item of a list, an attribute value, a
    dict value, two levels down) turned into a second occurrence of a sibling key"""
    yaml, yatiml = L.setup()
    rng = ctx.rng
    S = G.S
    P = lambda nm, t, **kw: dict(name=nm, type=t, **kw)   # noqa: E731
    ip = [P('name', ('str',)), P('age', ('int',)), P('nick', ('str',), default='x')]
    inner = dict(name='Inner', bases=[], registered=True, kind='plain', params=ip, all_params=ip,
                 extra=False, abstract=None, define_init=True)
    hp = [P('title', ('str',)), P('staff', ('seq', 'list', ('cls', 'Inner'))), P('boss', ('cls', 'Inner')),
          P('byname', ('map', 'dict', ('str',), ('cls', 'Inner')))]
    holder = dict(name='Holder', bases=[], registered=True, kind='plain', params=hp, all_params=hp,
                  extra=False, abstract=None, define_init=True)
    tp = [P('label', ('str',)), P('holders', ('seq', 'list', ('cls', 'Holder')))]
    top = dict(name='Top', bases=[], registered=True, kind='plain', params=tp, all_params=tp,
               extra=False, abstract=None, define_init=True)

    def person(n, a):
        return ('m', [(S('name'), S(n)), (S('age'), S(str(a))), (S('nick'), S('n' + n))], None)
    hdoc = ('m', [(S('title'), S('t')), (S('staff'), ('q', [person('a', 1), person('b', 2)], None)),
                  (S('boss'), person('c', 3)),
                  (S('byname'), ('m', [(S('k1'), person('d', 4)), (S('k2'), person('e', 5))], None))], None)
    tdoc = ('m', [(S('label'), S('l')), (S('holders'), ('q', [hdoc, hdoc], None))], None)
    inner_paths = [(1, 1, 0), (1, 1, 1), (2, 1), (3, 1, 0, 1), (3, 1, 1, 1)]
    grid = [(('cls', 'Holder'), hdoc, inner_paths),
            (('cls', 'Top'), tdoc, [(1, 1, 1) + q for q in inner_paths] + [(1, 1, 1)])]
    for t, doc, paths in grid:
        for mp in paths:
            m = G.get_at_path(doc, mp)
            for i, j in ((1, 0), (2, 1), (0, 2)):
                if max(i, j) >= len(m[1]):
                    continue
                try:
                    c = L.build_case(rng, yaml, yatiml, [inner, holder, top], t, doc, ('directed-nested-duplicate',))
                    L.run_case(c, yaml)
                except Exception as e:  # noqa
                    ctx.count('gen_error:' + type(e).__name__)
                    continue
                pairs = list(m[1])
                name = pairs[j][0][1]
                pairs[i] = (S(name), pairs[i][1])
                c.forced = (G.replace_at(doc, mp, lambda d: ('m', pairs, m[2])), ('dup', mp + (i, 0), mp), name)
                ctx.count('directed_nested_duplicates')
                yield c


def directed_nested_same_class(ctx):
    """a fixed grid: an object that contains objects of its own class (Group(Shape) with members:
    List[Shape], groups inside groups) and an unknown key / a wrong scalar at the outer, the middle and the
    innermost level - the constructor of the outer object finishes its checks after the inner ones ran"""
    yaml, yatiml = L.setup()
    rng = ctx.rng
    S = G.S
    P = lambda nm, t, **kw: dict(name=nm, type=t, **kw)   # noqa: E731

    def plain(name, bases, params):
        return dict(name=name, bases=bases, registered=True, kind='plain', params=params, all_params=params,
                    extra=False, abstract=None, define_init=True)
    shape = plain('Shape', [], [P('name', ('str',))])
    circle = plain('Circle', ['Shape'], [P('name', ('str',)), P('radius', ('float',))])
    group = plain('Group', ['Shape'], [P('name', ('str',)), P('members', ('seq', 'list', ('cls', 'Shape')))])

    def circ(n):
        return ('m', [(S('name'), S(n)), (S('radius'), S('1.5'))], None)

    def grp(n, ms):
        return ('m', [(S('name'), S(n)), (S('members'), ('q', ms, None))], None)
    doc = grp('outer', [circ('c0'), grp('middle', [grp('inner', [circ('c1')]), circ('c2')]), circ('c3')])
    mpaths = [(), (1, 1, 1), (1, 1, 1, 1, 1, 0), (1, 1, 0), (1, 1, 1, 1, 1, 0, 1, 1, 0)]
    for t in (('cls', 'Group'), ('cls', 'Shape')):
        for mp in mpaths:
            m = G.get_at_path(doc, mp)
            for i in (0, len(m[1])):
                try:
                    c = L.build_case(rng, yaml, yatiml, [shape, circle, group], t, doc, ('directed-nested-same-class',))
                    L.run_case(c, yaml)
                except Exception as e:  # noqa
                    ctx.count('gen_error:' + type(e).__name__)
                    continue
                pairs = list(m[1])
                pairs.insert(i, (S('bogus_key'), S('1')))
                c.forced = (G.replace_at(doc, mp, lambda d: ('m', pairs, m[2])), ('add', mp + (i, 0), mp), 'bogus_key')
                ctx.count('directed_nested_same_class')
                yield c


def explore(ctx):
    yaml, yatiml = L.setup()
    rng = ctx.rng
    cases = LC.CaseBuffer(ctx)
    # weak claim on arbitrary models: at least one position, all inside the document
    import itertools
    for c in itertools.chain(LC.gen_cases(ctx, ctx.budget(300, 6000), mutate_p=0.7, prop='C17'),
                             directed_hook_failures(ctx)):
        cases.append(c)
        if c.real_out[0] == 'rec':
            marks, names = G.parse_error(c.real_out[1])
            nlines = c.text.count('\n') + 1
            ctx.case(('weak', c.text, repr(c.doc_type)), nontrivial=True)
            closed = True
            if not marks:
                if 'is it registered' in c.real_out[1]:
                    closed = False
                else:
                    ctx.violation('a RecognitionError cites no position: ' + c.real_out[1][:200].replace('\n', ' / '),
                                  dict(L.describe(c), key='noposition:' + c.real_out[1][:40]))
            for (ln, col) in marks:
                if ln >= nlines and not (ln == 0):
                    ctx.violation('cited position line {} is outside the document ({} lines)'.format(ln + 1, nlines),
                                  dict(L.describe(c), key='outside'))
            del closed
    # strong claim: hierarchy-free models, block style, one corruption
    n = 0
    for c in itertools.chain(LC.gen_cases(ctx, ctx.budget(500, 10000), mutate_p=0.0, model_filter=hierarchy_free,
                                          alias_p=0), directed_one_or_many(ctx), directed_nested_duplicates(ctx),
                             directed_nested_same_class(ctx)):
        if c.doc is None or c.real_out[0] != 'ok':
            if getattr(c, 'forced', None):
                ctx.count('directed_base_not_ok')
            continue
        text = '\n'.join(block(c.doc)) + '\n'
        try:
            base = c.real.run(text)
        except Exception:  # noqa
            continue
        if base[0] != 'ok' or CM.val_sexp(base[1], c.model) != CM.val_sexp(c.real_out[1], c.model):
            ctx.count('block_render_differs')
            continue
        cor = getattr(c, 'forced', None) or corrupt(rng, c.spec, c.doc, c.doc_type)
        if cor is None:
            continue
        doc2, (kind, path, mpath), keyname = cor
        text2 = '\n'.join(block(doc2)) + '\n'
        c2 = L.Case()
        c2.spec, c2.doc_type, c2.doc, c2.desc = c.spec, c.doc_type, doc2, ('corrupt', kind)
        c2.model, c2.real, c2.text = c.model, c.real, text2
        try:
            L.run_case(c2, yaml)
        except Exception:  # noqa
            continue
        cases.append(c2)
        ctx.count('corruption:' + kind)
        if c2.real_out[0] != 'rec':
            ctx.count('corruption_not_fatal:' + kind + ':' + c2.real_out[0])
            ctx.case(('strong', text2, kind), nontrivial=False)
            continue
        n += 1
        ctx.case(('strong', text2, kind), nontrivial=True)
        marks, names = G.parse_error(c2.real_out[1])
        node = c2.node
        allowed = set()
        try:
            if path is not None:
                nd, key, enc = node_at(yaml, node, path)
                allowed.add(nd.start_mark.line)
                if key is not None:
                    allowed.add(key.start_mark.line)
                if enc is not None:
                    allowed.add(enc.start_mark.line)
            if mpath is not None:
                nd, key, enc = node_at(yaml, node, mpath)
                allowed.add(nd.start_mark.line)
                if isinstance(nd, yaml.ScalarNode) and enc is not None:
                    allowed.add(enc.start_mark.line)
        except Exception:  # noqa
            ctx.count('path_lookup_failed')
            continue
        if len(ctx.samples) < 4:
            ctx.sample(dict(text=text2, kind=kind, cited=[(a + 1, b + 1) for a, b in marks],
                            allowed_lines=sorted(x + 1 for x in allowed)))
        if not any(ln in allowed for ln, _ in marks):
            ctx.violation('{} corruption: the message cites lines {} but the offending place is on line(s) {}'.format(
                kind, sorted(set(a + 1 for a, _ in marks)), sorted(x + 1 for x in allowed)),
                dict(L.describe(c2), key='wrongline:' + kind, message=c2.real_out[1][:600]))
        if kind in ('misspell', 'add', 'drop') and keyname and keyname not in names \
                and keyname.replace('-', '_') not in names:
            # a misspelt key shows up either as the unknown key or as the missing original
            if not (kind == 'misspell' and any(nm for nm in names)):
                ctx.violation('{} corruption: the message does not name the key "{}"'.format(kind, keyname),
                              dict(L.describe(c2), key='keynotnamed:' + kind, message=c2.real_out[1][:600]))
    ctx.stats['strong_cases'] = n
    LC.correspond(ctx, cases)


def search(ctx, broken):
    explore(ctx)


def replay(ctx, rep):
    import json
    print(json.dumps(rep.get('case', rep), indent=1)[:3000])
    explore(ctx)
    return not ctx.violations
