"""C07 — JSON dumps are valid JSON with the same data under every formatting option."""
import datetime
import io
import itertools
import json
import math
import re
from collections import OrderedDict

from common import hexs, unhexs, use_repo

PROPERTY = 'C07'
LEAN_MODULES = ['YatimlModel.Props.C07', 'YatimlModel.Props.C07Parse', 'YatimlModel.Props.C07EndToEnd',
                'YatimlModel.Props.C07Ascii']
THEOREMS = ['YatimlModel.C07.' + t for t in [
    'C07_machine_refines_renderer', 'C07_emit_is_canonical_json', 'C07_same_data_all_indents',
    'C07_compact', 'C07_indent_shape', 'C07_alias_raises', 'C07_dumps_ascii',
    'C07_dumps_valid_string', 'C07_numbers_are_json', 'C07_string_token_denotes',
    'C07_rendered_text_parses', 'C07_emitted_text_is_json', 'C07_same_value_all_options',
    'C07_number_texts_wf', 'C07_non_ascii_unescaped', 'C07_unicode_mode_keeps_non_ascii',
    'C07_dumps_json_is_projection', 'C07_int_texts_are_numbers', 'C07_default_output_is_ascii']]
RULE = ('(a) every (top-of-stack state x event kind x indent x current indent) step of the real '
        'Dumper.emit_json against the model step (exhaustive over that finite domain); (b) every '
        'plain-data tree shape up to a node bound x indent in {None,0..8} x ensure_ascii, plus '
        'random trees with adversarial strings and values of fixed user classes: real dumps_json '
        'output vs the model machine run on the represented node tree, vs strict json.loads and the '
        'JSON projection, ASCII-only / no-whitespace / unescaped-non-ASCII / round-trip oracles; '
        '(c) json.dumps vs the model string encoder on adversarial strings; (d) the RFC 8259 reference '
        'parser the character-level theorems are stated against vs json.loads as a strict reader, on '
        'every text produced, mutations of them and hand-written edge cases.  Non-trivial = the tree '
        'has at least one container, or the step writes something.')
ASSUMPTIONS = [
    'PyYAML serializer emits Start/End events in tree order for a tree-shaped node (no aliases)',
    'Emitter.best_indent / best_line_break as computed by PyYAML (read from the live instance)',
    'json.dumps of a str returns an RFC 8259 string token (modelled in Model/JsonString, compared)',
]

STATES = ['NONE', 'SEQUENCE', 'SEQUENCE_FIRST', 'MAPPING_KEY', 'MAPPING_KEY_FIRST', 'MAPPING_VALUE']
CORE = 'tag:yaml.org,2002:'


def translate(ctx):
    return []


class Real:
    def __init__(self):
        use_repo()
        import yaml
        import yatiml
        from yatiml.dumper import JsonDumperState
        self.yaml = yaml
        self.yatiml = yatiml
        self.JS = JsonDumperState
        self.dumps_json = yatiml.dumps_json_function()
        self.dump_json = yatiml.dump_json_function()
        self.cls = self.dumps_json.dumper

    def instance(self, indent, ensure_ascii):
        stream = io.StringIO()
        inst = self.cls(stream, None, False, None, indent, None, not ensure_ascii, None, None,
                        None, None, None, None, False)
        return inst, stream

    def js(self, name):
        return getattr(self.JS, name)


def sk_of_tag(tag):
    if tag == CORE + 'str':
        return 'str'
    if tag == CORE + 'null':
        return 'null'
    if tag == CORE + 'bool':
        return 'bool'
    if tag == CORE + 'timestamp':
        return 'timestamp'
    return 'other'


def has_surrogate(s):
    return any(0xD800 <= ord(c) <= 0xDFFF for c in s)


def node_to_sexp(yaml, node):
    if isinstance(node, yaml.ScalarNode):
        return '( s {} {} )'.format(sk_of_tag(node.tag), hexs(node.value))
    if isinstance(node, yaml.SequenceNode):
        return '( a {} )'.format(' '.join(node_to_sexp(yaml, n) for n in node.value))
    return '( o {} )'.format(' '.join(
        node_to_sexp(yaml, k) + ' ' + node_to_sexp(yaml, v) for k, v in node.value))


# ---- step level -------------------------------------------------------------

def step_events(yaml):
    E = yaml.events
    evs = [('seqStart', lambda: E.SequenceStartEvent(None, None, True)),
           ('seqEnd', lambda: E.SequenceEndEvent()),
           ('mapStart', lambda: E.MappingStartEvent(None, None, True)),
           ('mapEnd', lambda: E.MappingEndEvent()),
           ('docEnd', lambda: E.DocumentEndEvent()),
           ('other', lambda: E.StreamStartEvent()),
           ('other', lambda: E.DocumentStartEvent()),
           ('other', lambda: E.StreamEndEvent()),
           ('alias', lambda: E.AliasEvent('a'))]
    for tag, val in [('str', 'a"b'), ('str', 'é'), ('null', 'null'), ('bool', 'true'),
                     ('bool', 'False'), ('timestamp', '2001-01-01'), ('int', '12'),
                     ('float', '1.5'), ('binary', 'aGk=')]:
        evs.append(('scalar {} {}'.format(sk_of_tag(CORE + tag), hexs(val)),
                    (lambda t=tag, v=val: E.ScalarEvent(None, CORE + t, (True, False), v))))
    return evs


def explore_steps(ctx, real):
    yaml = real.yaml
    reqs = []
    reals = []
    for indent in [None, 0, 1, 2, 4, 9, 10]:
        for ea in [True, False]:
            for top in range(6):
                for below in [[0], [1, 0], [5, 3, 0]]:
                    for cur in [0, 4, 6]:
                        for name, mk in step_events(yaml):
                            inst, stream = real.instance(indent, ea)
                            stack_top_first = [top] + below
                            inst._json_state = [real.js(STATES[i]) for i in reversed(stack_top_first)]
                            inst._cur_indent = cur
                            try:
                                inst.emit_json(mk())
                                new = [STATES.index(s.name) for s in reversed(inst._json_state)]
                                res = 'ok [{}] {} {}'.format(', '.join(map(str, new)),
                                                             inst._cur_indent, hexs(stream.getvalue()))
                            except RuntimeError:
                                res = 'raise'
                            except Exception as e:  # noqa
                                res = 'raise:' + type(e).__name__
                            reqs.append('jstep {} {} {} {} ( {} ) {}'.format(
                                0 if indent is None else 1, inst.best_indent, 1 if ea else 0, cur,
                                ' '.join(map(str, stack_top_first)), name))
                            reals.append(res)
    answers = ctx.driver(reqs)
    for q, a, r in zip(reqs, answers, reals):
        ctx.case(q, nontrivial=not r.endswith(' -'))
        ctx.count('correspondence_cases')
        ctx.count('steps')
        # the model's Nat subtraction truncates at 0 where Python goes negative: only compare
        # steps that cannot underflow (cur >= best on End events), the others are unreachable
        if a != r:
            parts = q.split()
            best, cur = int(parts[2]), int(parts[4])
            if parts[-1] in ('seqEnd', 'mapEnd') and cur < best:
                ctx.count('steps_unreachable_underflow')
                continue
            ctx.disagree('emit_json step differs: {} -> real {!r}, model {!r}'.format(q, r, a),
                         dict(request=q, real=r, model=a))
    ctx.sample(dict(step=reqs[100], real=reals[100], model=answers[100]))


# ---- tree level ---------------------------------------------------------------

def shapes(n):
    """all plain-data tree shapes with exactly n nodes: leaf 'x', list, dict (values only)."""
    if n == 1:
        yield 'x'
        yield []
        yield {}
        return
    for parts in partitions(n - 1):
        for kids in itertools.product(*[list(shapes(p)) for p in parts]):
            yield list(kids)
            yield {'k%d' % i: k for i, k in enumerate(kids)}


def partitions(n):
    if n == 0:
        yield []
        return
    for first in range(1, n + 1):
        for rest in partitions(n - first):
            yield [first] + rest


LEAVES = [0, -7, 12345678901234567890, 1.5, -0.0, 1e22, 1.5e-7, 1e16, True, False, None, 'a', '',
          'é', '"q"', 'back\\slash', 'line\nbreak', '\x00\x1f\x7f', '\U0001F600', 'true', '1.5',
          'null', '{', '[1]', ': ', ' lead', datetime.date(2001, 2, 3),
          datetime.datetime(2001, 2, 3, 4, 5, 6), ' ', '﻿', 'tab\t']


def fill(shape, it):
    if shape == 'x':
        leaf = next(it)
        # the value must be tree-shaped: PyYAML anchors a date object that occurs twice
        if isinstance(leaf, datetime.datetime):
            return leaf.replace()
        if isinstance(leaf, datetime.date):
            return leaf.replace()
        return leaf
    if isinstance(shape, list):
        return [fill(s, it) for s in shape]
    return OrderedDict((k, fill(v, it)) for k, v in shape.items())


def projection(v):
    if isinstance(v, dict):
        return {str(k): projection(x) for k, x in v.items()}
    if isinstance(v, list):
        return [projection(x) for x in v]
    if isinstance(v, datetime.datetime):
        return v.isoformat(' ')     # ISO 8601 with the space separator (RFC 3339 5.6 NOTE)
    if isinstance(v, datetime.date):
        return v.isoformat()
    return v


def strict_loads(text):
    def bad(c):
        raise ValueError('non-finite constant ' + c)
    return json.loads(text, parse_constant=bad, object_pairs_hook=OrderedDict)


def same_json(a, b):
    if isinstance(a, dict) and isinstance(b, dict):
        return list(a.keys()) == list(b.keys()) and all(same_json(a[k], b[k]) for k in a)
    if isinstance(a, list) and isinstance(b, list):
        return len(a) == len(b) and all(same_json(x, y) for x, y in zip(a, b))
    if isinstance(a, bool) or isinstance(b, bool):
        return a is b
    if isinstance(a, float) and isinstance(b, float):
        return a == b and math.copysign(1, a) == math.copysign(1, b)
    if isinstance(a, float) or isinstance(b, float):
        return False
    return type(a) is type(b) and a == b


STRING_RE = re.compile(r'"(?:[^"\\]|\\.)*"')


def printable_bmp(v):
    if isinstance(v, str):
        return all(c.isprintable() and ord(c) < 0x10000 for c in v)
    if isinstance(v, dict):
        return all(printable_bmp(k) and printable_bmp(x) for k, x in v.items())
    if isinstance(v, list):
        return all(printable_bmp(x) for x in v)
    return True


def all_strings(v):
    if isinstance(v, str):
        yield v
    elif isinstance(v, dict):
        for k, x in v.items():
            yield k
            yield from all_strings(x)
    elif isinstance(v, list):
        for x in v:
            yield from all_strings(x)


def contains_date(v):
    if isinstance(v, (datetime.date, datetime.datetime)):
        return True
    if isinstance(v, dict):
        return any(contains_date(x) for x in v.values())
    if isinstance(v, list):
        return any(contains_date(x) for x in v)
    return False


def check_value(ctx, real, value, indents, loader=None, dumps=None, label='plain'):
    yaml = real.yaml
    dumps = dumps or real.dumps_json
    reqs = []
    outs = []
    for indent in indents:
        for ea in (True, False):
            try:
                text = dumps(value, indent=indent, ensure_ascii=ea)
            except Exception as e:  # noqa
                ctx.violation('dumps_json raised {}: {}'.format(type(e).__name__, e),
                              dict(key='raise:' + repr(value)[:80], value=repr(value), indent=indent,
                                   ensure_ascii=ea))
                return
            outs.append((indent, ea, text))
            if len(getattr(ctx, 'json_texts', ())) < 4000:
                ctx.__dict__.setdefault('json_texts', []).append(text)
            inst, _ = (dumps.dumper(io.StringIO(), None, False, None, indent, None, not ea, None,
                                    None, None, None, None, None, False), None)
            node = inst.represent_data(value)
            if not any(has_surrogate(s) for s in all_strings(value)):
                reqs.append('jtree {} {} {} {}'.format(0 if indent is None else 1, inst.best_indent,
                                                       1 if ea else 0, node_to_sexp(yaml, node)))
            else:
                reqs.append(None)
    live = [r for r in reqs if r is not None]
    answers = iter(ctx.driver(live)) if live else iter([])
    proj = projection(value)
    nontrivial = isinstance(value, (dict, list)) or label != 'plain'
    if ctx.rng.random() < 0.25 and label == 'plain':
        # dump_json to an open text stream writes exactly what dumps_json returns (also C12)
        indent, ea, text = ctx.rng.choice(outs)
        sink = io.StringIO()
        try:
            real.dump_json(value, sink, indent=indent, ensure_ascii=ea)
            got = sink.getvalue()
        except Exception as e:  # noqa
            got = 'raised {}: {}'.format(type(e).__name__, e)
        ctx.count('dump_json_stream')
        if got != text:
            ctx.violation('dump_json to a stream writes something else than dumps_json returns',
                          dict(key='dumpjson-stream:{}:{}'.format(indent, ea), value=repr(value)[:300],
                               indent=indent, ensure_ascii=ea, dumps=text[:300], dump=got[:300]))
    if ctx.rng.random() < 0.05:
        # an aborted dump (a value that is not tree-shaped) must not disturb later ones
        shared = [1, 2]
        try:
            dumps({'a': shared, 'b': shared})
            ctx.count('alias_dump_did_not_raise')
        except RuntimeError:
            ctx.count('aborted_dumps')
        except Exception as e:  # noqa
            ctx.count('aborted_dumps_other:' + type(e).__name__)
    for (indent, ea, text), req in zip(outs, reqs):
        ctx.case((label, repr(value)[:200], indent, ea), nontrivial)
        ctx.count('trees')
        desc = dict(value=repr(value)[:300], indent=indent, ensure_ascii=ea, text=text[:300])
        if req is not None:
            ans = next(answers)
            ctx.count('correspondence_cases')
            ok = ans.startswith('ok ')
            mtext = unhexs(ans.split()[1]) if ok else None
            if not ok or mtext != text or not ans.endswith('[0] 0 true'):
                ctx.disagree('model machine output differs from dumps_json', dict(desc, model=ans[:300]))
        # ---- the property, on the real output ----
        key = 'json:{}:{}:{}'.format(repr(value)[:60], indent, ea)
        try:
            back = strict_loads(text)
        except Exception as e:  # noqa
            ctx.violation('output is not strict JSON: {}'.format(e), dict(desc, key=key))
            continue
        if not same_json(back, json.loads(json.dumps(proj)) if False else proj_norm(proj)):
            ctx.violation('JSON content differs from the projection', dict(desc, key=key, parsed=repr(back)[:300]))
            continue
        if ea and not text.isascii():
            ctx.violation('ensure_ascii output is not ASCII', dict(desc, key=key))
        if indent is None:
            outside = STRING_RE.sub('""', text)
            if any(c.isspace() for c in outside):
                ctx.violation('whitespace outside strings in compact output', dict(desc, key=key))
        if not ea:
            for s in all_strings(value):
                for c in s:
                    if ord(c) > 127 and c not in text and not (0xD800 <= ord(c) <= 0xDFFF):
                        ctx.violation('non-ASCII character escaped with ensure_ascii=False',
                                      dict(desc, key=key))
                        break
        if loader is not None and printable_bmp(value):
            ctx.count('roundtrips')
            try:
                again = loader(text)
                okrt = again == value and type(again) is type(value)
            except Exception as e:  # noqa
                again, okrt = '{}: {}'.format(type(e).__name__, e), False
            if not okrt:
                ctx.violation('loading the JSON text back does not give an equal object',
                              dict(desc, key='rt:' + key, loaded=repr(again)[:300]))


def proj_norm(p):
    if isinstance(p, dict):
        return OrderedDict((k, proj_norm(v)) for k, v in p.items())
    if isinstance(p, list):
        return [proj_norm(v) for v in p]
    return p


def explore_trees(ctx, real):
    rng = ctx.rng
    any_loader = real.yatiml.load_function()
    bound = ctx.budget(4, 6)
    all_indents = [None] + list(range(0, 9))
    n = 0
    for size in range(1, bound + 1):
        for shape in shapes(size):
            leaves = itertools.cycle(rng.sample(LEAVES, len(LEAVES)))
            value = fill(shape, leaves)
            indents = all_indents if size <= 3 else [None, rng.choice(all_indents[1:])]
            # dates load back as dates only when typed; Any loads the ISO string as a date too,
            # floats like 1e22 are written as 1e+22 which YAML 1.2 does not read as float -> no
            # round trip claim for Any; the round trip oracle runs on typed fixed classes below
            check_value(ctx, real, value, indents, loader=None)
            n += 1
    ctx.stats['tree_shapes_exhaustive_up_to_nodes'] = bound
    ctx.stats['tree_shapes'] = n
    for _ in range(ctx.budget(150, 3000)):
        size = rng.randint(1, 12)
        shape = rng.choice(list(itertools.islice(shapes(min(size, 5)), 200)))
        value = fill(shape, iter(lambda: rng.choice(LEAVES), object()))
        check_value(ctx, real, value, [rng.choice(all_indents), None])
    # round trip with a typed loader on JSON-safe plain data
    from typing import Dict, List, Union
    T = Dict[str, List[Union[str, int, bool, None]]]
    typed = real.yatiml.load_function(T)
    for _ in range(ctx.budget(60, 800)):
        value = OrderedDict()
        for i in range(rng.randint(0, 4)):
            value[rng.choice(['a', 'k é', '"', 'x\\y', 'true', '1', 'ключ'])+str(i)] = [
                rng.choice([0, -5, 10**20, True, False, None, 'a', 'é', '"q"', 'b\\s', 'true', '1.5',
                            'null', '{', ': ', 'ü ñ', '~', '2001-01-01', '0x10', '1e5'])
                for _ in range(rng.randint(0, 3))]
        check_value(ctx, real, dict(value), [rng.choice(all_indents), None], loader=typed,
                    label='typed')
    fixed_classes(ctx, real)


def fixed_classes(ctx, real):
    """values of a small fixed class model (enum, string-like, Path, nesting, extras), once
    without and once with a date attribute."""
    import enum
    import pathlib
    from collections import UserString
    from typing import Dict, List, Optional
    yatiml = real.yatiml

    class Color(enum.Enum):
        red = 1
        green = 2

    class Unit(str, enum.Enum):
        metre = 'm'
        second = 's'

    class Name(UserString):
        pass

    class Inner:
        def __init__(self, n: int, c: Color, f: float, u: Unit = Unit.metre) -> None:
            self.n, self.c, self.f, self.u = n, c, f, u

        def __eq__(self, o):
            return type(o) is Inner and (self.n, self.c, self.f, self.u) == (o.n, o.c, o.f, o.u)

    class Dated:
        def __init__(self, n: int, when: datetime.date) -> None:
            self.n, self.when = n, when

        def __eq__(self, o):
            return type(o) is Dated and (self.n, self.when) == (o.n, o.when)

    class Outer:
        def __init__(self, name: Name, items: List[Inner], p: pathlib.Path,
                     opt: Optional[str] = None, m: Optional[Dict[str, float]] = None,
                     dated: Optional[Dated] = None,
                     _yatiml_extra: Optional[OrderedDict] = None) -> None:
            self.name, self.items, self.p, self.opt, self.m = name, items, p, opt, m
            self.dated = dated
            self._yatiml_extra = _yatiml_extra if _yatiml_extra is not None else OrderedDict()

        def __eq__(self, o):
            return type(o) is Outer and vars(self) == vars(o)

    dumps = yatiml.dumps_json_function(Outer, Inner, Dated, Color, Unit, Name)
    load = yatiml.load_function(Outer, Inner, Dated, Color, Unit, Name)
    rng = ctx.rng
    for i in range(ctx.budget(40, 600)):
        items = [Inner(rng.randint(-5, 5), rng.choice(list(Color)), rng.choice([1.5, -0.25, 3.0, 1e-3]),
                       rng.choice(list(Unit)))
                 for _ in range(rng.randint(0, 3))]
        m = None if rng.random() < 0.5 else {rng.choice(['a', 'b', 'é']): rng.choice([1.5, -2.25, 0.1])
                                               for _ in range(rng.randint(0, 2))}
        extra = OrderedDict((k, rng.choice([1, 'x', [1, 2], {'y': None}]))
                            for k in rng.sample(['e1', 'e2', 'z é'], rng.randint(0, 2)))
        dated = None
        if rng.random() < 0.3:
            dated = Dated(i, datetime.date(2000 + rng.randint(0, 30), rng.randint(1, 12),
                                          rng.randint(1, 28)))
        v = Outer(Name(rng.choice(['n', 'é ü', 'q"uote', 'x y'])), items,
                  pathlib.Path(rng.choice(['/tmp/x', 'rel/p', 'a b', 'run/../shared/data.csv', '/data/cur/../in.txt',
                                           './x', 'a//b'])),
                  rng.choice([None, 's', 'true', 'ünï']), m, dated, extra)
        ctx.count('class_values')
        for indent in (None, rng.choice(range(0, 9))):
            for ea in (True, False):
                text = dumps(v, indent=indent, ensure_ascii=ea)
                ctx.case(('class', i, indent, ea))
                try:
                    parsed = strict_loads(text)
                except Exception as e:  # noqa
                    ctx.violation('class value: output is not strict JSON: {}'.format(e),
                                  dict(key='classjson', text=text[:300]))
                    continue
                want_items = [OrderedDict([('n', it.n), ('c', it.c.name), ('f', it.f), ('u', it.u.name)])
                              for it in items]
                if parsed.get('items') != want_items or parsed.get('name') != str(v.name) \
                        or parsed.get('p') != str(v.p):
                    ctx.violation('class value: JSON content differs from the projection (enum members '
                                  'by name, string-likes and paths by str())',
                                  dict(key='classproj', text=text[:400]))
                    continue
                if ea and not text.isascii():
                    ctx.violation('ensure_ascii output is not ASCII', dict(key='classascii', text=text[:300]))
                try:
                    again = load(text)
                    ok = again == v
                except Exception as e:  # noqa
                    again, ok = repr(e), False
                ctx.count('roundtrips')
                if not ok:
                    key = 'json-roundtrip-date' if dated is not None else 'classrt:' + text[:80]
                    ctx.violation('class value does not round-trip through JSON',
                                  dict(key=key, text=text[:300], loaded=repr(again)[:200]))


def explore_strings(ctx, real):
    rng = ctx.rng
    pool = ['', 'a', '"', '\\', '/', '\b\f\n\r\t', '\x00', '\x1f', '\x7f', '\x80', 'é', ' ',
            '﻿', '￿', '\U00010000', '\U0001F600', '\U0010FFFF', '\ud800', '\udfff',
            '\ud83d', '\ude00', 'a😀b', '\\u0041', '"\\"']
    strings = list(pool)
    for _ in range(ctx.budget(800, 20000)):
        strings.append(''.join(rng.choice(pool) if rng.random() < 0.7 else chr(rng.randrange(0, 0x11000))
                               for _ in range(rng.randint(1, 6))))
    reqs = []
    for s in strings:
        for ea in (1, 0):
            reqs.append('jstr {} {}'.format(ea, hexs(s)))
    answers = ctx.driver(reqs)
    i = 0
    for s in strings:
        for ea in (True, False):
            ans = answers[i]
            i += 1
            want = json.dumps(s, ensure_ascii=ea)
            codes, valid = ans.rsplit(' ', 1)
            got = ''.join(chr(int(x)) for x in codes.strip('[]').split(',') if x.strip())
            ctx.case(('str', s, ea), nontrivial=any(ord(c) < 32 or ord(c) > 126 or c in '"\\' for c in s))
            ctx.count('correspondence_cases')
            ctx.count('strings')
            if got != want or valid != 'true':
                ctx.disagree('json.dumps differs from the model encoder',
                             dict(string=repr(s), ensure_ascii=ea, real=repr(want), model=repr(got),
                                  valid=valid))


def lean_list(codes):
    return '[' + ', '.join(str(c) for c in codes) + ']'


def show_json(v):
    """Canonical one-line form of a parsed JSON value; the same format as `showJV` in the driver."""
    if v is None:
        return 'n'
    if v is True:
        return 't'
    if v is False:
        return 'f'
    if isinstance(v, str):
        return 's' + lean_list([ord(c) for c in v])
    if isinstance(v, list):
        return '[' + ''.join(show_json(x) + ';' for x in v) + ']'
    if isinstance(v, tuple) and v[0] == '#':
        return '#' + lean_list([ord(c) for c in v[1]])
    if isinstance(v, tuple) and v[0] == '{':
        return '{' + ''.join(show_json(k) + ':' + show_json(x) + ';' for k, x in v[1]) + '}'
    raise TypeError(v)


def python_reading(text):
    """CPython's json.loads as an RFC 8259 reader: constants refused, numbers kept as their text,
    members kept as an ordered list of pairs."""
    def bad(c):
        raise ValueError('non-finite constant ' + c)
    try:
        v = json.loads(text, parse_constant=bad, parse_float=lambda t: ('#', t),
                       parse_int=lambda t: ('#', t), object_pairs_hook=lambda ps: ('{', ps))
    except RecursionError:
        return None
    except ValueError:
        return 'reject'
    return 'ok ' + show_json(v)


JSON_ALPHABET = list('[]{},:"\\ \n\t\rtruefalsn0123456789.-+eEu/') + ['\x01', '\x7f', '\xe9', '\u2028',
                                                                 '\U0001f600', '\ud83d', '\ude00']


def mutate_text(rng, text):
    cs = list(text)
    for _ in range(rng.choice((1, 1, 1, 2, 3))):
        kind = rng.randrange(5)
        i = rng.randrange(len(cs) + 1)
        if kind == 0 and cs:
            del cs[min(i, len(cs) - 1)]
        elif kind == 1:
            cs.insert(i, rng.choice(JSON_ALPHABET))
        elif kind == 2 and cs:
            j = min(i, len(cs) - 1)
            cs.insert(j, cs[j])
        elif kind == 3 and len(cs) > 1:
            j = min(i, len(cs) - 2)
            cs[j], cs[j + 1] = cs[j + 1], cs[j]
        elif cs:
            cs[min(i, len(cs) - 1)] = rng.choice(JSON_ALPHABET)
    return ''.join(cs)


HANDWRITTEN_JSON = [
    '', ' ', 'null', ' true ', 'fals', 'nul', 'True', '[]', '[ ]', '{}', '{ }', '[1,]', '[,1]', '[1 2]', '{"a":1,}',
    '{"a" 1}', '{a:1}', "{'a':1}", '{"a":1 "b":2}', '{"a":1,"a":2}', '[01]', '[-01]', '[1.]', '[.5]', '[1e]', '[1e+]',
    '[1E+05]', '[-0]', '[-0.0e-0]', '-', '+1', '[1-2]', '1e5x', '0x10', 'NaN', 'Infinity', '-Infinity', '[1true]',
    '"\\u12"', '"\\u123g"', '"\\uD83D\\uDE00"', '"\\ud83d"', '"\\ud83dx"', '"\\ud83d\\u0041"', '"\\ude00\\ud83d"',
    '"\\ud83d\\ud83d\\ude00"', '"\\x41"', '"\\a"', '"\\/"', '"\t"', '"\x7f"', '"a\nb"', '"unterminated', '"a"b"',
    '[[[[[[[[[[[[]]]]]]]]]]]]', '[[]', '[]]', '{"a":{"b":{"c":[{}]}}}', '\ufeff[]', '[]\ufeff', '\u00a0[]', '[\u2028]',
    '[1,\n2,\r\n3\t, 4 ]', '{"k"\n:\n"v"}', '1 2', '"a" "b"', '[1],', '123456789012345678901234567890.5e-400',
]


def explore_parser(ctx, real):
    """The RFC 8259 reference parser of Spec/JsonParse (the specification C07's character-level theorems
    are stated against) vs CPython's json.loads used as a strict reader: on every text dumps_json
    produced in this run, on mutations of those texts, and on a hand-written list of edge cases."""
    texts = list(HANDWRITTEN_JSON)
    produced = list(getattr(ctx, 'json_texts', []))
    ctx.rng.shuffle(produced)
    n = ctx.budget(600, 4000)
    produced = produced[:n]
    texts += produced
    for t in produced:
        for _ in range(2):
            texts.append(mutate_text(ctx.rng, t))
    readings = [python_reading(t) for t in texts]
    pairs = [(t, r) for t, r in zip(texts, readings) if r is not None]
    answers = ctx.driver(['jparse ' + hexs(t) for t, _ in pairs])
    for (t, want), got in zip(pairs, answers):
        ctx.count('parser_cases')
        ctx.count('parser_' + ('accept' if want.startswith('ok') else 'reject'))
        if got != want:
            ctx.disagree('the RFC 8259 reference parser (Spec/JsonParse) and json.loads read a text differently',
                         dict(text=t[:300], reference=got[:300], python=want[:300]))


def explore_projection(ctx, real):
    """C07_dumps_json_is_projection on the real code: for generated class models without sweeten hooks
    and values of their types, the text the real dumps_json writes - read by json.loads as a strict
    RFC 8259 reader - is the JSON projection `jsonOf` of the value as the Lean specification computes it
    (driver command `jproject`).  Ties the specification of the projection to what yatiml writes."""
    import classmodel as CM
    import dumprun as D
    import loadgen as G
    rng = ctx.rng
    yaml, yatiml = real.yaml, real.yatiml
    reqs, wants, descs = [], [], []
    target = ctx.budget(250, 4000)
    made = attempts = 0
    while made < target and attempts < target * 6:
        attempts += 1
        spec, cands = G.gen_model(rng)
        if any(c.get('sweeten') for c in spec):
            continue
        try:
            model = CM.Model(spec)
            t = rng.choice(cands)
            v = D.gen_value(rng, model, t)
            wire = D.dump_val_sexp(v, model)
            dj = yatiml.dumps_json_function(*model.registered)
        except (D.GenFail, G.GenFail):
            continue
        except Exception as e:  # noqa
            ctx.count('projection_gen_error:' + type(e).__name__)
            continue
        indent = rng.choice([None, None, 0, 1, 2, 4, 7])
        ea = rng.random() < 0.5
        try:
            text = dj(v, indent=indent, ensure_ascii=ea)
        except Exception as e:  # noqa  (shared sub-objects: aliases; C07 is about tree-shaped values)
            ctx.count('projection_dump_raises:' + type(e).__name__)
            continue
        got = python_reading(text)
        if got is None:
            continue
        made += 1
        reqs.append('jproject ' + wire)
        wants.append(got)
        descs.append(dict(classes=model.source[-2500:], value=repr(v)[:600], text=text[:3000], indent=indent,
                          ensure_ascii=ea, nonfinite=any(x in text for x in ('NaN', 'Infinity', '.nan', '.inf'))))
    answers = ctx.driver(reqs) if reqs else []
    for ans, want, desc in zip(answers, wants, descs):
        ctx.count('projection_cases')
        if ans == 'outside':
            # bytes, keys that are not strings, ...: outside C07's domain
            ctx.count('projection_outside_domain')
            continue
        if desc.pop('nonfinite'):
            ctx.count('projection_nonfinite_float')
            continue
        ctx.case(('projection', desc['value'], desc['indent'], desc['ensure_ascii']), nontrivial=True)
        if want == 'reject':
            ctx.violation('dumps_json output is not RFC 8259 JSON', dict(desc, key='projection-invalid:' + desc['value'][:60]))
        elif ans != want:
            ctx.violation('dumps_json output does not denote the JSON projection of the value',
                          dict(desc, key='projection:' + desc['value'][:60], projection=ans[:400], parsed=want[:400]))


def explore(ctx):
    real = Real()
    explore_steps(ctx, real)
    explore_strings(ctx, real)
    explore_trees(ctx, real)
    sweetened_scalars(ctx, real.yaml, real.yatiml)
    explore_projection(ctx, real)
    explore_parser(ctx, real)


def sweetened_scalars(ctx, yaml, yatiml):
    """scalar nodes that a `_yatiml_sweeten` hook wrote itself (set_attribute / set_value with None, a bool,
    an int, a float, a str): what is written depends on the node's tag, whatever its text"""
    import json

    class Quota:
        def __init__(self, user: str, limit: int, ratio: float = 0.5, on: bool = True) -> None:
            self.user, self.limit, self.ratio, self.on = user, limit, ratio, on

        @classmethod
        def _yatiml_sweeten(cls, node):
            if node.get_attribute('limit').get_value() == -1:
                node.set_attribute('limit', None)           # "no limit" is written as null
            node.set_attribute('checked', True)
            node.set_attribute('count', 3)
            node.set_attribute('factor', 2.5)
            node.set_attribute('note', 'n/a')
            node.set_attribute('nothing', None)

    class Marker:
        def __init__(self, tag: str) -> None:
            self.tag = tag

        @classmethod
        def _yatiml_sweeten(cls, node):
            node.set_value(None)
    dumps = yatiml.dumps_json_function(Quota, Marker)
    want_q = lambda q: {'user': q.user, 'limit': None if q.limit == -1 else q.limit, 'ratio': q.ratio, 'on': q.on,  # noqa: E731
                        'checked': True, 'count': 3, 'factor': 2.5, 'note': 'n/a', 'nothing': None}
    for v, want in ((Quota('bob', -1), None), (Quota('al', 5, 1.5, False), None), ([Quota('x', -1), Marker('m')], None),
                    ({'k': Marker('m')}, {'k': None})):
        for indent in (None, 0, 2):
            try:
                text = dumps(v, indent=indent)
                data = json.loads(text)
                res = 'ok'
            except Exception as e:  # noqa
                text, data, res = locals().get('text', ''), None, type(e).__name__
            ctx.case(('sweetened-scalars', repr(type(v)), indent), nontrivial=True)
            ctx.count('sweetened_scalars')
            exp = want
            if exp is None:
                exp = want_q(v) if isinstance(v, Quota) else [want_q(v[0]), None]
            if res != 'ok' or data != exp:
                ctx.violation('a null / scalar written by _yatiml_sweeten: the JSON is {!r} ({}), the data should be {!r}'.format(
                    str(text)[:120], res, exp)[:400], dict(key='sweetened-scalar:' + res, text=str(text)[:300]))
                break


def search(ctx, broken):
    real = Real()
    explore_trees(ctx, real)


def replay(ctx, rep):
    print(json.dumps(rep.get('case', rep), indent=1)[:2000])
    print('replay for C07 re-runs the exploration (cases are regenerated from the seed)')
    real = Real()
    explore_trees(ctx, real)
    return not ctx.violations
