"""C18 — anchors and aliases are transparent."""
from props import loadcommon as LC
from props import c13
import classmodel as CM
import loadgen as G
import loadrun as L

PROPERTY = 'C18'
LEAN_MODULES = ['YatimlModel.Props.C18', 'YatimlModel.Props.C18Cycle', 'YatimlModel.Spec.AliasShape']
THEOREMS = ['YatimlModel.C18.' + t for t in [
    'expand_ofNode', 'C18_transparent', 'alias_to_open_is_cycle', 'C18_cycle_rejected',
    'cycle_only_if_selfRef', 'selfRef_never_expands', 'C18_cycle_only_for_selfRef',
    'C18_selfRef_never_loads', 'expand_scoped', 'C18_cycle_iff_selfRef']]
RULE = ('generated (class model, valid or invalid document) pairs; a sub-node is anchored and another '
        'node (a value, an item or a key, at a position of the same or of a different declared type) is '
        'replaced by an alias to it; the real load of the aliased text is compared with the real load of '
        'the text in which the alias is written out as a copy (equal value or both fail), and with the '
        'Lean model run on the composer\'s node graph; self-referential aliases must raise an error '
        '(never RecursionError).  Non-trivial = the aliased text really shares a non-scalar or retyped '
        'node.'
        ' Also: empty strings / collections anchored at one declared type and reused at another'
        ' (incl. a hook that fills in an attribute in place), every such case compared with its'
        ' written-out copy; cycles through merge keys in untyped regions.')
ASSUMPTIONS = ['the composer represents an alias as a second reference to the anchored node object']


def translate(ctx):
    return []


def kind_of(d):
    if d[0] != 's':
        return d[0]
    t = d[1]
    if d[2]:
        return 'str'
    import re
    if re.fullmatch(r'[-+]?[0-9_]+|0x[0-9A-Fa-f]+', t):
        return 'int'
    if re.fullmatch(r'[-+]?(\.[0-9]+|[0-9]+\.[0-9]*)([eE][-+]?[0-9]+)?|[-+]?\.(inf|nan)', t):
        return 'float'
    if t in ('true', 'false', 'True', 'FALSE'):
        return 'bool'
    if t in ('null', '~', '', 'Null'):
        return 'null'
    if re.fullmatch(r'[0-9]{4}-[0-9]{2}-[0-9]{2}.*', t):
        return 'date'
    return 'str'


def not_nested(p, q):
    return not (len(q) >= len(p) and q[:len(p)] == p) and not (len(p) >= len(q) and p[:len(q)] == q)


def graph_shape(yaml, root):
    """independent of the model: does some node of the composer's graph contain itself (walk with the
    stack of enclosing node objects), and is every shared node first met outside its own sub-graph or
    inside it (always true of a graph; kept as the composer-output assumption of C18_cycle_iff_selfRef)"""
    cyclic = [False]
    done = set()

    def walk(n, above):
        if any(n is a for a in above):
            cyclic[0] = True
            return
        if id(n) in done:
            return
        kids = []
        if isinstance(n, yaml.SequenceNode):
            kids = list(n.value)
        elif isinstance(n, yaml.MappingNode):
            kids = [x for kv in n.value for x in kv]
        for x in kids:
            walk(x, above + (n,))
        done.add(id(n))
    walk(root, ())
    return cyclic[0]


class ShapeBuffer(LC.CaseBuffer):
    """also keeps, per case with a composed graph, the request `docshape` and the graph's own verdict"""
    def __init__(self, ctx, yaml):
        LC.CaseBuffer.__init__(self, ctx)
        self.yaml, self.shapes = yaml, []

    def append(self, c):
        if getattr(c, 'node', None) is not None:
            try:
                import nodes as N
                self.shapes.append(('docshape ' + N.doc_sexp(self.yaml, c.node), graph_shape(self.yaml, c.node),
                                    c.text, c.real_out[0]))
            except RecursionError:
                pass
        LC.CaseBuffer.append(self, c)


def check_shapes(ctx, shapes):
    """the model's syntactic predicates against the real composer's graph: selfRef = "some node contains
    itself", every composed document is well-scoped, expansion gives a cycle error iff selfRef (the
    statement of C18_cycle_iff_selfRef, here evaluated), and a cyclic graph never loads"""
    if not shapes:
        return
    answers = ctx.driver([s[0] for s in shapes])
    for (req, cyclic, text, real), a in zip(shapes, answers):
        ctx.count('docshape_cases')
        want = 'selfref={} scoped=1 expand={}'.format(int(cyclic), 'cycle' if cyclic else 'tree')
        if cyclic:
            ctx.count('docshape_cyclic')
        if a != want:
            ctx.disagree('docshape: model says {!r}, the composer graph says {!r}'.format(a, want),
                             dict(text=text[:400], request=req[:600]))
        if cyclic and real == 'ok':
            ctx.violation('a document whose graph contains itself loads', dict(text=text[:400], key='cyclic-loads'))


def explore(ctx):
    yaml, yatiml = L.setup()
    rng = ctx.rng
    cases = ShapeBuffer(ctx, yaml)
    for c in LC.gen_cases(ctx, ctx.budget(400, 9000), mutate_p=0.25, prop='C18'):
        if c.doc is None:
            # corpus texts already contain aliases: compare with the model only
            cases.append(c)
            if c.real_out[0] == 'other':
                ctx.violation('load raises {} for {!r}'.format(c.real_out[1][:100], c.text),
                              dict(L.describe(c), key='alias-escape:' + c.text[:60]))
            ctx.case(('corpus', c.text), nontrivial=True)
            continue
        ps = G.all_paths(c.doc)
        pairs = [(i, j) for i in range(1, len(ps)) for j in range(i + 1, len(ps)) if not_nested(ps[i], ps[j])]
        if not pairs:
            ctx.count('no_alias_site')
            continue
        if rng.random() < 0.06:
            # a cycle: anchor a collection and put an alias to it inside
            colls = [p for p in ps if G.get_at_path(c.doc, p)[0] in ('q', 'm')]
            if colls:
                p = rng.choice(colls)
                node = G.get_at_path(c.doc, p)
                how = rng.random()
                if node[0] == 'q':
                    inner = ('q', list(node[1]) + [('*', 'cyc')], node[2])
                elif how < 0.4:
                    inner = ('m', list(node[1]) + [(G.S('self'), ('*', 'cyc'))], node[2])
                elif how < 0.7:
                    # a cycle that runs through mapping keys only
                    inner = ('m', list(node[1]) + [(('*', 'cyc'), G.S('1'))], node[2])
                else:
                    inner = ('m', list(node[1]) + [(('m', [(('*', 'cyc'), G.S('2'))], None), G.S('1'))], node[2])
                doc2 = G.replace_at(c.doc, p, lambda d: ('&', 'cyc', inner))
                try:
                    c2 = L.build_case(rng, yaml, yatiml, c.spec, c.doc_type, doc2, ('cycle', p))
                    L.run_case(c2, yaml)
                except Exception:  # noqa
                    continue
                cases.append(c2)
                ctx.case(('cycle', c2.text), nontrivial=True)
                ctx.count('cycles')
                if c2.real_out[0] == 'ok' or c2.real_out[0] == 'other':
                    ctx.violation('a self-referential alias gives {} {}'.format(
                        c2.real_out[0], repr(c2.real_out[1])[:100]),
                        dict(L.describe(c2), key='cycle:' + c2.real_out[0]))
                continue
        lists = [p for p in ps if G.get_at_path(c.doc, p)[0] == 'q' and G.get_at_path(c.doc, p)[1]]
        equal = [(i, j) for i, j in pairs if G.get_at_path(c.doc, ps[i]) == G.get_at_path(c.doc, ps[j])]
        r = rng.random()
        if lists and r < 0.45:
            # repeat the first item of a list through an alias: [&x item, ..., *x]
            lp = rng.choice(lists)
            lst = G.get_at_path(c.doc, lp)
            target = lst[1][0]
            if target[0] in ('&', '*') or "('&'" in repr(target) or "('*'" in repr(target):
                continue        # an alias cannot carry an anchor; a copy written out would repeat inner anchors
            aliased = G.replace_at(c.doc, lp, lambda d: ('q', [('&', 'x1', target)] + list(lst[1][1:]) + [('*', 'x1')], lst[2]))
            inlined = G.replace_at(c.doc, lp, lambda d: ('q', list(lst[1]) + [target], lst[2]))
            p, q = lp + (0,), lp + (len(lst[1]),)
        else:
            same = [(i, j) for i, j in pairs if kind_of(G.get_at_path(c.doc, ps[i])) == kind_of(G.get_at_path(c.doc, ps[j]))]
            i, j = rng.choice(equal) if (equal and r < 0.7) else rng.choice(same) if (same and r < 0.93) else rng.choice(pairs)
            p, q = ps[i], ps[j]
            target = G.get_at_path(c.doc, p)
            if target[0] in ('&', '*') or "('&'" in repr(target) or "('*'" in repr(target):
                continue
            aliased = G.replace_at(G.replace_at(c.doc, q, lambda d: ('*', 'x1')), p, lambda d: ('&', 'x1', target))
            inlined = G.replace_at(c.doc, q, lambda d: target)
        try:
            ca = L.build_case(rng, yaml, yatiml, c.spec, c.doc_type, aliased, ('alias', p, q))
            L.run_case(ca, yaml)
            ci = L.build_case(rng, yaml, yatiml, c.spec, c.doc_type, inlined, ('inlined', p, q))
            L.run_case(ci, yaml)
        except Exception as e:  # noqa
            ctx.count('build_error:' + type(e).__name__)
            continue
        cases.append(ca)
        cases.append(ci)
        LC.record_distribution(ctx, ca)
        oa, oi = c13.base_outcome(ca), c13.base_outcome(ci)
        ctx.case((ca.text, repr(c.doc_type)), nontrivial=target[0] != 's' or True)
        ctx.count('alias_pairs')
        ctx.count('alias_target:' + target[0])
        if len(ctx.samples) < 4:
            ctx.sample(dict(aliased=ca.text[:200], inlined=ci.text[:200], outcome=oa[0]))
        if oa != oi:
            ctx.violation('with the alias: {}; with a copy written out: {}'.format(str(oa)[:150], str(oi)[:150]),
                          dict(L.describe(ca), key='alias:{}'.format(ca.text[:60]), inlined_text=ci.text))
    # one node read under two different key types: Dict[<string-like>, V] next to Any / Dict[str, V] / a class
    for _ in range(ctx.budget(40, 600)):
        kkind = rng.choice(['str', 'userstring', 'yatimlstring'])
        key_cls = dict(name='Key', bases=[], registered=True, kind=kkind)
        vt = rng.choice([('int',), ('str',), ('seq', 'list', ('int',))])
        t1 = ('map', 'dict', ('cls', 'Key'), vt)
        t2 = rng.choice([('any',), ('map', 'dict', ('str',), vt), ('map', 'mapping', ('cls', 'Key'), vt),
                         CM.t_opt(('map', 'dict', ('str',), vt))])
        ts = [t1, t2]
        rng.shuffle(ts)
        params = [dict(name='a', type=ts[0]), dict(name='b', type=ts[1])]
        holder = dict(name='Holder', bases=[], registered=True, kind='plain', params=params, all_params=params,
                      extra=False, abstract=None, define_init=True)
        spec = [key_cls, holder]
        keys = rng.sample(['x', 'y', 'k1', 'true', '12'], rng.randint(0, 3))
        val = {'int': lambda: G.S(str(rng.randint(0, 9))), 'str': lambda: G.S(rng.choice(['v', 'w'])),
               'seq': lambda: ('q', [G.S('1')], None)}[vt[0]]
        target = ('m', [(G.S(k), val()) for k in keys], None)
        aliased = ('m', [(G.S('a'), ('&', 'm1', target)), (G.S('b'), ('*', 'm1'))], None)
        inlined = ('m', [(G.S('a'), target), (G.S('b'), target)], None)
        try:
            ca = L.build_case(rng, yaml, yatiml, spec, ('cls', 'Holder'), aliased, ('alias-keytypes',))
            L.run_case(ca, yaml)
            ci = L.build_case(rng, yaml, yatiml, spec, ('cls', 'Holder'), inlined, ('inlined-keytypes',))
            L.run_case(ci, yaml)
        except Exception as e:  # noqa
            ctx.count('build_error:' + type(e).__name__)
            continue
        cases.append(ca)
        cases.append(ci)
        oa, oi = c13.base_outcome(ca), c13.base_outcome(ci)
        ctx.case((ca.text, 'keytypes', repr(ts)), nontrivial=bool(keys))
        ctx.count('alias_pairs_keytypes')
        if oa != oi:
            ctx.violation('with the alias: {}; with a copy written out: {}'.format(str(oa)[:150], str(oi)[:150]),
                          dict(L.describe(ca), key='alias-keytypes:{}'.format(ca.text[:60]), inlined_text=ci.text))
    for c in LC.alias_across_types(ctx, ctx.budget(60, 1200)):
        cases.append(c)
        ctx.case(('alias-across-types', c.text, repr(c.doc_type)), nontrivial=True)
        if c.real_out[0] == 'other':
            ctx.violation('load raises {} for {!r}'.format(c.real_out[1][:100], c.text),
                          dict(L.describe(c), key='alias-escape:' + c.text[:60]))
        try:
            ci = L.build_case(rng, yaml, yatiml, c.spec, c.doc_type, LC.inline_aliases(c.doc), ('inlined',))
            L.run_case(ci, yaml)
        except Exception as e:  # noqa
            ctx.count('build_error:' + type(e).__name__)
            continue
        cases.append(ci)
        oa, oi = c13.base_outcome(c), c13.base_outcome(ci)
        ctx.count('alias_pairs_across_types')
        # the same document read through the stream interface (yaml.load_all with the generated loader)
        try:
            del c.model.log[:]
            docs = list(yaml.load_all(c.text, Loader=c.real.loader_cls))
            om = ('ok', CM.val_sexp(docs[0], c.model)) if len(docs) == 1 else ('other', 'documents: %d' % len(docs))
        except yatiml.RecognitionError:
            om = ('fail',)
        except yaml.YAMLError:
            om = ('fail',)
        except Exception as e:  # noqa
            om = ('other', type(e).__name__)
        ctx.count('load_all_checked')
        if om != oa:
            ctx.violation('read as a stream (yaml.load_all with the generated loader) the aliased document gives {}, '
                          'loaded singly {}'.format(str(om)[:120], str(oa)[:120]),
                          dict(L.describe(c), key='alias-stream:{}'.format(c.text[:60])))
        if oa != oi:
            ctx.violation('with the alias: {}; with a copy written out: {}'.format(str(oa)[:150], str(oi)[:150]),
                          dict(L.describe(c), key='alias-across:{}'.format(c.text[:60]), inlined_text=ci.text))
    # cycles that run through a merge key, in untyped parts of a document (merge keys are read there)
    P = lambda nm, t, **kw: dict(name=nm, type=t, **kw)   # noqa: E731
    opn = dict(name='Open', bases=[], registered=True, kind='plain', params=[P('a', ('int',))], extra=True,
               abstract=None, define_init=True)
    opn['all_params'] = opn['params']
    S = G.S
    MK = ('s', '<<', False, None)
    cyc = [('&', 'cyc', ('m', [(MK, ('*', 'cyc')), (S('x'), S('1'))], None)),
           ('m', [(S('base'), ('&', 'cyc', ('m', [(S('x'), S('1')), (S('sub'), ('m', [(MK, ('*', 'cyc'))], None))], None)))], None),
           ('&', 'cyc', ('m', [(MK, ('q', [('*', 'cyc')], None))], None)),
           ('m', [(S('k'), ('&', 'cyc', ('m', [(MK, ('q', [('m', [(S('y'), S('2'))], None), ('*', 'cyc')], None))], None)))], None)]
    cyc += [('&', 'cyc', ('m', [(('*', 'cyc'), S('1'))], None)),
            ('&', 'cyc', ('q', [('m', [(('*', 'cyc'), S('1'))], None)], None)),
            ('m', [(S('k'), ('&', 'cyc', ('m', [(S('x'), S('1')), (('*', 'cyc'), S('2'))], None)))], None),
            ('&', 'cyc', ('m', [(('q', [('*', 'cyc')], None), S('1'))], None))]
    for body in cyc:
        for t, doc in [(('any',), body), (('map', 'dict', ('str',), ('any',)), ('m', [(S('d'), body)], None)),
                       (('cls', 'Open'), ('m', [(S('a'), S('1')), (S('more'), body)], None)),
                       (('seq', 'list', ('any',)), ('q', [body], None))]:
            try:
                c2 = L.build_case(rng, yaml, yatiml, [opn], t, doc, ('merge-cycle',))
                L.run_case(c2, yaml)
            except Exception as e:  # noqa
                ctx.count('build_error:' + type(e).__name__)
                continue
            cases.append(c2)
            ctx.case(('merge-cycle', c2.text, repr(t)), nontrivial=True)
            ctx.count('merge_cycles')
            bad = c2.real_out[0] in ('ok', 'other') or 'recursion depth' in str(c2.real_out[1])
            if bad:
                ctx.violation('a self-referential alias through a merge key gives {} {}'.format(
                    c2.real_out[0], repr(c2.real_out[1])[:120]),
                    dict(L.describe(c2), key='merge-cycle:' + c2.text[:60]))
    LC.correspond(ctx, cases)
    check_shapes(ctx, cases.shapes)


def search(ctx, broken):
    explore(ctx)


def replay(ctx, rep):
    import json
    print(json.dumps(rep.get('case', rep), indent=1)[:3000])
    explore(ctx)
    return not ctx.violations
