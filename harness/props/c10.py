"""C10 — seasoning and recognition hooks run once, own class only, bases first."""
from props import loadcommon as LC
import loadrun as L

PROPERTY = 'C10'
LEAN_MODULES = ['YatimlModel.Props.C10']
THEOREMS = ['YatimlModel.C10.' + t for t in [
    'C10_savorize_own_last', 'C10_savorize_no_hook_no_call', 'C10_savorize_chain',
    'C10_seasoning_error_is_recognition_error', 'C10_savorize_after_recognition',
    'C10_recognize_own_dict_only', 'C10_sweeten_chain']]
RULE = ('single-inheritance hierarchies (plus unregistered mix-ins) with _yatiml_savorize / '
        '_yatiml_recognize defined on arbitrary subsets of the classes x documents reaching them at the '
        'top level, in lists, dicts, attributes and unions; the hook log of the real load (which hook, '
        'called on which class, in which order) is compared with the chain computed from the class model '
        'and with the Lean model\'s trace.  Non-trivial = at least one hook ran.'
        ' Also: the same class objects used by several load / dump functions registering different'
        ' subsets of a three-level hierarchy, in random creation and call order; mix-ins'
        ' (registered or not, hooked or not) in either base order on the dump side.')
ASSUMPTIONS = ['"registered ancestors" = ancestors reachable through registered direct bases (DESIGN 7a)']


def translate(ctx):
    return []


def chain(spec_by, registered, name):
    """savorize hooks the documented rule runs for class `name`: registered bases first"""
    out = []
    c = spec_by[name]
    for b in c['bases']:
        if b in spec_by and spec_by[b].get('registered', True) and b in registered:
            out += chain(spec_by, registered, b)
    if c.get('savorize') is not None:
        out.append(name)
    return out


def expected_trace(c, v, t=None):
    """pre-order walk of the loaded value: the savorize calls a load of it must have made"""
    by = c.model.by_name_spec
    registered = {x.__name__ for x in c.model.registered}
    out = []

    def rec(x):
        n = type(x).__name__
        if n in by and type(x) is c.model.classes[n] and by[n]['kind'] == 'plain':
            out.extend(chain(by, registered, n))
            names = list(c.model.defaults_of(n).keys())
            for a in names:
                if hasattr(x, a):
                    rec(getattr(x, a))       # (also the extra attributes: an object in there was built)
        elif n in by and type(x) is c.model.classes[n]:
            out.extend(chain(by, registered, n))        # enums and string-likes are savorized too
        elif isinstance(x, dict):
            for k, a in x.items():
                rec(k)
                rec(a)
        elif isinstance(x, (list, tuple)):
            for a in x:
                rec(a)
    rec(v)
    return out


def repeated_keys(c):
    import yaml
    seen = set()

    def walk(n):
        if id(n) in seen:
            return False
        seen.add(id(n))
        if isinstance(n, yaml.MappingNode):
            keys = [k.value for k, _ in n.value if isinstance(k, yaml.ScalarNode)]
            if len(set(keys)) != len(keys):
                return True
            return any(walk(k) or walk(v) for k, v in n.value)
        if isinstance(n, yaml.SequenceNode):
            return any(walk(x) for x in n.value)
        return False
    if c.node is not None and walk(c.node):
        return True
    # a string-like key class whose savorize hook rewrites the key: different keys may collapse
    rewriting = {x['name'] for x in c.spec if x['kind'] in ('str', 'userstring', 'yatimlstring')
                 and any(op[0] == 'replace' for op in (x.get('savorize') or []))}

    def keyed(t):
        if t is None:
            return False
        if t[0] == 'map':
            return (t[2][0] == 'cls' and t[2][1] in rewriting) or keyed(t[3])
        if t[0] == 'seq':
            return keyed(t[2])
        if t[0] == 'union':
            return any(keyed(m) for m in t[1])
        return False
    return bool(rewriting) and (keyed(c.doc_type) or any(
        keyed(p.get('type')) for x in c.spec for p in x.get('params', [])))


def explore(ctx):
    cases = LC.CaseBuffer(ctx)

    def hooked(spec):
        return any(c.get('savorize') is not None or c.get('recognize') is not None for c in spec)
    import itertools
    from props import c17 as _c17
    for c in itertools.chain(LC.gen_cases(ctx, ctx.budget(500, 12000), mutate_p=0.25, model_filter=hooked, prop='C10'),
                             LC.class_key_faults(ctx, ctx.budget(150, 3000)),
                             LC.alias_across_types(ctx, ctx.budget(20, 400)),
                             _c17.directed_hook_failures(ctx)):
        cases.append(c)
        LC.record_distribution(ctx, c)
        by = c.model.by_name_spec
        log = c.real_out[2]
        hooks = [e for e in log if e[0] in ('sav', 'rec')]
        ctx.case((c.text, repr(c.doc_type), repr([x['name'] for x in c.spec])), nontrivial=bool(hooks))
        if len(ctx.samples) < 3 and hooks:
            ctx.sample(dict(text=c.text, type=repr(c.doc_type), hooks=repr(hooks)[:200]))
        # a hook is only ever invoked on the class that defines it
        for e in hooks:
            if len(e) >= 3 and e[1] != e[2]:
                ctx.violation('{} of class {} was invoked for class {}'.format(
                    '_yatiml_savorize' if e[0] == 'sav' else '_yatiml_recognize', e[1], e[2]),
                    dict(L.describe(c), key='foreign-hook:{}:{}'.format(e[1], e[2])))
        if c.real_out[0] == 'ok' and repeated_keys(c):
            # an entry built for a key that a later occurrence of the same key overwrites: its object was
            # savorized and constructed but is not in the result
            ctx.count('skipped_repeated_keys')
        elif c.real_out[0] == 'ok':
            want = expected_trace(c, c.real_out[1])
            got = [e[1] for e in log if e[0] == 'sav']
            # savorizers that rename/replace attributes can make the value walk miss nothing: the
            # walk follows the constructed objects, which exist for exactly the processed class nodes
            if sorted(want) != sorted(got):
                ctx.violation('savorize calls {} but the loaded value calls for {}'.format(got, want),
                              dict(L.describe(c), key='savorize-set:' + c.text[:60]))
            elif want != got:
                ctx.violation('savorize order {} differs from bases-first document order {}'.format(got, want),
                              dict(L.describe(c), key='savorize-order:' + c.text[:60]))
            ctx.count('traces_checked')
        if c.real_out[0] == 'other' and 'SeasoningError' in c.real_out[1]:
            ctx.violation('SeasoningError escaped instead of RecognitionError',
                          dict(L.describe(c), key='seasoningerror'))
        elif c.real_out[0] == 'other' and any(op[0] == 'fail' for x in c.spec for op in (x.get('savorize') or [])) \
                and any(e[0] == 'sav' for e in log):
            # a hook that raises SeasoningError (with or without a message) ran: the load must end in RecognitionError
            ctx.violation('a SeasoningError raised while savourising surfaces as {}'.format(c.real_out[1][:80]),
                          dict(L.describe(c), key='seasoning-surfaces:' + c.real_out[1].split(':')[0]))
    LC.correspond(ctx, cases)
    explore_sweeten(ctx)


def sweeten_chain(model, dumper_cls, name):
    """the documented rule on the dump side: classes with a representer, bases first, own body only"""
    cls = model.classes[name]
    out = []
    for b in cls.__bases__:
        if b in dumper_cls.yaml_representers and b.__name__ in model.classes and model.classes[b.__name__] is b:
            out += sweeten_chain(model, dumper_cls, b.__name__)
    if '_yatiml_sweeten' in cls.__dict__:
        out.append(name)
    return out


def expected_sweeten(model, dumper_cls, v):
    """post-order: an object's attributes are represented before its own mapping is sweetened"""
    out = []

    def rec(x):
        n = type(x).__name__
        if n in model.classes and type(x) is model.classes[n]:
            spec = model.by_name_spec[n]
            if spec['kind'] == 'plain':
                for a in model.defaults_of(n).keys():
                    if a == '_yatiml_extra':
                        for k, e in getattr(x, a).items():
                            rec(e)
                    elif hasattr(x, a):
                        rec(getattr(x, a))
            out.extend(sweeten_chain(model, dumper_cls, n))
        elif isinstance(x, dict):
            for k, a in x.items():
                rec(k)
                rec(a)
        elif isinstance(x, (list, tuple)):
            for a in x:
                rec(a)
    rec(v)
    return out


def explore_sweeten(ctx):
    import classmodel as CM
    import dumprun as D
    import loadgen as G
    yaml, yatiml = L.setup()
    rng = ctx.rng
    made = 0
    attempts = 0
    target = ctx.budget(300, 6000)
    while made < target and attempts < target * 5:
        attempts += 1
        spec, cands = G.gen_model(rng, features={'sweeten', 'mixins'} if attempts % 2 else {'sweeten'})
        if not any(c.get('sweeten') is not None for c in spec):
            continue
        try:
            model = CM.Model(spec)
            rd = D.RealDump(model, yatiml, yaml)
            v = D.gen_value(rng, model, rng.choice(cands))
            node, swe = rd.node(v)
        except (D.GenFail, G.GenFail):
            continue
        except Exception as e:  # noqa
            ctx.count('sweeten_gen_error:' + type(e).__name__)
            continue
        made += 1
        ctx.case(('sweeten', repr(v)[:200]), nontrivial=bool(swe))
        ctx.count('sweeten_cases')
        for e in swe:
            if e[1] != e[2]:
                kind = model.by_name_spec.get(e[2], {}).get('kind')
                key = 'sweeten-foreign-hook' if kind == 'plain' else 'sweeten-hasattr-' + str(kind)
                ctx.violation('_yatiml_sweeten of class {} was invoked for class {}'.format(e[1], e[2]),
                              dict(key=key, classes=model.source[-2500:], value=repr(v)[:300]))
        want = expected_sweeten(model, rd.dumper_cls, v)
        got = [e[1] for e in swe]
        if got != want:
            ctx.violation('sweeten calls {} but the value calls for {} (bases first, own body only)'.format(got, want),
                          dict(key='sweeten-trace:' + repr(v)[:50], classes=model.source[-2500:], value=repr(v)[:300]))
    fixed_sweeten_findings(ctx, yaml, yatiml)
    shared_class_scenarios(ctx, yaml, yatiml)
    same_named_base(ctx, yaml, yatiml)


def fixed_sweeten_findings(ctx, yaml, yatiml):
    """the two situations of DESIGN.md F14 (enum / string-like representers look the hook up with
    hasattr): exercised on every run so that the finding is reported while it exists"""
    import enum
    from collections import UserString
    log = []

    class US(UserString):
        @classmethod
        def _yatiml_sweeten(cls, node):
            log.append(('US', cls.__name__))

    class US2(US):
        @classmethod
        def _yatiml_sweeten(cls, node):
            log.append(('US2', cls.__name__))

    dumps = yatiml.dumps_function(US, US2)
    dumps(US2('x'))
    ctx.case(('sweeten-fixed', 'stringlike'), nontrivial=True)
    if [a for a, _ in log] != ['US', 'US2']:
        ctx.violation('string-like US2(US), both defining _yatiml_sweeten: hooks run {} instead of '
                      "['US', 'US2'] (bases first)".format([a for a, _ in log]),
                      dict(key='sweeten-stringlike-chain', log=repr(log)))
    del log[:]

    class Mixin:
        @classmethod
        def _yatiml_sweeten(cls, node):
            log.append(('Mixin', cls.__name__))

    class Col(Mixin, enum.Enum):
        red = 1

    dumps = yatiml.dumps_function(Col)
    dumps(Col.red)
    ctx.case(('sweeten-fixed', 'enum'), nontrivial=True)
    if log:
        ctx.violation('enum Col(Mixin, Enum) defines no _yatiml_sweeten but the unregistered mix-in\'s hook '
                      'ran: {}'.format(log), dict(key='sweeten-enum-inherited', log=repr(log)))


def shared_class_scenarios(ctx, yaml, yatiml):
    """the same class objects used by several load / dump functions that register different subsets of
    the hierarchy: which hooks run is decided by each function's own registrations, in whatever order
    the functions are created and used"""
    rng = ctx.rng
    for _ in range(ctx.budget(12, 120)):
        log = []

        def mk(name, base, nparams):
            def sav(cls, node, _n=name):
                log.append(('sav', _n))

            def swe(cls, node, _n=name):
                log.append(('swe', _n))
            names = ['a', 'b', 'c'][:nparams]
            src = 'def __init__(self, {}):\n{}'.format(
                ', '.join(n + ': int' for n in names), ''.join('    self.{0} = {0}\n'.format(n) for n in names))
            ns = {}
            exec(src, ns)
            body = {'__init__': ns['__init__']}
            if rng.random() < 0.85:
                body['_yatiml_savorize'] = classmethod(sav)
                body['_yatiml_sweeten'] = classmethod(swe)
            return type(name, (base,) if base else (), body)
        A = mk('Top', None, 1)
        B = mk('Mid', A, 2)
        C = mk('Leaf', B, 3)
        chain = [A, B, C]
        hooked = {k.__name__ for k in chain if '_yatiml_savorize' in vars(k)}
        subsets = [[C], [C, B], [C, A], [C, B, A], [B], [B, A]]
        rng.shuffle(subsets)
        funcs = []
        for regs in subsets[:rng.randint(2, 5)]:
            target = regs[0]
            order = list(regs)
            rng.shuffle(order)
            funcs.append((target, regs, yatiml.load_function(target, *order), yatiml.dumps_function(*order)))
        uses = funcs * 2
        rng.shuffle(uses)
        for target, regs, load, dumps in uses:
            n = len([k for k in chain if chain.index(k) <= chain.index(target)])
            text = '{' + ', '.join('{}: {}'.format(x, i) for i, x in enumerate(['a', 'b', 'c'][:n])) + '}'
            # the documented rule: registered direct bases first, recursively, each class's own hook once
            want = []

            def walk(k):
                for b in k.__bases__:
                    if b in regs:
                        walk(b)
                if k.__name__ in hooked:
                    want.append(k.__name__)
            walk(target)
            for side in ('sav', 'swe'):
                del log[:]
                try:
                    if side == 'sav':
                        obj = load(text)
                    else:
                        dumps(target(*range(n)))
                except Exception as e:  # noqa
                    ctx.violation('a function over {} raises {} after other functions were used'.format(
                        [k.__name__ for k in regs], type(e).__name__), dict(key='shared-raises:' + side))
                    continue
                got = [x[1] for x in log if x[0] == side]
                ctx.case(('shared-classes', side, tuple(k.__name__ for k in regs), tuple(got)), nontrivial=True)
                ctx.count('shared_class_calls')
                if got != want:
                    ctx.violation('{} hooks {} ran for {} with {} registered; the rule calls for {} (other '
                                  'functions over the same classes exist)'.format(
                                      'savorize' if side == 'sav' else 'sweeten', got, target.__name__,
                                      [k.__name__ for k in regs], want),
                                  dict(key='shared-classes:{}:{}'.format(side, target.__name__),
                                       registered=[k.__name__ for k in regs], got=got, want=want))


def same_named_base(ctx, yaml, yatiml):
    """`class Shape(library.Shape)`: a registered class derived from an UNREGISTERED class of the same name
    that has hooks of its own; only the registered classes' own hooks run"""
    log = []

    def hooks(label):
        def sav(cls, node, _l=label):
            log.append(('sav', _l))

        def swe(cls, node, _l=label):
            log.append(('swe', _l))
        return {'_yatiml_savorize': classmethod(sav), '_yatiml_sweeten': classmethod(swe)}

    def init(names):
        src = 'def __init__(self, {}) -> None:\n{}'.format(
            ', '.join(n + ': int' for n in names), ''.join('    self.{0} = {0}\n'.format(n) for n in names))
        ns = {}
        exec(src, ns)
        return ns['__init__']
    lib = type('Shape', (), dict(hooks('lib.Shape')))                      # never registered
    mixin = type('Tracked', (), dict(hooks('Tracked')))                      # never registered
    for bases in ((lib,), (mixin, lib), (lib, mixin)):
        shape = type('Shape', bases, dict(hooks('Shape'), __init__=init(['a'])))
        circle = type('Circle', (shape,), dict(hooks('Circle'), __init__=init(['a', 'r'])))
        for regs, target, text, want in (([shape, circle], shape, '{a: 1, r: 2}', ['Shape', 'Circle']),
                                         ([shape], shape, '{a: 1}', ['Shape']),
                                         ([circle], circle, '{a: 1, r: 2}', ['Circle'])):
            for side in ('sav', 'swe'):
                del log[:]
                try:
                    if side == 'sav':
                        yatiml.load_function(target, *regs)(text)
                    else:
                        yatiml.dumps_function(*regs)(circle(1, 2) if circle in regs else shape(1))
                except Exception as e:  # noqa
                    log.append((side, 'raised ' + type(e).__name__))
                got = [x[1] for x in log if x[0] == side]
                ctx.case(('same-named-base', side, len(bases), tuple(k.__name__ for k in regs)), nontrivial=True)
                ctx.count('same_named_base')
                if got != want:
                    ctx.violation('{} hooks {} ran, the rule calls for {} (an unregistered base class has the name of a '
                                  'registered class)'.format('savorize' if side == 'sav' else 'sweeten', got, want),
                                  dict(key='same-named-base:' + side, got=got, want=want))


def search(ctx, broken):
    explore(ctx)


def replay(ctx, rep):
    import json
    print(json.dumps(rep.get('case', rep), indent=1)[:3000])
    explore(ctx)
    return not ctx.violations
