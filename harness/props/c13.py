"""C13 — load is invariant under changes that do not alter the document's meaning."""
import copy

from props import loadcommon as LC
from props import c03
import classmodel as CM
import loadgen as G
import loadrun as L

PROPERTY = 'C13'
LEAN_MODULES = ['YatimlModel.Props.C13']
THEOREMS = ['YatimlModel.C13.' + t for t in [
    'C13_key_order_recognition', 'C13_typeToTag_kind', 'C13_bool_union_fix', 'C13_unrelated_class',
    'C13_kind_interchange_language', 'C13_kind_interchange_recognised']]
RULE = ('generated (class model, document) pairs x meaning-preserving transformations: keys of class '
        'mappings reordered, the document re-serialised in block / flow / double-quoted / canonical '
        'style with the same node tags, an unrelated class additionally registered, '
        'List/Sequence/MutableSequence and Dict/Mapping/MutableMapping interchanged in every annotation, '
        'bool_union_fix added to every Union containing bool; the outcome (equal value or failure) of '
        'the real load must not change.  Non-trivial = the transformed input differs from the original.'
        ' Directed families: !Unrelated tags on class mappings; Unions containing bool as item /'
        ' value types of (nested, Optional) lists and dicts; documents with aliases re-rendered'
        ' with every alias written out; class mappings naming an attribute in both its underscored and'
        ' its dashed spelling (key order, twice per case; for classes with extra attributes the attribute'
        ' is also moved to the other side of its dashed twin).')
ASSUMPTIONS = ['PyYAML\'s serializer/emitter writes a node tree so that it re-composes to the same kinds, '
               'values and tags (checked per case; cases where it does not are skipped and counted)']


def translate(ctx):
    return []


def shuffle_class_maps(rng, spec, doc, t):
    by = {c['name']: c for c in spec}
    k = t[0]
    if doc[0] == 'm' and k == 'cls' and by[t[1]]['kind'] == 'plain':
        pairs = list(doc[1])
        keys = [p[0][1] if p[0][0] == 's' else None for p in pairs]
        if len(set(keys)) == len(keys):       # distinct keys: order carries no meaning ...
            # movable: the parameters of the declared class (every class the mapping can be loaded as
            # inherits them); any other key may end up among the extra attributes of one of them
            pnames = {p['name'] for p in by[t[1]].get('params', [])}
            # (a dashed spelling is an *extra* attribute unless a savorize hook renames it: it keeps its place
            # among the others)
            others = [p for p in pairs if p[0][0] != 's' or p[0][1] not in pnames]
            rng.shuffle(pairs)
            # ... except among extra attributes, which arrive as an *ordered* mapping
            it = iter(others)
            pairs = [next(it) if (p[0][0] != 's' or p[0][1] not in pnames) else p for p in pairs]
        # recurse into attribute values where the key names a parameter of some class in the hierarchy
        ptypes = {p['name']: p.get('type') for p in by[t[1]].get('params', [])}
        out = []
        for kk, v in pairs:
            pt = ptypes.get(kk[1]) if kk[0] == 's' else None
            out.append((kk, shuffle_class_maps(rng, spec, v, pt) if pt else v))
        return ('m', out, doc[2])
    if doc[0] == 'q' and k == 'seq':
        return ('q', [shuffle_class_maps(rng, spec, x, t[2]) for x in doc[1]], doc[2])
    return doc


def canon_value(v):
    """a loaded value up to the order of the keys of plain dicts (OrderedDicts keep theirs), NaN = NaN"""
    import datetime
    import enum
    import pathlib
    from collections import OrderedDict, UserString
    if isinstance(v, float) and v != v:
        return ('nan',)
    if isinstance(v, enum.Enum):
        return ('enum', type(v).__name__, v.name)
    if isinstance(v, (str, UserString)):
        return ('str', type(v).__name__, str(v))
    if v is None or isinstance(v, (bool, int, float, pathlib.PurePath, datetime.date)):
        return (type(v).__name__, repr(v))
    if isinstance(v, OrderedDict):
        return ('odict', [(canon_value(k), canon_value(x)) for k, x in v.items()])
    if isinstance(v, dict):
        return ('dict', sorted(((canon_value(k), canon_value(x)) for k, x in v.items()), key=repr))
    if isinstance(v, (list, tuple)):
        return ('list', [canon_value(x) for x in v])
    if hasattr(v, '__dict__'):
        return ('obj', type(v).__name__, [(k, canon_value(x)) for k, x in vars(v).items()])
    return (type(v).__name__, repr(v))


def swap_kinds(t, rng):
    k = t[0]
    if k == 'seq':
        return ('seq', rng.choice(['list', 'sequence', 'mutablesequence']), swap_kinds(t[2], rng))
    if k == 'map':
        return ('map', rng.choice(['dict', 'mapping', 'mutablemapping']), t[2], swap_kinds(t[3], rng))
    if k == 'union':
        return ('union', [swap_kinds(m, rng) for m in t[1]])
    return t


def union_sizes(t):
    """the number of distinct members of every Union in a type, in traversal order"""
    if t is None:
        return []
    k = t[0]
    if k == 'union':
        out = [len(set(map(repr, t[1])))]
        for m in t[1]:
            out += union_sizes(m)
        return out
    if k == 'seq':
        return union_sizes(t[2])
    if k == 'map':
        return union_sizes(t[2]) + union_sizes(t[3])
    return []


def spec_union_sizes(spec, t):
    return [union_sizes(t)] + [union_sizes(p.get('type')) for c in spec for p in c.get('params', [])]


def add_fix(t):
    k = t[0]
    if k == 'seq':
        return ('seq', t[1], add_fix(t[2]))
    if k == 'map':
        return ('map', t[1], t[2], add_fix(t[3]))
    if k == 'union':
        ms = [add_fix(m) for m in t[1]]
        if ('bool',) in ms and ('boolfix',) not in ms:
            ms = [('boolfix',)] + ms
        return ('union', ms)
    return t


def map_spec_types(spec, fn):
    out = copy.deepcopy(spec)
    for c in out:
        for p in c.get('params', []):
            if p.get('type') is not None:
                p['type'] = fn(p['type'])
        if c.get('recognize'):
            c['recognize'] = [(op[0], op[1], fn(op[2])) if op[0] == 'rattr' and op[2] is not None else op
                              for op in c['recognize']]
    return out


def outcome(model, load, yaml, yatiml, text):
    del model.log[:]
    try:
        v = load(text)
        return ('ok', CM.val_sexp(v, model))
    except yatiml.RecognitionError:
        return ('fail',)
    except yaml.YAMLError:
        return ('fail',)
    except Exception as e:  # noqa
        return ('other', type(e).__name__)


def base_outcome(c):
    if c.real_out[0] == 'ok':
        return ('ok', CM.val_sexp(c.real_out[1], c.model))
    if c.real_out[0] in ('rec', 'yaml'):
        return ('fail',)
    return ('other', c.real_out[1].split(':')[0])


def tree_copy(yaml, node, above):
    """the node graph as a tree (no object shared); RecursionError for a cyclic document"""
    if any(node is a for a in above):
        raise RecursionError('cyclic document')
    above = above + (node,)
    if isinstance(node, yaml.ScalarNode):
        return yaml.ScalarNode(node.tag, node.value, node.start_mark, node.end_mark, style=node.style)
    if isinstance(node, yaml.SequenceNode):
        return yaml.SequenceNode(node.tag, [tree_copy(yaml, x, above) for x in node.value],
                                 node.start_mark, node.end_mark, flow_style=node.flow_style)
    return yaml.MappingNode(node.tag, [(tree_copy(yaml, k, above), tree_copy(yaml, v, above))
                                       for k, v in node.value],
                            node.start_mark, node.end_mark, flow_style=node.flow_style)


def restyle(yaml, node, style):
    kw = dict(Dumper=yaml.SafeDumper, allow_unicode=True, width=1000)
    if style == 'canonical':
        return yaml.serialize(node, canonical=True, **kw)
    n = copy.deepcopy(node)

    def set_style(x, flow, quote):
        if isinstance(x, yaml.ScalarNode):
            x.style = quote
        else:
            x.flow_style = flow
            if isinstance(x, yaml.SequenceNode):
                for y in x.value:
                    set_style(y, flow, quote)
            else:
                for k, v in x.value:
                    set_style(k, flow, quote)
                    set_style(v, flow, quote)
    if style == 'block':
        set_style(n, False, None)
    elif style == 'flow':
        set_style(n, True, None)
    elif style == 'quoted':
        set_style(n, False, '"')
    elif style == 'json':
        set_style(n, True, '"')
    return yaml.serialize(n, **kw)


def boolfix_cases(ctx, n):
    """Unions that contain bool, as the item / value type of lists and dicts, bare, under Optional and as
    class attributes; documents with booleans (and other kinds) at those positions"""
    yaml, yatiml = L.setup()
    rng = ctx.rng
    S = G.S
    for _ in range(n):
        other = rng.choice([('int',), ('str',), ('float',), ('null',)])
        ms = [('bool',), other]
        rng.shuffle(ms)
        u = ('union', ms)
        inner = rng.choice([('seq', rng.choice(['list', 'sequence']), u), ('map', 'dict', ('str',), u), u,
                            ('seq', 'list', ('seq', 'list', u))])
        t = rng.choice([inner, CM.t_opt(inner) if inner[0] != 'union' else inner])
        params = [dict(name='flags', type=t), dict(name='n', type=('int',), default=1)]
        holder = dict(name='Holder', bases=[], registered=True, kind='plain', params=params, all_params=params,
                      extra=False, abstract=None, define_init=True)
        spec = [holder]
        vals = [S(rng.choice(['true', 'false', 'True', '1', 'a', '1.5', 'null', 'yes'])) for _ in range(3)]

        def doc_for(ty):
            if ty[0] == 'seq':
                return ('q', [doc_for(ty[2]) for _ in range(rng.randint(1, 3))], None)
            if ty[0] == 'map':
                return ('m', [(S(k), doc_for(ty[3])) for k in rng.sample(['k1', 'k2', 'k3'], rng.randint(1, 2))], None)
            if ty[0] == 'union' and ty[1] and ty[1][0][0] in ('seq', 'map') or (ty[0] == 'union' and any(
                    m[0] in ('seq', 'map') for m in ty[1])):
                m = [x for x in ty[1] if x[0] in ('seq', 'map')][0]
                return doc_for(m) if rng.random() < 0.8 else S('null')
            return rng.choice(vals)
        body = doc_for(t)
        if rng.random() < 0.5:
            dt, doc = ('cls', 'Holder'), ('m', [(S('flags'), body)], None)
        else:
            dt, doc = t, body
        try:
            c = L.build_case(rng, yaml, yatiml, spec, dt, doc, ('boolfix-directed',))
            L.run_case(c, yaml)
        except Exception as e:  # noqa
            ctx.count('gen_error:' + type(e).__name__)
            continue
        ctx.count('boolfix_directed')
        yield c


def class_maps_with_class(spec, doc, t, path=()):
    """(path, declared class) of the mappings read as plain classes when doc is loaded as t (as
    c17.class_map_paths, which it follows, but keeping the class)"""
    by = {c['name']: c for c in spec}
    out = []
    if t is None:
        return out
    k = t[0]
    if k == 'union':
        fits = [m for m in t[1] if (m[0] == 'cls' and doc[0] == 'm') or (m[0] == 'seq' and doc[0] == 'q') or
                (m[0] == 'map' and doc[0] == 'm')]
        return class_maps_with_class(spec, doc, fits[0], path) if len(fits) == 1 else out
    if k == 'cls' and doc[0] == 'm' and by[t[1]]['kind'] == 'plain':
        out.append((path, t[1]))
        ptypes = {p['name']: p.get('type') for p in by[t[1]]['params']}
        for i, (kk, v) in enumerate(doc[1]):
            if kk[0] == 's':
                out += class_maps_with_class(spec, v, ptypes.get(kk[1].replace('-', '_')), path + (i, 1))
    elif k == 'seq' and doc[0] == 'q':
        for i, x in enumerate(doc[1]):
            out += class_maps_with_class(spec, x, t[2], path + (i,))
    elif k == 'map' and doc[0] == 'm':
        for i, (kk, v) in enumerate(doc[1]):
            out += class_maps_with_class(spec, v, t[3], path + (i, 1))
    return out


def twin_cases(ctx, n):
    """class mappings that take extra attributes and name an underscored attribute twice: under its exact
    name (the attribute) and under its dashed spelling with a value of another kind (an extra attribute).
    Only cases that load are kept.  `c.twin` = (path of the mapping, exact key, dashed key)."""
    yaml, yatiml = L.setup()
    rng = ctx.rng
    S = G.S
    made = attempts = 0
    while made < n and attempts < n * 60:
        attempts += 1
        spec, cands = G.gen_model(rng)
        if not any(c.get('extra') and any('_' in p['name'] for p in c.get('params', [])) for c in spec):
            continue
        try:
            t = rng.choice(cands)
            doc = G.gen_doc(rng, spec, t)
            by = {c['name']: c for c in spec}
            maps = [(p, {a['name'] for a in by[cn].get('params', [])})
                    for p, cn in class_maps_with_class(spec, doc, t)]
        except Exception:  # noqa
            continue
        rng.shuffle(maps)
        for q, pnames in maps[:3]:
            m = G.get_at_path(doc, q)
            pairs = list(m[1])
            # attributes of the declared class (every class the mapping can be loaded as has them)
            und = [i for i, (k, v) in enumerate(pairs)
                   if k[0] == 's' and '_' in k[1].strip('_') and k[1] in pnames]
            if not und:
                continue
            i = rng.choice(und)
            k = pairs[i][0]
            dk = S(k[1].replace('_', '-'))
            if dk[1] == k[1] or any(kk[0] == 's' and kk[1] == dk[1] for kk, _ in pairs):
                continue
            wrong = rng.choice([S('true'), S('1'), S('zzz'), S('1.5'), S('~'), ('q', [S('a')], None),
                                ('m', [(S('v'), S('1'))], None), ('q', [], None)])
            pairs.insert(rng.randint(0, len(pairs)), (dk, wrong))
            doc2 = G.replace_at(doc, q, lambda d: ('m', pairs, m[2]))
            try:
                c = L.build_case(rng, yaml, yatiml, spec, t, doc2, ('dashed-twin', q))
                L.run_case(c, yaml)
            except Exception as e:  # noqa
                ctx.count('gen_error:' + type(e).__name__)
                continue
            if c.real_out[0] != 'ok':
                ctx.count('dashed_twin_probe_' + c.real_out[0])
                continue
            c.twin = (q, k[1], dk[1])
            made += 1
            ctx.count('dashed_twin_directed')
            yield c
            break


def flip_twin(doc, twin):
    """move the attribute to the other side of its dashed twin (only a parameter of the class moves; the
    extra attributes keep their order)"""
    q, name, dashed = twin
    m = G.get_at_path(doc, q)
    pairs = list(m[1])
    i = [j for j, (k, v) in enumerate(pairs) if k[0] == 's' and k[1] == name][0]
    attr = pairs.pop(i)
    j = [j for j, (k, v) in enumerate(pairs) if k[0] == 's' and k[1] == dashed][0]
    pairs.insert(j if i > j else j + 1, attr)
    return G.replace_at(doc, q, lambda d: ('m', pairs, m[2]))


def explore(ctx):
    yaml, yatiml = L.setup()
    rng = ctx.rng
    cases = LC.CaseBuffer(ctx)
    import itertools
    for c in itertools.chain(LC.gen_cases(ctx, ctx.budget(600, 9000), mutate_p=0.3, prop='C13'),
                             boolfix_cases(ctx, ctx.budget(80, 1500)),
                             LC.class_key_faults(ctx, ctx.budget(80, 1500)),
                             twin_cases(ctx, ctx.budget(60, 1200))):
        keyfault = bool(c.desc and c.desc[0] in ('class-key-fault', 'dashed-twin'))
        if keyfault:
            ctx.count('key_fault_directed')
        if c.doc is not None and rng.random() < 0.3 and not keyfault \
                and not (c.desc and c.desc[0] == 'boolfix-directed'):
            # application tags on scalars (they are stripped under Any / untyped / extra positions)
            doc = c.doc
            nested_only = rng.random() < 0.4
            sc = [] if nested_only else [p for p in G.all_paths(doc) if G.get_at_path(doc, p)[0] == 's']
            for p in rng.sample(sc, min(len(sc), rng.randint(1, 2))):
                tag = rng.choice(['!Celsius', '!Unknown', '!Unrelated'])
                doc = G.replace_at(doc, p, lambda d: G.with_tag(d, tag))
            if not nested_only and rng.random() < 0.4:
                # ... and on a mapping that is read as a class: the name of a class that the
                # "unrelated class" transformation will register
                try:
                    from props import c17
                    maps = c17.class_map_paths(c.spec, doc, c.doc_type)
                except Exception:  # noqa
                    maps = []
                if maps:
                    p = rng.choice(maps)
                    doc = G.replace_at(doc, p, lambda d: G.with_tag(d, '!Unrelated'))
            if nested_only:
                # ... or NESTED inside an extra attribute: an untagged list / mapping holding a tagged node,
                # also under a key spelt like the catch-all parameter itself
                try:
                    from props import c17
                    maps = c17.class_map_paths(c.spec, doc, c.doc_type)
                except Exception:  # noqa
                    maps = []
                rng.shuffle(maps)
                ctx.count('nested_unrelated_attempts')
                for p in maps[:4]:
                    m = G.get_at_path(doc, p)
                    inner = ('m', [(G.S('zzz_unrelated'), G.S('2'))], '!Unrelated')
                    plain_inner = ('m', [(G.S('zzz_unrelated'), G.S('2'))], None)
                    shape = rng.choice(['list', 'map'])
                    wrap = (lambda x: ('q', [x], None)) if shape == 'list' else (lambda x: ('m', [(G.S('deep'), x)], None))
                    key = rng.choice(['znotes', 'znotes', '_yatiml_extra'])
                    # only where the mapping takes extra attributes: the untagged variant must load
                    probe = G.replace_at(doc, p, lambda d: ('m', list(m[1]) + [(G.S(key), wrap(plain_inner))], m[2]))
                    try:
                        cp = L.build_case(rng, yaml, yatiml, c.spec, c.doc_type, probe, ('probe',))
                        L.run_case(cp, yaml)
                    except Exception:  # noqa
                        continue
                    if cp.real_out[0] != 'ok':
                        ctx.count('nested_unrelated_probe_' + cp.real_out[0])
                        continue
                    doc = G.replace_at(doc, p, lambda d: ('m', list(m[1]) + [(G.S(key), wrap(inner))], m[2]))
                    ctx.count('nested_unrelated_in_extras')
                    break
            try:
                c2 = L.build_case(rng, yaml, yatiml, c.spec, c.doc_type, doc, ('apptags',))
                L.run_case(c2, yaml)
                c = c2
            except Exception:  # noqa
                pass
        cases.append(c)
        LC.record_distribution(ctx, c)
        base = base_outcome(c)
        if base[0] == 'other':
            continue
        which = rng.sample(['keys', 'style', 'style', 'unrelated', 'kinds', 'boolfix'], 3)
        if '!Unrelated' in c.text and 'unrelated' not in which:
            which.append('unrelated')
        if c.desc and c.desc[0] == 'boolfix-directed':
            which = ['boolfix', 'kinds', 'style']
        if keyfault:
            # an attribute in both spellings (the exact one is the attribute, the dashed one an extra
            # attribute): which of the two comes first must not matter
            which = ['keys', 'keys', 'style']
            if c.desc[0] == 'dashed-twin':
                which = ['twinflip', 'keys', 'style']
        for tr in which:
            text2, spec2, t2 = c.text, c.spec, c.doc_type
            extra_cls = []
            if tr == 'keys':
                if c.doc is None or getattr(c, 'shared', False) or '*' in c.text or '&' in c.text:
                    continue        # reordering could put an alias before its anchor
                text2 = G.render(shuffle_class_maps(rng, c.spec, c.doc, c.doc_type))
            elif tr == 'twinflip':
                text2 = G.render(flip_twin(c.doc, c.twin))
                tr = 'keys'
            elif tr == 'style':
                if c.node is None or getattr(c, 'empty', False):
                    continue
                style = rng.choice(['block', 'flow', 'quoted', 'canonical', 'json'])
                try:
                    src = c.node
                    if getattr(c, 'shared', False):
                        # a document with aliases: the rendering writes every alias out as a copy
                        src = tree_copy(yaml, c.node, ())
                        style = 'expanded-' + style
                    text2 = restyle(yaml, src, style.replace('expanded-', ''))
                    n2 = c.real.compose(text2)
                    import nodes as N
                    if n2 is None or N.canon_node(yaml, n2, marks=False) != N.canon_node(yaml, c.node, marks=False):
                        ctx.count('restyle_not_tag_preserving')
                        continue
                except Exception as e:  # noqa
                    ctx.count('restyle_error:' + type(e).__name__)
                    continue
                tr = 'style:' + style
            elif tr == 'unrelated':
                spec2 = c.spec + [dict(name='Unrelated', bases=[], registered=True, kind='plain',
                                       params=[dict(name='zzz_unrelated', type=('int',))], define_init=True)]
            elif tr == 'kinds':
                spec2 = map_spec_types(c.spec, lambda t: swap_kinds(t, rng))
                t2 = swap_kinds(c.doc_type, rng)
                if spec_union_sizes(spec2, t2) != spec_union_sizes(c.spec, c.doc_type):
                    # the interchange would merge two members of a Union (Union[List[int], Sequence[int]]
                    # -> Union[List[int]]): that changes the model's meaning, see DESIGN 7a
                    ctx.count('kinds_skipped:union-members-merge')
                    continue
            elif tr == 'boolfix':
                spec2 = map_spec_types(c.spec, add_fix)
                t2 = add_fix(c.doc_type)
            try:
                if spec2 is c.spec and t2 == c.doc_type:
                    model2, load2 = c.model, c.real.load
                else:
                    model2 = CM.Model(spec2)
                    load2 = yatiml.load_function(model2.py_type(t2), *model2.registered)
                out2 = outcome(model2, load2, yaml, yatiml, text2)
            except Exception as e:  # noqa
                ctx.count('transform_error:' + type(e).__name__)
                continue
            changed = (text2 != c.text) or (spec2 is not c.spec)
            ctx.case((tr, c.text, text2[:200], repr(t2)), nontrivial=changed)
            ctx.count('transform:' + tr.split(':')[0])
            if len(ctx.samples) < 4 and changed:
                ctx.sample(dict(transform=tr, before=c.text[:150], after=text2[:150], outcome=base[0]))
            if out2 != base and tr == 'keys' and out2[0] == 'ok' and base[0] == 'ok':
                # "an equal value": mappings that are not loaded as classes (plain data below Any /
                # _yatiml_extra) compare equal whatever the order of their keys
                try:
                    del c.model.log[:]
                    if canon_value(c.real.load(text2)) == canon_value(c.real_out[1]):
                        ctx.count('keys_equal_up_to_plain_dict_order')
                        continue
                except Exception:  # noqa
                    pass
            if out2 != base:
                ctx.violation('outcome changes under "{}": {} -> {}'.format(tr, str(base)[:150], str(out2)[:150]),
                              dict(L.describe(c), key='{}:{}'.format(tr, c.text[:50]), transformed_text=text2[:600],
                                   transformed_type=repr(t2)))
    LC.correspond(ctx, cases)


def search(ctx, broken):
    explore(ctx)


def replay(ctx, rep):
    import json
    print(json.dumps(rep.get('case', rep), indent=1)[:3000])
    explore(ctx)
    return not ctx.violations
