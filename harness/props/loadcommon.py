"""Shared exploration loop for the loader properties."""
import datetime
import enum
import pathlib
import traceback
from collections import OrderedDict, UserString

import classmodel as CM
import loadgen as G
import loadrun as L
import nodes as N


def corpus_cases(ctx, prop):
    """the hand-written / minimised corpus for a property, as built+run cases"""
    import corpus
    yaml, yatiml = L.setup()
    for e in corpus.for_prop(prop):
        try:
            c = L.Case()
            c.spec = e['spec']
            c.doc_type = e['type']
            c.doc = None
            c.desc = ('corpus',)
            c.model = CM.Model(e['spec'])
            c.real = G.RealLoad(c.model, e['type'], yatiml, yaml)
            c.text = e['text']
            L.run_case(c, yaml)
        except Exception as ex:  # noqa
            ctx.notes.append('corpus case failed to build: {!r}: {}'.format(e['text'], ex))
            continue
        ctx.count('corpus_cases')
        yield c


def add_alias(rng, doc):
    """replace a node by an alias to an earlier, equal-kind node (see props/c18.py)"""
    ps = G.all_paths(doc)
    pairs = [(i, j) for i in range(1, len(ps)) for j in range(i + 1, len(ps))
             if ps[j][:len(ps[i])] != ps[i] and ps[i][:len(ps[j])] != ps[j]]
    if not pairs:
        return None
    scal = [(i, j) for i, j in pairs if G.get_at_path(doc, ps[i])[0] == 's' and G.get_at_path(doc, ps[j])[0] == 's']
    i, j = rng.choice(scal) if (scal and rng.random() < 0.7) else rng.choice(pairs)
    target = G.get_at_path(doc, ps[i])
    if target[0] in ('&', '*'):
        return None
    return G.replace_at(G.replace_at(doc, ps[j], lambda d: ('*', 'y1')), ps[i], lambda d: ('&', 'y1', target))


def gen_cases(ctx, n, mutate_p=0.5, model_filter=None, type_filter=None, post=None, prop=None, alias_p=0.08):
    """yield built+run cases (the corpus of `prop` first)"""
    if prop:
        for c in corpus_cases(ctx, prop):
            yield c
    yaml, yatiml = L.setup()
    rng = ctx.rng
    made = 0
    attempts = 0
    while made < n and attempts < n * 5:
        attempts += 1
        spec, cands = G.gen_model(rng)
        if model_filter and not model_filter(spec):
            continue
        if type_filter:
            cands = [t for t in cands if type_filter(spec, t)]
            if not cands:
                continue
        try:
            t = rng.choice(cands)
            doc = G.gen_doc(rng, spec, t)
            desc = None
            if rng.random() < mutate_p:
                doc, desc = G.mutate(rng, doc, spec)
                if rng.random() < 0.15:
                    doc, d2 = G.mutate(rng, doc, spec)
                    desc = (desc, d2)
            if alias_p and rng.random() < alias_p:
                doc2 = add_alias(rng, doc)
                if doc2 is not None:
                    doc, desc = doc2, (desc, 'alias')
            c = L.build_case(rng, yaml, yatiml, spec, t, doc, desc)
            L.run_case(c, yaml)
        except G.GenFail:
            ctx.count('gen_type_recursion')
            continue
        except Exception as e:  # noqa  a harness problem, not a finding
            ctx.count('gen_error:' + type(e).__name__)
            if ctx.stats.get('gen_error:' + type(e).__name__, 0) <= 2:
                ctx.notes.append('generator error: ' + traceback.format_exc()[-600:])
            continue
        made += 1
        yield c


def alias_across_types(ctx, n):
    """yield cases in which one scalar is anchored at a position of one declared type and used again,
    through an alias, at a position of another (a key reused as a value, a str attribute reused at a
    Path / enum / string-like attribute, an item reused under another union member)"""
    yaml, yatiml = L.setup()
    rng = ctx.rng
    S = G.S
    for _ in range(n):
        enum_c = dict(name='Kind', bases=[], registered=True, kind='enum', members=['a', 'b', 'true'])
        strl = dict(name='Word', bases=[], registered=True, kind=rng.choice(['str', 'userstring', 'yatimlstring']))
        other = rng.choice([('path',), ('cls', 'Kind'), ('cls', 'Word')])
        params = [dict(name='x', type=('str',)), dict(name='y', type=other)]
        holder = dict(name='Holder', bases=[], registered=True, kind='plain', params=params, all_params=params,
                      extra=False, abstract=None, define_init=True)
        spec = [enum_c, strl, holder]
        word = rng.choice(['a', 'b', 'true'] if other == ('cls', 'Kind') else ['a', 'file', 'x y'])
        shape = rng.choice(['key-as-value', 'attr', 'value-as-key', 'list'])
        if shape == 'key-as-value':
            t = ('map', 'dict', ('str',), other)
            doc = ('m', [(('&', 'y1', S(word)), ('*', 'y1')), (S('z'), S(word))], None)
        elif shape == 'value-as-key':
            t = ('map', 'dict', ('cls', 'Word'), ('str',))
            doc = ('m', [(S('k'), ('&', 'y1', S(word))), (('*', 'y1'), S('v'))], None)
        elif shape == 'attr':
            t = ('cls', 'Holder')
            pairs = [(S('x'), ('&', 'y1', S(word))), (S('y'), ('*', 'y1'))]
            if rng.random() < 0.5:
                pairs = [(S('y'), ('&', 'y1', S(word))), (S('x'), ('*', 'y1'))]
            doc = ('m', pairs, None)
        else:
            t = ('seq', 'list', ('union', [('cls', 'Holder'), ('str',)]))
            doc = ('q', [('&', 'y1', S(word)), ('m', [(S('x'), ('*', 'y1')), (S('y'), ('*', 'y1'))], None), ('*', 'y1')], None)
        try:
            c = L.build_case(rng, yaml, yatiml, spec, t, doc, ('alias-across-types', shape))
            L.run_case(c, yaml)
        except Exception as e:  # noqa
            ctx.count('gen_error:' + type(e).__name__)
            continue
        ctx.count('alias_across_types')
        yield c


class CaseBuffer(list):
    """collects cases for the correspondence run and flushes them to the model driver in batches, so that
    a long exploration does not keep every generated class model alive"""
    def __init__(self, ctx, limit=400, label='load'):
        list.__init__(self)
        self.ctx, self.limit, self.label = ctx, limit, label

    def append(self, c):
        list.append(self, c)
        if len(self) >= self.limit:
            self.flush()

    def flush(self):
        if len(self):
            batch = list(self)
            del self[:]
            correspond(self.ctx, batch, self.label, _flushed=True)


def correspond(ctx, cases, label='load', _flushed=False):
    if isinstance(cases, CaseBuffer) and not _flushed:
        cases.flush()
        return
    """run the model on all cases with a request; attach c.m (parsed) and report disagreements"""
    live = [c for c in cases if getattr(c, 'request', None)]
    answers = ctx.driver([c.request for c in live]) if live else []
    for c, a in zip(live, answers):
        c.m = L.parse_answer(c, a)
        ctx.count('correspondence_cases')
        d = L.compare(c, c.m)
        if d:
            ctx.disagree('{}: {}'.format(label, d[:600]), L.describe(c))
    for c in cases:
        if not getattr(c, 'request', None):
            c.m = None
            ctx.count('outside_model:' + ('shared' if getattr(c, 'shared', False) else
                                          'empty' if getattr(c, 'empty', False) else 'unparseable'))


def record_distribution(ctx, c):
    ctx.count('outcome:' + c.real_out[0])
    if c.desc:
        d = c.desc
        while isinstance(d, tuple) and d and not isinstance(d[0], str):
            d = d[0]
        ctx.count('mutation:' + (d[0] if isinstance(d, tuple) and d else 'none'))
        if 'alias' in repr(c.desc):
            ctx.count('with_alias')
    else:
        ctx.count('mutation:none')
    for cl in c.spec:
        if cl.get('savorize') is not None:
            ctx.count('feature:savorize')
        if cl.get('recognize') is not None:
            ctx.count('feature:recognize')
        if cl['bases']:
            ctx.count('feature:inheritance')
        if cl.get('abstract'):
            ctx.count('feature:abstract')
        if cl['kind'] != 'plain':
            ctx.count('feature:' + cl['kind'])
        if cl.get('extra'):
            ctx.count('feature:extra')


# ---- independent conformance oracle (C01) -------------------------------------------------------

def is_plain_data(v):
    if v is None or isinstance(v, (bool, int, float, bytes, datetime.date)):
        return type(v) in (type(None), bool, int, float, bytes, datetime.date, datetime.datetime)
    if type(v) is str:
        return True
    if type(v) is list:
        return all(is_plain_data(x) for x in v)
    if type(v) in (dict, OrderedDict):
        return all(is_plain_data(k) and is_plain_data(x) for k, x in v.items())
    if type(v) is set:
        return all(is_plain_data(x) for x in v)
    return False


def conforms(model, spec_by_name, v, t):
    """does value v conform to type spec t (nested tuples), all the way down?"""
    k = t[0]
    if k == 'str':
        return type(v) is str
    if k == 'int':
        return type(v) is int
    if k == 'float':
        return type(v) is float
    if k in ('bool', 'boolfix'):
        return type(v) is bool
    if k == 'null':
        return v is None
    if k == 'date':
        return type(v) in (datetime.date, datetime.datetime)
    if k == 'path':
        return isinstance(v, pathlib.PurePath)
    if k == 'any':
        return is_plain_data(v)
    if k == 'seq':
        return type(v) is list and all(conforms(model, spec_by_name, x, t[2]) for x in v)
    if k == 'map':
        return type(v) in (dict, OrderedDict) and all(
            conforms(model, spec_by_name, kk, t[2]) and conforms(model, spec_by_name, x, t[3])
            for kk, x in v.items())
    if k == 'union':
        return any(conforms(model, spec_by_name, v, m) for m in t[1])
    if k == 'cls':
        want = model.classes[t[1]]
        if not isinstance(v, want):
            return False
        name = type(v).__name__
        if name not in spec_by_name or type(v) is not model.classes[name]:
            return False
        c = spec_by_name[name]
        if not c.get('registered', True) or is_abstract_spec(spec_by_name, c):
            return False
        if c['kind'] == 'enum':
            return isinstance(v, enum.Enum)
        if c['kind'] in ('str', 'userstring', 'yatimlstring'):
            return True
        for p in c['params']:
            if not hasattr(v, p['name']):
                return False
            val = getattr(v, p['name'])
            has_default = p.get('default', CM.NODEFAULT) is not CM.NODEFAULT
            if has_default and val == p['default'] and type(val) is type(p['default']):
                continue
            pt = p['type'] if p['type'] is not None else ('any',)
            if not conforms(model, spec_by_name, val, pt):
                return False
        if c.get('extra'):
            if not is_plain_data(dict(v._yatiml_extra)):
                return False
        return True
    raise ValueError(t)


def is_abstract_spec(by, c):
    if c.get('abstract'):
        return True
    for b in c['bases']:
        if by[b].get('abstract') == 'method' and not c.get('concretise'):
            return True
    return False
