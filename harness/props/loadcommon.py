"""Shared exploration loop for the loader properties."""
import datetime
import enum
import pathlib
import traceback
from collections import OrderedDict, UserString

import classmodel as CM
import loadgen as G
import loadrun as L
import nodes as N


def corpus_cases(ctx, prop):
    """the hand-written / minimised corpus for a property, as built+run cases"""
    import corpus
    yaml, yatiml = L.setup()
    for e in corpus.for_prop(prop):
        try:
            c = L.Case()
            c.spec = e['spec']
            c.doc_type = e['type']
            c.doc = None
            c.desc = ('corpus',)
            c.model = CM.Model(e['spec'])
            c.real = G.RealLoad(c.model, e['type'], yatiml, yaml)
            c.text = e['text']
            L.run_case(c, yaml)
        except Exception as ex:  # noqa
            ctx.notes.append('corpus case failed to build: {!r}: {}'.format(e['text'], ex))
            continue
        ctx.count('corpus_cases')
        yield c


def add_alias(rng, doc):
    """replace a node by an alias to an earlier, equal-kind node (see props/c18.py)"""
    ps = G.all_paths(doc)
    pairs = [(i, j) for i in range(1, len(ps)) for j in range(i + 1, len(ps))
             if ps[j][:len(ps[i])] != ps[i] and ps[i][:len(ps[j])] != ps[j]]
    if not pairs:
        return None
    scal = [(i, j) for i, j in pairs if G.get_at_path(doc, ps[i])[0] == 's' and G.get_at_path(doc, ps[j])[0] == 's']
    i, j = rng.choice(scal) if (scal and rng.random() < 0.7) else rng.choice(pairs)
    target = G.get_at_path(doc, ps[i])
    if target[0] in ('&', '*'):
        return None
    return G.replace_at(G.replace_at(doc, ps[j], lambda d: ('*', 'y1')), ps[i], lambda d: ('&', 'y1', target))


def gen_cases(ctx, n, mutate_p=0.5, model_filter=None, type_filter=None, post=None, prop=None, alias_p=0.08):
    """yield built+run cases (the corpus of `prop` first)"""
    if prop:
        for c in corpus_cases(ctx, prop):
            yield c
    yaml, yatiml = L.setup()
    rng = ctx.rng
    made = 0
    attempts = 0
    while made < n and attempts < n * 5:
        attempts += 1
        spec, cands = G.gen_model(rng)
        if model_filter and not model_filter(spec):
            continue
        if type_filter:
            cands = [t for t in cands if type_filter(spec, t)]
            if not cands:
                continue
        try:
            t = rng.choice(cands)
            doc = G.gen_doc(rng, spec, t)
            desc = None
            if rng.random() < mutate_p:
                doc, desc = G.mutate(rng, doc, spec)
                if rng.random() < 0.15:
                    doc, d2 = G.mutate(rng, doc, spec)
                    desc = (desc, d2)
            if alias_p and rng.random() < alias_p:
                doc2 = add_alias(rng, doc)
                if doc2 is not None:
                    doc, desc = doc2, (desc, 'alias')
            c = L.build_case(rng, yaml, yatiml, spec, t, doc, desc)
            L.run_case(c, yaml)
        except G.GenFail:
            ctx.count('gen_type_recursion')
            continue
        except Exception as e:  # noqa  a harness problem, not a finding
            ctx.count('gen_error:' + type(e).__name__)
            if ctx.stats.get('gen_error:' + type(e).__name__, 0) <= 2:
                ctx.notes.append('generator error: ' + traceback.format_exc()[-600:])
            continue
        made += 1
        yield c


def inline_aliases(doc, env=None):
    """the document with every alias replaced by a copy of the anchored node (anchors dropped)"""
    env = {} if env is None else env

    def rec(d):
        if d[0] == '&':
            x = rec(d[2])
            env[d[1]] = x
            return x
        if d[0] == '*':
            return env[d[1]]
        if d[0] == 'q':
            return ('q', [rec(x) for x in d[1]], d[2])
        if d[0] == 'm':
            return ('m', [(rec(k), rec(v)) for k, v in d[1]], d[2])
        return d
    return rec(doc)


def strlike_key_grid(ctx):
    """a fixed grid: dicts keyed by a string-like class whose savorize hook replaces the key node, at the
    root, nested in lists, and as a class attribute"""
    yaml, yatiml = L.setup()
    rng = ctx.rng
    S = G.S
    for kind in ('str', 'userstring', 'yatimlstring'):
        for hook in (('replace', 'canon'), ('replace', 'x'), None):
            key = dict(name='Key', bases=[], registered=True, kind=kind)
            if hook:
                key['savorize'] = [hook]
            kt = ('map', 'dict', ('cls', 'Key'), ('int',))
            ps = [dict(name='d', type=kt), dict(name='n', type=('int',), default=0)]
            holder = dict(name='Holder', bases=[], registered=True, kind='plain', params=ps, all_params=ps,
                          extra=False, abstract=None, define_init=True)
            body = ('m', [(S('alpha'), S('1'))] + ([(S('Beta'), S('2'))] if hook != ('replace', 'x') else []), None)
            for t, doc in ((kt, body), (('seq', 'list', kt), ('q', [('m', [], None), body], None)),
                           (('cls', 'Holder'), ('m', [(S('d'), body)], None)),
                           (('map', 'dict', ('str',), kt), ('m', [(S('outer'), body)], None))):
                try:
                    c = L.build_case(rng, yaml, yatiml, [key, holder], t, doc, ('strlike-key-grid', kind))
                    L.run_case(c, yaml)
                except Exception as e:  # noqa
                    ctx.count('gen_error:' + type(e).__name__)
                    continue
                ctx.count('strlike_key_grid')
                yield c


def replacing_base_hooks(ctx):
    """a fixed grid: string-like classes two and three levels deep where a *base* class's savorize hook
    replaces the node (a normalised spelling) and the derived class is the one recognised - at the root, in
    a list, as an attribute, as a dict value and as a dict key"""
    yaml, yatiml = L.setup()
    rng = ctx.rng
    S = G.S
    for kind in ('userstring', 'yatimlstring'):
        for depth in (2, 3):
            for where in ('base', 'mid', 'both'):
                base = dict(name='Base', bases=[], registered=True, kind=kind)
                mid = dict(name='Mid', bases=['Base'], registered=True, kind=kind)
                leaf = dict(name='Leaf', bases=['Mid'], registered=True, kind=kind)
                spec = [base, mid] + ([leaf] if depth == 3 else [])
                if where in ('base', 'both'):
                    base['savorize'] = [('replace', 'canon')]
                if where in ('mid', 'both'):
                    mid['savorize'] = [('replace', 'x')]
                if where == 'mid' and depth == 2:
                    continue        # the hook would be the recognised class's own
                top = 'Leaf' if depth == 3 else 'Mid'
                ps = [dict(name='s', type=('cls', 'Base')), dict(name='n', type=('int',), default=0)]
                holder = dict(name='Holder', bases=[], registered=True, kind='plain', params=ps, all_params=ps,
                              extra=False, abstract=None, define_init=True)
                for t, doc in ((('cls', 'Base'), S('Word')), (('cls', top), S('Word')),
                               (('seq', 'list', ('cls', 'Base')), ('q', [S('One'), S('Two')], None)),
                               (('cls', 'Holder'), ('m', [(S('s'), S('Word'))], None)),
                               (('map', 'dict', ('str',), ('cls', 'Base')), ('m', [(S('k'), S('Word'))], None)),
                               (('map', 'dict', ('cls', 'Base'), ('int',)), ('m', [(S('Word'), S('1'))], None))):
                    try:
                        c = L.build_case(rng, yaml, yatiml, spec + [holder], t, doc,
                                         ('replacing-base-hook', kind, depth, where))
                        L.run_case(c, yaml)
                    except Exception as e:  # noqa
                        ctx.count('gen_error:' + type(e).__name__)
                        continue
                    ctx.count('replacing_base_hooks')
                    yield c


def alias_grid(ctx):
    """a fixed grid (no chance involved): an anchored EMPTY mapping / sequence reused at another declared
    type, with and without a hook that fills in an attribute in place; an anchored mapping reused at the
    same or another type under a hook that swaps two keys (not idempotent)"""
    yaml, yatiml = L.setup()
    rng = ctx.rng
    S = G.S
    P = lambda nm, t, **kw: dict(name=nm, type=t, **kw)   # noqa: E731

    def plain(name, params, **kw):
        return dict(name=name, bases=[], registered=True, kind='plain', params=params, all_params=params,
                    extra=False, abstract=None, define_init=True, **kw)
    out = []
    for hook in (None, [('setmissing', 'v', 1)]):
        for second in (('any',), CM.t_opt(('map', 'dict', ('str',), ('int',))), ('map', 'dict', ('str',), ('cls', 'Opts')),
                       ('cls', 'Opts'), ('seq', 'list', ('int',))):
            for first_is in ('o', 'd'):
                opts = plain('Opts', [P('v', ('int',), default=0)])
                if hook:
                    opts['savorize'] = hook
                holder = plain('Holder2', [P('o', ('cls', 'Opts')), P('d', second)])
                a, b = ('o', 'd') if first_is == 'o' else ('d', 'o')
                doc = ('m', [(S(a), ('&', 'y1', ('m', [], None))), (S(b), ('*', 'y1'))], None)
                out.append(([opts, holder], ('cls', 'Holder2'), doc, ('alias-grid', 'empty', bool(hook), first_is)))
    swap = [('rename', 'width', 'tmp_'), ('rename', 'height', 'width'), ('rename', 'tmp_', 'height')]
    for second in (('cls', 'Size'), ('map', 'dict', ('str',), ('int',)), ('any',)):
        for first_is in ('o', 'd'):
            size = plain('Size', [P('width', ('int',)), P('height', ('int',))], savorize=swap)
            holder = plain('Holder3', [P('o', ('cls', 'Size')), P('d', second)])
            a, b = ('o', 'd') if first_is == 'o' else ('d', 'o')
            target = ('m', [(S('width'), S('1')), (S('height'), S('2'))], None)
            doc = ('m', [(S(a), ('&', 'y1', target)), (S(b), ('*', 'y1'))], None)
            out.append(([size, holder], ('cls', 'Holder3'), doc, ('alias-grid', 'swap', first_is)))
    size = plain('Size', [P('width', ('int',)), P('height', ('int',))], savorize=swap)
    target = ('m', [(S('width'), S('1')), (S('height'), S('2'))], None)
    out.append(([size], ('seq', 'list', ('cls', 'Size')), ('q', [('&', 'y1', target), ('*', 'y1'), ('*', 'y1')], None),
                ('alias-grid', 'swap-list')))
    for spec, t, doc, desc in out:
        try:
            c = L.build_case(rng, yaml, yatiml, spec, t, doc, ('alias-across-types',) + desc)
            L.run_case(c, yaml)
        except Exception as e:  # noqa
            ctx.count('gen_error:' + type(e).__name__)
            continue
        ctx.count('alias_grid')
        yield c


def alias_across_types(ctx, n):
    """yield cases in which one scalar is anchored at a position of one declared type and used again,
    through an alias, at a position of another (a key reused as a value, a str attribute reused at a
    Path / enum / string-like attribute, an item reused under another union member)"""
    yaml, yatiml = L.setup()
    rng = ctx.rng
    S = G.S
    for c in alias_grid(ctx):
        yield c
    for _ in range(n):
        enum_c = dict(name='Kind', bases=[], registered=True, kind='enum', members=['a', 'b', 'true'])
        strl = dict(name='Word', bases=[], registered=True, kind=rng.choice(['str', 'userstring', 'yatimlstring']))
        other = rng.choice([('path',), ('cls', 'Kind'), ('cls', 'Word')])
        params = [dict(name='x', type=('str',)), dict(name='y', type=other)]
        holder = dict(name='Holder', bases=[], registered=True, kind='plain', params=params, all_params=params,
                      extra=False, abstract=None, define_init=True)
        spec = [enum_c, strl, holder]
        word = rng.choice(['a', 'b', 'true'] if other == ('cls', 'Kind') else ['a', 'file', 'x y', ''])
        shape = rng.choice(['key-as-value', 'attr', 'value-as-key', 'list', 'empty-coll'])
        if word == '':
            S = lambda w, _S=G.S: _S(w, True) if w == '' else _S(w)   # noqa: E731
        else:
            S = G.S
        if shape == 'empty-coll':
            # an EMPTY collection anchored at a position of one type and reused at another
            opts = dict(name='Opts', bases=[], registered=True, kind='plain',
                        params=[dict(name='v', type=('int',), default=0)], extra=False, abstract=None,
                        define_init=True)
            opts['all_params'] = opts['params']
            if rng.random() < 0.5:
                # a hook that fills in the attribute in place: must not show through the other use
                opts['savorize'] = [('setmissing', 'v', 1)]
            second = rng.choice([('any',), CM.t_opt(('map', 'dict', ('str',), ('int',))),
                                 ('map', 'dict', ('str',), ('cls', 'Opts')), ('seq', 'list', ('int',))])
            hp = [dict(name='o', type=rng.choice([('cls', 'Opts'), ('seq', 'list', ('str',))])),
                  dict(name='d', type=second)]
            holder2 = dict(name='Holder2', bases=[], registered=True, kind='plain', params=hp, all_params=hp,
                           extra=False, abstract=None, define_init=True)
            spec = [opts, holder2]
            t = ('cls', 'Holder2')
            empty = ('m', [], None) if hp[0]['type'] == ('cls', 'Opts') else ('q', [], None)
            pairs = [(S('o'), ('&', 'y1', empty)), (S('d'), ('*', 'y1'))]
            if rng.random() < 0.5:
                pairs = [(S('d'), ('&', 'y1', empty)), (S('o'), ('*', 'y1'))]
            doc = ('m', pairs, None)
        elif shape == 'key-as-value':
            t = ('map', 'dict', ('str',), other)
            doc = ('m', [(('&', 'y1', S(word)), ('*', 'y1')), (S('z'), S(word))], None)
        elif shape == 'value-as-key':
            t = ('map', 'dict', ('cls', 'Word'), ('str',))
            doc = ('m', [(S('k'), ('&', 'y1', S(word))), (('*', 'y1'), S('v'))], None)
        elif shape == 'attr':
            t = ('cls', 'Holder')
            pairs = [(S('x'), ('&', 'y1', S(word))), (S('y'), ('*', 'y1'))]
            if rng.random() < 0.5:
                pairs = [(S('y'), ('&', 'y1', S(word))), (S('x'), ('*', 'y1'))]
            doc = ('m', pairs, None)
        else:
            t = ('seq', 'list', ('union', [('cls', 'Holder'), ('str',)]))
            doc = ('q', [('&', 'y1', S(word)), ('m', [(S('x'), ('*', 'y1')), (S('y'), ('*', 'y1'))], None), ('*', 'y1')], None)
        try:
            c = L.build_case(rng, yaml, yatiml, spec, t, doc, ('alias-across-types', shape))
            L.run_case(c, yaml)
        except Exception as e:  # noqa
            ctx.count('gen_error:' + type(e).__name__)
            continue
        ctx.count('alias_across_types')
        yield c


def untyped_regions(ctx, n):
    """yield cases whose documents carry tags INSIDE regions that no declared type describes: below an
    Any-typed attribute, among the unknown keys collected into _yatiml_extra, under load_function(Any)
    or List[Any] / Dict[str, Any] — at values and at mapping keys alike, including complex keys"""
    yaml, yatiml = L.setup()
    rng = ctx.rng
    S = G.S
    P = lambda nm, t, **kw: dict(name=nm, type=t, **kw)   # noqa: E731

    def plain(name, params, extra=False, **kw):
        return dict(name=name, bases=[], registered=True, kind='plain', params=params, all_params=params,
                    extra=extra, abstract=None, define_init=True, **kw)
    for _ in range(n):
        spec = [dict(name='Kind', bases=[], registered=True, kind='enum', members=['a', 'b', 'true']),
                dict(name='Word', bases=[], registered=True,
                     kind=rng.choice(['str', 'userstring', 'yatimlstring'])),
                plain('Thing', [P('v', ('int',))]),
                plain('Open', [P('a', ('int',))], extra=True),
                plain('Doc', [P('name', ('str',)), P('payload', ('any',))])]
        loose = plain('Loose', [P('a', ('int',)), P('some_thing', rng.choice([('any',), None]), default=None)],
                      extra=rng.random() < 0.7)
        if rng.random() < 0.3:
            loose['savorize'] = [('d2u',)]
        if rng.random() < 0.4:
            loose['recognize'] = [('rmapping',)]
        spec.append(loose)
        # parameters whose names start with an underscore are attributes like any other
        spec.append(plain('Under', [P('a', ('int',)), P('_payload', rng.choice([('any',), None]), default=None),
                                    P('_count', ('int',), default=0)], extra=rng.random() < 0.5))
        tags = ['!Kind', '!Word', '!Thing', '!Open', '!Doc', '!Path', '!Nowhere', '!!set', '!!binary',
                '!!python/name:os.system', '!!timestamp', '!!str', '!!int']
        body = G.gen_any(rng, 3)
        if body[0] == 's' or rng.random() < 0.5:
            body = ('m', [(S(rng.choice(['a', 'b', 'red'])), G.gen_any(rng, 2)),
                          (S(rng.choice(['c', 'true', '12'])), G.gen_any(rng, 1))], None)
        if body[0] == 'm' and rng.random() < 0.25:
            # a merge key inside the untyped region (that is where PyYAML reads them)
            merged = rng.choice([('m', [(S('mk'), G.gen_any(rng, 1))], None),
                                 ('q', [('m', [(S('mk'), S('1'))], None), ('m', [(S('a'), S('2'))], None)], None),
                                 S('not-a-mapping')])
            body = ('m', [(('s', '<<', False, None), merged)] + list(body[1]), body[2])
        for _k in range(rng.randint(1, 3)):
            ps = G.all_paths(body)
            keys = [p for p in ps if p and p[-1] == 0 and len(p) >= 2]
            p = rng.choice(keys) if keys and rng.random() < 0.6 else rng.choice(ps)
            tag = rng.choice(tags)
            r = rng.random()
            if p in keys and r < 0.25:
                # a complex key: a tagged mapping / sequence as the key
                ck = rng.choice([('m', [(S('v'), S('1'))], '!Thing'), ('q', [S('1')], '!Thing'),
                                 ('m', [(S('a'), S('1')), (S('z'), S('2'))], '!Open')])
                body = G.replace_at(body, p, lambda d: ck)
            else:
                body = G.replace_at(body, p, lambda d: G.with_tag(d, tag) if d[0] in ('s', 'q', 'm') else d)
        shape = rng.choice(['any', 'payload', 'extra', 'list', 'dict', 'dashed-any', 'dup-any', 'dashed-any',
                            'extra-literal', 'underscore-any'])
        if shape == 'extra-literal':
            # a key spelt exactly like the catch-all parameter
            t, doc = ('cls', 'Open'), ('m', [(S('a'), S('1')), (S('_yatiml_extra'), body)] +
                                        ([(S('other'), S('2'))] if rng.random() < 0.5 else []), None)
        elif shape == 'underscore-any':
            t, doc = ('cls', 'Under'), ('m', [(S('a'), S('1')), (S('_payload'), body)] +
                                        ([(S('_count'), rng.choice([S('3'), S('x'), ('s', '3', False, '!Thing')]))]
                                         if rng.random() < 0.5 else []), None)
        elif shape == 'dashed-any':
            t, doc = ('cls', 'Loose'), ('m', [(S('a'), S('1')), (S('some-thing'), body)], None)
        elif shape == 'dup-any':
            t = ('cls', 'Loose')
            first = rng.choice([S('1'), G.gen_any(rng, 1), body])
            k1, k2 = rng.choice([('some_thing', 'some_thing'), ('some-thing', 'some_thing'),
                                 ('some_thing', 'some-thing')])
            doc = ('m', [(S('a'), S('1')), (S(k1), first), (S(k2), body)], None)
        elif shape == 'any':
            t, doc = ('any',), body
        elif shape == 'payload':
            t, doc = ('cls', 'Doc'), ('m', [(S('name'), S('n')), (S('payload'), body)], None)
        elif shape == 'extra':
            t = ('cls', 'Open')
            rest = body[1] if body[0] == 'm' else [(S('more'), body)]
            doc = ('m', [(S('a'), S('1'))] + [(k, v) for k, v in rest
                                               if not (k[0] == 's' and k[1] == 'a')], None)
        elif shape == 'list':
            t, doc = ('seq', 'list', ('any',)), ('q', [body, S('1')], None)
        else:
            t, doc = ('map', 'dict', ('str',), ('any',)), ('m', [(S('k'), body)], None)
        try:
            c = L.build_case(rng, yaml, yatiml, spec, t, doc, ('untyped-region', shape))
            L.run_case(c, yaml)
        except Exception as e:  # noqa
            ctx.count('gen_error:' + type(e).__name__)
            continue
        ctx.count('untyped_region:' + shape)
        yield c


def class_key_faults(ctx, n):
    """yield cases in which the mapping of a class — preferably one with hooks (custom recogniser,
    savorize incl. dashes-to-underscores) or _yatiml_extra — names an attribute twice, or in both its
    underscored and its dashed spelling, or in the dashed spelling with a value of the wrong kind or
    with a tag.  These are the inputs on which the recogniser, the savorizer, the attribute
    processing and the constructor see different key sets."""
    from props import c17
    yaml, yatiml = L.setup()
    rng = ctx.rng
    S = G.S
    made = attempts = 0
    while made < n and attempts < n * 40:
        attempts += 1
        spec, cands = G.gen_model(rng)
        if not any(c.get('recognize') or c.get('savorize') or c.get('extra') for c in spec) \
                and rng.random() < 0.6:
            continue
        try:
            t = rng.choice(cands)
            doc = G.gen_doc(rng, spec, t)
            maps = [p for p in c17.class_map_paths(spec, doc, t) if G.get_at_path(doc, p)[1]]
        except Exception:  # noqa
            continue
        if not maps:
            continue
        und = [p for p in maps if any(k[0] == 's' and '_' in k[1] for k, _ in G.get_at_path(doc, p)[1])]
        q = rng.choice(und) if und else rng.choice(maps)
        if not und and rng.random() < 0.5:
            continue
        m = G.get_at_path(doc, q)
        pairs = list(m[1])
        skeys = [i for i, (k, v) in enumerate(pairs) if k[0] == 's']
        if not skeys:
            continue
        under = [i for i in skeys if '_' in pairs[i][0][1]]
        own = ['!' + c['name'] for c in spec] + ['!Unrelated', '!!set']
        wrong = [S('true'), S('1'), S('zzz'), S('1.5'), S('~'), ('q', [S('a')], None),
                 ('m', [(S('v'), S('1'))], rng.choice(own)), ('s', 'red', False, rng.choice(own))]
        fault = rng.choice(['dup-same', 'dup-other', 'both', 'both-wrong', 'dashed', 'dashed-wrong',
                            'dashed-tagged', 'odd-name-missing', 'bad-scalar'] if under
                           else ['dup-same', 'dup-other', 'odd-name-missing', 'odd-name-missing', 'bad-scalar'])
        i = rng.choice(under if under and not fault.startswith('dup') else skeys)
        k, v = pairs[i]
        dk = S(k[1].replace('_', '-'))
        if fault == 'odd-name-missing':
            # a required key is missing and the mapping has a key with characters that mean something to
            # str.format / % / repr (diagnostics are built from the keys)
            del pairs[i]
            odd = rng.choice(['a}b', '{colour}', '${size}', '%s', '{0}', '{}', 'x{y', 'back\\slash', '%(k)s',
                              'tab\there', "quo'te"])
            pairs.insert(rng.randint(0, len(pairs)), (('s', odd, True, None), S('1')))
        elif fault == 'bad-scalar':
            # an explicitly core-tagged scalar that PyYAML's own constructor refuses, each in its own way
            T2 = '!!'
            pairs[i] = (k, rng.choice([('s', '', True, T2 + 'int'), ('s', 'maybe', False, T2 + 'bool'),
                                       ('s', '_', False, T2 + 'int'), ('s', '', True, T2 + 'bool'),
                                       ('s', 'x', False, T2 + 'float'), ('s', '+', False, T2 + 'int'),
                                       ('s', 'nope', False, T2 + 'timestamp'), ('s', '0x_', False, T2 + 'int')]))
        elif fault == 'dup-same':
            pairs.insert(rng.randint(0, len(pairs)), (k, v))
        elif fault == 'dup-other':
            pairs.insert(rng.randint(0, len(pairs)), (k, rng.choice(wrong)))
        elif fault == 'both':
            pairs.insert(rng.randint(0, len(pairs)), (dk, v))
        elif fault == 'both-wrong':
            pairs.insert(rng.randint(0, len(pairs)), (dk, rng.choice(wrong)))
        elif fault == 'dashed':
            pairs[i] = (dk, v)
        elif fault == 'dashed-wrong':
            pairs[i] = (dk, rng.choice(wrong))
        else:
            pairs[i] = (dk, G.with_tag(v, rng.choice(own)) if v[0] in ('s', 'q', 'm') else v)
        doc2 = G.replace_at(doc, q, lambda d: ('m', pairs, m[2]))
        try:
            c = L.build_case(rng, yaml, yatiml, spec, t, doc2, ('class-key-fault', fault, q))
            L.run_case(c, yaml)
        except Exception as e:  # noqa
            ctx.count('gen_error:' + type(e).__name__)
            continue
        made += 1
        ctx.count('class_key_fault:' + fault)
        yield c


def hierarchy_cases(ctx, n):
    """yield cases for small class hierarchies (a base, subclasses that add required and optional
    attributes, with and without _yatiml_extra, siblings told apart by one attribute) and Unions of
    unrelated classes; the document is written for one chosen class of the hierarchy and then,
    sometimes, loses or gains a key or gets a tag"""
    yaml, yatiml = L.setup()
    rng = ctx.rng
    S = G.S
    scal = [('str',), ('int',), ('bool',), ('float',)]

    def plain(name, bases, inherited, own, extra, abstract=None):
        allp = [dict(p) for p in inherited] + own
        req = [p for p in allp if p.get('default', CM.NODEFAULT) is CM.NODEFAULT]
        optn = [p for p in allp if p.get('default', CM.NODEFAULT) is not CM.NODEFAULT]
        params = req + optn
        return dict(name=name, bases=bases, registered=True, kind='plain', params=params, all_params=params,
                    extra=extra, abstract=abstract, define_init=True)

    def own_params(used, k):
        out = []
        for _ in range(k):
            cand = [a for a in G.ATTRS if a not in used]
            a = rng.choice(cand)
            used.add(a)
            p = dict(name=a, type=rng.choice(scal))
            if rng.random() < 0.25:
                p['default'] = G.gen_default(rng, p['type'])
            out.append(p)
        return out
    made = attempts = 0
    while made < n and attempts < n * 10:
        attempts += 1
        used = set()
        shape = rng.choice(['chain', 'siblings', 'union', 'chain', 'diamond'])
        if shape == 'diamond':
            # Alpha <- Beta, Gamma <- Delta(Beta, Gamma): Delta is reached through both of its bases
            base = plain('Alpha', [], [], own_params(used, rng.randint(0, 1)), False)
            b = plain('Beta', ['Alpha'], base['params'], own_params(used, 1), False)
            g = plain('Gamma', ['Alpha'], base['params'], own_params(used, 1), False)
            own_b = [p for p in b['params'] if p not in base['params']]
            own_g = [p for p in g['params'] if p not in base['params']]
            d = plain('Delta', ['Beta', 'Gamma'], base['params'] + own_b + own_g, own_params(used, rng.randint(0, 1)), False)
            spec = [base, b, g, d]
            rest = [b, g, d]
            rng.shuffle(rest)
            rest.sort(key=lambda c: c['name'] == 'Delta')
            spec = [base] + rest
            t = rng.choice([('cls', 'Alpha'), ('seq', 'list', ('cls', 'Alpha')), ('cls', 'Beta')])
        elif shape == 'union':
            a = plain('Alpha', [], [], own_params(used, rng.randint(1, 2)), rng.random() < 0.6)
            b = plain('Beta', [], [], own_params(used, rng.randint(1, 2)), rng.random() < 0.6)
            spec = [a, b]
            ms = [('cls', 'Alpha'), ('cls', 'Beta')]
            rng.shuffle(ms)
            t = ('union', ms)
        else:
            base = plain('Alpha', [], [], own_params(used, rng.randint(0, 2)), rng.random() < 0.3,
                         abstract=('abc' if rng.random() < 0.15 else None))
            d1 = plain('Beta', ['Alpha'], base['params'], own_params(used, rng.randint(1, 2)), rng.random() < 0.5,
                       abstract=('abc' if rng.random() < 0.3 else None))   # class Beta(Alpha, abc.ABC)
            parent = d1 if shape == 'chain' else base
            d2 = plain('Gamma', [parent['name']], parent['params'], own_params(used, rng.randint(1, 2)),
                       rng.random() < 0.5)
            spec = [base, d1, d2]
            rng.shuffle(spec)
            spec.sort(key=lambda c: len(c['bases']) and (2 if c['bases'][0] != 'Alpha' else 1))
            t = ('cls', 'Alpha')
            if rng.random() < 0.2:
                t = ('seq', 'list', t)
        try:
            target = rng.choice([c['name'] for c in spec if not c.get('abstract')])
            doc = G.gen_doc(rng, spec, ('cls', target))
            absn = [c for c in spec if c.get('abstract')]
            if absn and rng.random() < 0.5:
                # a document written for the abstract class itself (matches it, maybe none of its subclasses)
                target = absn[0]['name']
                doc = ('m', [(S(p['name']), G.scalar_for(rng, p['type'])) for p in absn[0]['params']
                             if p.get('default', CM.NODEFAULT) is CM.NODEFAULT or rng.random() < 0.5], None)
            # gen_doc picks among the concrete descendants of target
            if doc[0] == 'm' and rng.random() < 0.45:
                pairs = list(doc[1])
                r = rng.random()
                if r < 0.45 and pairs:
                    del pairs[rng.randrange(len(pairs))]
                elif r < 0.75:
                    pairs.append((S(rng.choice(['bogus', 'other', 'mode'])), S('3')))
                doc = ('m', pairs, rng.choice([None, None, '!' + rng.choice(spec)['name'], '!Nowhere',
                                               '!<tag:example.org,2020:' + target + '>']) if r >= 0.75 else doc[2])
            if t[0] == 'seq':
                doc = ('q', [doc, G.gen_doc(rng, spec, ('cls', target))], None)
            c = L.build_case(rng, yaml, yatiml, spec, t, doc, ('hierarchy', shape, target))
            L.run_case(c, yaml)
        except G.GenFail:
            continue
        except Exception as e:  # noqa
            ctx.count('gen_error:' + type(e).__name__)
            continue
        made += 1
        ctx.count('hierarchy:' + shape)
        yield c


class CaseBuffer(list):
    """collects cases for the correspondence run and flushes them to the model driver in batches, so that
    a long exploration does not keep every generated class model alive"""
    def __init__(self, ctx, limit=400, label='load'):
        list.__init__(self)
        self.ctx, self.limit, self.label = ctx, limit, label

    def append(self, c):
        list.append(self, c)
        if len(self) >= self.limit:
            self.flush()

    def flush(self):
        if len(self):
            batch = list(self)
            del self[:]
            correspond(self.ctx, batch, self.label, _flushed=True)


def correspond(ctx, cases, label='load', _flushed=False):
    if isinstance(cases, CaseBuffer) and not _flushed:
        cases.flush()
        return
    """run the model on all cases with a request; attach c.m (parsed) and report disagreements"""
    live = [c for c in cases if getattr(c, 'request', None)]
    answers = ctx.driver([c.request for c in live]) if live else []
    for c, a in zip(live, answers):
        c.m = L.parse_answer(c, a)
        ctx.count('correspondence_cases')
        d = L.compare(c, c.m)
        if d:
            ctx.disagree('{}: {}'.format(label, d[:600]), L.describe(c))
    for c in cases:
        if not getattr(c, 'request', None):
            c.m = None
            ctx.count('outside_model:' + ('shared' if getattr(c, 'shared', False) else
                                          'empty' if getattr(c, 'empty', False) else 'unparseable'))


def record_distribution(ctx, c):
    ctx.count('outcome:' + c.real_out[0])
    if c.desc:
        d = c.desc
        while isinstance(d, tuple) and d and not isinstance(d[0], str):
            d = d[0]
        ctx.count('mutation:' + (d[0] if isinstance(d, tuple) and d else 'none'))
        if 'alias' in repr(c.desc):
            ctx.count('with_alias')
    else:
        ctx.count('mutation:none')
    for cl in c.spec:
        if cl.get('savorize') is not None:
            ctx.count('feature:savorize')
        if cl.get('recognize') is not None:
            ctx.count('feature:recognize')
        if cl['bases']:
            ctx.count('feature:inheritance')
        if cl.get('abstract'):
            ctx.count('feature:abstract')
        if cl['kind'] != 'plain':
            ctx.count('feature:' + cl['kind'])
        if cl.get('extra'):
            ctx.count('feature:extra')


# ---- independent conformance oracle (C01) -------------------------------------------------------

def is_plain_data(v):
    if v is None or isinstance(v, (bool, int, float, bytes, datetime.date)):
        return type(v) in (type(None), bool, int, float, bytes, datetime.date, datetime.datetime)
    if type(v) is str:
        return True
    if type(v) is list:
        return all(is_plain_data(x) for x in v)
    if type(v) in (dict, OrderedDict):
        return all(is_plain_data(k) and is_plain_data(x) for k, x in v.items())
    if type(v) is set:
        return all(is_plain_data(x) for x in v)
    return False


def conforms(model, spec_by_name, v, t):
    """does value v conform to type spec t (nested tuples), all the way down?"""
    k = t[0]
    if k == 'str':
        return type(v) is str
    if k == 'int':
        return type(v) is int
    if k == 'float':
        return type(v) is float
    if k in ('bool', 'boolfix'):
        return type(v) is bool
    if k == 'null':
        return v is None
    if k == 'date':
        return type(v) in (datetime.date, datetime.datetime)
    if k == 'path':
        return isinstance(v, pathlib.PurePath)
    if k == 'any':
        return is_plain_data(v)
    if k == 'seq':
        return type(v) is list and all(conforms(model, spec_by_name, x, t[2]) for x in v)
    if k == 'map':
        return type(v) in (dict, OrderedDict) and all(
            conforms(model, spec_by_name, kk, t[2]) and conforms(model, spec_by_name, x, t[3])
            for kk, x in v.items())
    if k == 'union':
        return any(conforms(model, spec_by_name, v, m) for m in t[1])
    if k == 'cls':
        want = model.classes[t[1]]
        if not isinstance(v, want):
            return False
        name = type(v).__name__
        if name not in spec_by_name or type(v) is not model.classes[name]:
            return False
        c = spec_by_name[name]
        if not c.get('registered', True) or is_abstract_spec(spec_by_name, c):
            return False
        if c['kind'] == 'enum':
            return isinstance(v, enum.Enum)
        if c['kind'] in ('str', 'userstring', 'yatimlstring'):
            return True
        for p in c['params']:
            if not hasattr(v, p['name']):
                return False
            val = getattr(v, p['name'])
            has_default = p.get('default', CM.NODEFAULT) is not CM.NODEFAULT
            if has_default and val == p['default'] and type(val) is type(p['default']):
                continue
            pt = p['type'] if p['type'] is not None else ('any',)
            if not conforms(model, spec_by_name, val, pt):
                return False
        if c.get('extra'):
            if not is_plain_data(dict(v._yatiml_extra)):
                return False
        return True
    raise ValueError(t)


def is_abstract_spec(by, c):
    if c.get('abstract'):
        return True
    for b in c['bases']:
        if by[b].get('abstract') == 'method' and not c.get('concretise'):
            return True
    return False
