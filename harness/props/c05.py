"""C05 — loading what was dumped gives back an equal object (YAML round trip)."""
import datetime
import math
from collections import OrderedDict

import classmodel as CM
import dumprun as D
import loadgen as G
import loadrun as L
from props import c06

PROPERTY = 'C05'
LEAN_MODULES = ['YatimlModel.Props.C05', 'YatimlModel.Props.C05RoundTrip', 'YatimlModel.Props.C05Plain',
                'YatimlModel.Props.C05Objects']
THEOREMS = ['YatimlModel.C05.' + t for t in [
    'C05_quoted_strings_stay_strings', 'C05_ints_reread_as_int', 'C05_floats_reread_as_float',
    'C05_bools_nulls_reread', 'C05_enum_roundtrip', 'C05_stringlike_roundtrip', 'C05_dash_under_inverse',
    'C05_plain_data_roundtrip', 'C05_simple_objects_roundtrip']] + [
    'YatimlModel.C05RT.' + t for t in ['C05_node_roundtrip', 'C05_described_node_loads', 'C05_scalars_described',
                                       'C05_string_roundtrip', 'C05_represent_enum', 'C05_represent_stringlike', 'C05_represent_list', 'C05_represent_dict', 'C05_represent_object', 'C05_described_value_unique', 'C05_dump_injective', 'C05_ints_described', 'C05_int_roundtrip', 'ex_represented', 'ex_described',
                                       'C05_example_roundtrip']] + ['YatimlModel.RT_load', 'YatimlModel.constructInt_int']
RULE = ('generated class models whose values are unambiguous under the documented recognition rules '
        '(hierarchy-free, Unions whose members differ in YAML kind, sweeten/savorize only as inverse '
        'pairs) x generated values (adversarial strings that look like numbers, booleans, nulls, dates or '
        'YAML syntax, non-finite floats, dates and datetimes, paths, enum members, string-like objects and '
        'keys, extra attributes, shared sub-objects); load(dumps(value)) must be structurally equal.  '
        'Non-trivial = the value contains a user object, a container, or an adversarial string.'
        ' Directed families: a class with a Dict[<string-like>, V] attribute; three-level'
        ' registered chains with inverse, non-idempotent unit-converting hooks.')
ASSUMPTIONS = ['str(C(s)) == s for the generated string-like classes',
               'PyYAML\'s emitter/scanner round-trip scalar content and quote what would resolve differently']


def translate(ctx):
    return []


def kind_of_type(model, t):
    k = t[0]
    if k in ('str', 'path'):
        return 'str'
    if k == 'cls':
        c = model.by_name_spec[t[1]]
        return 'map' if c['kind'] == 'plain' else 'str'
    if k == 'seq':
        return 'seq'
    if k == 'map':
        return 'map'
    if k in ('bool', 'boolfix'):
        return 'bool'
    return k


def unambiguous_type(model, t):
    k = t[0]
    if k == 'union':
        kinds = [kind_of_type(model, m) for m in t[1] if m != ('boolfix',) or True]
        ks = [x for x in kinds]
        # bool and bool_union_fix together are one kind
        ks = ['bool' if x == 'bool' else x for x in ks]
        dedup = []
        for m, x in zip(t[1], ks):
            if m == ('boolfix',) and ('bool',) in t[1]:
                continue
            dedup.append(x)
            # an enum also accepts scalars spelt like booleans (a member may be called `true`)
            if m[0] == 'cls' and model.by_name_spec[m[1]]['kind'] == 'enum':
                dedup.append('bool')
        if len(set(dedup)) != len(dedup) or 'any' in dedup or 'union' in dedup:
            return False
        return all(unambiguous_type(model, m) for m in t[1])
    if k == 'seq':
        return unambiguous_type(model, t[2])
    if k == 'map':
        key_ok = t[2] == ('str',) or (t[2][0] == 'cls' and model.by_name_spec[t[2][1]]['kind']
                                      in ('str', 'userstring', 'yatimlstring'))
        return key_ok and unambiguous_type(model, t[3])
    if k == 'any':
        return False
    return True


def model_ok(spec):
    for c in spec:
        if c['bases'] or c.get('recognize') or c.get('savorize') or c.get('abstract') or c.get('init_raises'):
            return False
        for p in c.get('params', []):
            if p.get('type') is None:
                return False
    return True


def in_closed_form(spec, t):
    """is (class model, document type) inside the fragment of C05_simple_objects_roundtrip?  Classes: plain /
    enum / string-like, no hooks, no registered bases or subclasses, not abstract; types: str int float bool
    None Path, lists, string-keyed dicts, such classes, Any / untyped, Optional of a non-None type, Unions whose
    members take different kinds of node."""
    by = {c['name']: c for c in spec}
    based = {b for c in spec for b in c.get('bases', [])}
    for c in spec:
        if c.get('recognize') or c.get('savorize') or c.get('sweeten') or c.get('abstract'):
            return False
        if c.get('bases') or c['name'] in based or not c.get('registered', True):
            return False
        if c['kind'] not in ('plain', 'enum', 'str', 'userstring', 'yatimlstring'):
            return False

    def kind(u):
        k = u[0]
        if k in ('str', 'path'):
            return 'str'
        if k in ('int', 'float', 'bool', 'null'):
            return k
        if k == 'seq':
            return 'seq'
        if k == 'map' or (k == 'cls' and by.get(u[1], {}).get('kind') == 'plain'):
            return 'map'
        return None

    def ok(u):
        if u is None or u[0] == 'any':
            return True
        k = u[0]
        if k in ('str', 'int', 'float', 'bool', 'null', 'path'):
            return True
        if k == 'seq':
            return ok(u[2])
        if k == 'map':
            return u[2] == ('str',) and ok(u[3])
        if k == 'cls':
            return u[1] in by
        if k == 'union':
            ms = u[1]
            kinds = [kind(m) for m in ms]
            if any(m[0] in ('union', 'any') for m in ms if m is not None):
                return False
            opt = len(ms) == 2 and ('null',) in ms and all(ok(m) for m in ms)
            return opt or (None not in kinds and len(set(kinds)) == len(kinds) and all(ok(m) for m in ms))
        return False
    return ok(t) and all(ok(p.get('type')) for c in spec for p in c.get('params', []))


def explore(ctx):
    yaml, yatiml = L.setup()
    rng = ctx.rng
    made = 0
    attempts = 0
    target = ctx.budget(500, 12000)
    while made < target and attempts < target * 6:
        attempts += 1
        spec, cands = G.gen_model(rng)
        if not model_ok(spec):
            continue
        # inverse sweeten/savorize pairs on some classes
        for c in spec:
            if c['kind'] == 'plain' and rng.random() < 0.25 and c['params']:
                dashed = [p['name'] for p in c['params'] if '_' in p['name']]
                if dashed:
                    c['sweeten'] = [('u2d',)]
                    c['savorize'] = [('d2u',)]
        strl0 = [c['name'] for c in spec if c['kind'] in ('str', 'userstring', 'yatimlstring')
                 and not c.get('init_raises')]
        if strl0 and rng.random() < 0.4:
            # a class whose attribute is a mapping with string-like keys (checked again by the owner's
            # constructor after the keys were built)
            hp = [dict(name='named', type=('map', rng.choice(['dict', 'mapping', 'mutablemapping']),
                                           ('cls', rng.choice(strl0)),
                                           rng.choice([('int',), ('str',), ('seq', 'list', ('float',))]))),
                  dict(name='label', type=('str',), default='x')]
            spec.append(dict(name='KeyHolder', bases=[], registered=True, kind='plain', params=hp, all_params=hp,
                             extra=False, abstract=None, define_init=True))
            cands = [('cls', 'KeyHolder')] * 4 + list(cands)
        try:
            model = CM.Model(spec)
            cands = [t for t in cands if unambiguous_type(model, t)]
            by = model.by_name_spec
            if not all(unambiguous_type(model, p['type']) for c in spec for p in c.get('params', [])):
                continue
            if not cands:
                continue
            t = rng.choice(cands)
            strlike = [c['name'] for c in spec if c['kind'] in ('str', 'userstring', 'yatimlstring')
                       and not c.get('init_raises')]
            if strlike and rng.random() < 0.4:
                # string-like keys, in several mappings (so that a key object can be shared)
                t = ('seq', 'list', ('map', 'dict', ('cls', rng.choice(strlike)),
                                     rng.choice([('int',), ('str',), ('seq', 'list', ('float',)), t])))
                if not unambiguous_type(model, t):
                    continue
            v = D.gen_value(rng, model, t)
            dumps = yatiml.dumps_function(*model.registered)
            load = yatiml.load_function(model.py_type(t), *model.registered)
        except (D.GenFail, G.GenFail):
            ctx.count('gen_skip')
            continue
        except Exception as e:  # noqa
            ctx.count('gen_error:' + type(e).__name__)
            continue
        # optionally share a sub-object (dumped through an anchor)
        shared = False
        if rng.random() < 0.5 and share_keys(rng, v, model):
            shared = True
            ctx.count('with_shared_key_object')
        if isinstance(v, list) and len(v) >= 1 and isinstance(v[0], (list, dict)) and rng.random() < 0.5:
            v = v + [v[0]]
            shared = True
        made += 1
        ctx.case((repr(v)[:300], repr(t)), nontrivial=True)
        desc = dict(classes=model.source[-3000:], value=repr(v)[:600], doc_type=repr(t))
        try:
            text = dumps(v)
        except Exception as e:  # noqa
            ctx.count('dump_error:' + type(e).__name__)
            continue
        try:
            back = load(text)
            ok = CM.val_sexp(back, model) == CM.val_sexp(v, model) or equal_modulo_nan(back, v, model)
            err = None
        except Exception as e:  # noqa
            back, ok, err = None, False, '{}: {}'.format(type(e).__name__, str(e)[:200].replace('\n', ' / '))
        ctx.count('roundtrips')
        if not shared and in_closed_form(spec, t):
            # inside the fragment for which the round trip is a theorem with no precondition
            ctx.count('roundtrips_inside_closed_form')
        if shared:
            ctx.count('with_shared_subobject')
        if len(ctx.samples) < 3:
            ctx.sample(dict(value=repr(v)[:200], text=text[:300], ok=ok))
        if not ok:
            ctx.violation('load(dumps(v)) {} for v = {!r}'.format(
                'raises ' + err if err else 'gives {!r}'.format(back), v)[:500],
                dict(desc, key='roundtrip:' + first_difference(v, back, model, text)[:80], text=text[:800],
                     loaded=repr(back)[:600], error=err))
    explore_chains(ctx, yaml, yatiml)
    explore_structural(ctx, yaml, yatiml)


def explore_chains(ctx, yaml, yatiml):
    """three registered levels A <- B <- C, each adding a required attribute; A (sometimes B) converts a
    unit on the way out and back on the way in (inverse hooks that are NOT idempotent)"""
    rng = ctx.rng
    P = lambda nm, t, **kw: dict(name=nm, type=t, **kw)   # noqa: E731
    for _ in range(ctx.budget(40, 600)):
        pa = [P('length', ('int',))]
        pb = pa + [P('width', ('int',))]
        pc = pb + [P('label', ('str',))]

        def plain(name, bases, params, **kw):
            return dict(name=name, bases=bases, registered=True, kind='plain', params=params, all_params=params,
                        extra=False, abstract=None, define_init=True, **kw)
        a = plain('Alpha', [], pa, sweeten=[('scale', 'length', 1000)], savorize=[('unscale', 'length', 1000)])
        b = plain('Beta', ['Alpha'], pb)
        if rng.random() < 0.5:
            b['sweeten'] = [('scale', 'width', 10)]
            b['savorize'] = [('unscale', 'width', 10)]
        c = plain('Gamma', ['Beta'], pc)
        if rng.random() < 0.3:
            c['sweeten'] = [('u2d',)]
            c['savorize'] = [('d2u',)]
        spec = [a, b, c]
        try:
            model = CM.Model(spec)
            cls = model.classes[rng.choice(['Alpha', 'Beta', 'Gamma', 'Gamma'])]
            kw = dict(length=rng.randint(0, 50), width=rng.randint(0, 50), label=rng.choice(['x', '1', 'true']))
            import inspect
            names = [n for n in inspect.getfullargspec(cls.__init__).args if n != 'self']
            v = cls(**{k: kw[k] for k in names})
            regs = list(model.registered)
            rng.shuffle(regs)
            dumps = yatiml.dumps_function(*regs)
            load = yatiml.load_function(model.classes['Alpha'], *regs)
            text = dumps(v)
            back = load(text)
            ok = CM.val_sexp(back, model) == CM.val_sexp(v, model)
            err = None
        except Exception as e:  # noqa
            ok, err, back, text = False, '{}: {}'.format(type(e).__name__, str(e)[:200]), None, ''
        ctx.case(('chain', repr(v) if err is None else err), nontrivial=True)
        ctx.count('chain_roundtrips')
        if not ok:
            ctx.violation('load(dumps(v)) {} for v = {!r} (three-level hierarchy with inverse unit-converting '
                          'hooks)'.format('raises ' + err if err else 'gives {!r}'.format(back), v)[:500],
                          dict(key='roundtrip-chain:' + type(v).__name__, classes=model.source[-2500:],
                               text=text[:600], loaded=repr(back)[:300], error=err))


STRUCTURAL_SRC = '''
import yatiml
from collections import OrderedDict
from typing import Any, Dict, List, Optional, Union

class _Eq:
    def __eq__(self, o): return type(o) is type(self) and vars(o) == vars(self)
    def __repr__(self): return type(self).__name__ + repr(vars(self))

class Employee(_Eq):
    def __init__(self, name: str, roles: {VT}{EXTRA}) -> None:
        self.name = name
        self.roles = roles{EXTRA_SET}

class Company(_Eq):
    def __init__(self, staff: {CT}) -> None:
        self.staff = staff
    @classmethod
    def _yatiml_recognize(cls, node: yatiml.UnknownNode) -> None:
        # recognition runs before savorizing: the sweetened form needs a recogniser of its own
        node.require_attribute('staff')
    @classmethod
    def _yatiml_sweeten(cls, node: yatiml.Node) -> None:
        node.{SWEETEN}('staff', 'name', {VA})
    @classmethod
    def _yatiml_savorize(cls, node: yatiml.Node) -> None:
        node.{SAVORIZE}('staff', 'name', {VA})

class Box(_Eq):
    def __init__(self, width: int = 1, height: int = 2, _yatiml_extra: Optional[OrderedDict] = None) -> None:
        self.width = width
        self.height = height
        self._yatiml_extra = _yatiml_extra if _yatiml_extra is not None else OrderedDict()
    @classmethod
    def _yatiml_sweeten(cls, node: yatiml.Node) -> None:
        node.remove_attributes_with_default_values(cls)

class Part(_Eq):
    def __init__(self, count: int, spare: int = 5, label: str = 'x',
                 _yatiml_extra: Optional[OrderedDict] = None) -> None:
        self.count = count
        self.spare = spare
        self.label = label
        self._yatiml_extra = _yatiml_extra if _yatiml_extra is not None else OrderedDict()
    @classmethod
    def _yatiml_sweeten(cls, node: yatiml.Node) -> None:
        node.remove_attributes_with_default_values(cls)

class Knob(_Eq):
    # defaults of one type in positions that also take strings: a string that *spells* the default is
    # not the default
    def __init__(self, level: Union[int, str] = 5, tag: Optional[str] = None,
                 ratio: Union[float, str] = 1.5, flag: Union[bool, str] = True) -> None:
        self.level = level
        self.tag = tag
        self.ratio = ratio
        self.flag = flag
    @classmethod
    def _yatiml_sweeten(cls, node: yatiml.Node) -> None:
        node.remove_attributes_with_default_values(cls)
'''


def explore_structural(ctx, yaml, yatiml):
    """hand-written classes whose hooks are the documented inverse pairs of the structural transforms
    (index <-> map, seq <-> map, with list / scalar value attributes, short and long forms) and classes
    that drop defaulted attributes on the way out (with a defaulted _yatiml_extra)"""
    from collections import OrderedDict
    rng = ctx.rng
    for kind in ('index', 'seq'):
        for vt, mk in (('List[str]', lambda: rng.sample(['Director', 'Sales', 'Ops'], rng.randint(0, 3))),
                       ('str', lambda: rng.choice(['boss', '12', 'true'])), ('int', lambda: rng.randint(0, 9))):
            for va in ("'roles'", 'None'):
                for extra in (False, True):
                    src = STRUCTURAL_SRC.format(
                        VT=vt, VA=va, EXTRA=', grade: int = 0' if extra else '',
                        EXTRA_SET='\n        self.grade = grade' if extra else '',
                        CT='Dict[str, Employee]' if kind == 'index' else 'List[Employee]',
                        SWEETEN='index_attribute_to_map' if kind == 'index' else 'seq_attribute_to_map',
                        SAVORIZE='map_attribute_to_index' if kind == 'index' else 'map_attribute_to_seq')
                    ns = {}
                    try:
                        exec(src, ns)
                        dumps = yatiml.dumps_function(ns['Company'], ns['Employee'])
                        load = yatiml.load_function(ns['Company'], ns['Employee'])
                    except Exception as e:  # noqa
                        ctx.count('structural_gen_error:' + type(e).__name__)
                        continue
                    for _ in range(ctx.budget(2, 10)):
                        names = rng.sample(['Mary', 'Bo', 'x y', '12'], rng.randint(0, 3))
                        emps = [ns['Employee'](n, mk(), *([rng.randint(0, 2)] if extra else [])) for n in names]
                        v = ns['Company'](OrderedDict((e.name, e) for e in emps) if kind == 'index' else emps)
                        try:
                            text = dumps(v)
                            back = load(text)
                            if kind == 'index' and isinstance(back.staff, dict):
                                back.staff = OrderedDict(back.staff)
                            ok, err = back == v, None
                        except Exception as e:  # noqa
                            ok, err, back, text = False, '{}: {}'.format(type(e).__name__, str(e)[:160]), None, locals().get('text', '')
                        ctx.case(('structural', kind, vt, va, extra, repr(v)[:120]), nontrivial=True)
                        ctx.count('structural_roundtrips')
                        if not ok:
                            ctx.violation('load(dumps(v)) {} for v = {!r} ({} <-> map hooks, value attribute {} of type {})'.format(
                                'raises ' + err if err else 'gives {!r}'.format(back), v, kind, va, vt)[:500],
                                dict(key='roundtrip-structural:{}:{}:{}'.format(kind, vt, va), classes=src[-1800:], text=text[:400]))
                            break
    src = STRUCTURAL_SRC.format(VT='str', VA='None', EXTRA='', EXTRA_SET='', CT='List[Employee]',
                                SWEETEN='seq_attribute_to_map', SAVORIZE='map_attribute_to_seq')
    ns = {}
    exec(src, ns)
    dumps = yatiml.dumps_function(ns['Box'], ns['Part'], ns['Knob'])
    vals = [ns['Knob'](lv, tg, rt, fl) for lv, tg, rt, fl in
            [(5, None, 1.5, True), ('5', None, 1.5, True), (5, 'None', 1.5, True), (5, None, '1.5', True),
             (5, None, 1.5, 'True'), (5, 'null', 1.5, 'true'), ('5', 'None', '1.5', 'True'), (6, '', 2.5, False),
             (5, '~', 1.5, True), ('05', None, '1.50', 'yes')]] + [ns['Box'](w, h) for w in (1, 2, 3) for h in (1, 2, 3)] + \
        [ns['Box'](2, 3, OrderedDict(note=1))] + \
        [ns['Part'](c, sp, lb) for c in (0, 5) for sp in (5, 0) for lb in ('x', 'y', '5')]
    for v in vals:
        load = yatiml.load_function(type(v), ns['Box'], ns['Part'], ns['Knob'])
        try:
            text = dumps(v)
            back = load(text)
            ok, err = back == v, None
        except Exception as e:  # noqa
            ok, err, back, text = False, '{}: {}'.format(type(e).__name__, str(e)[:160]), None, locals().get('text', '')
        ctx.case(('defaults-dropped', repr(v)), nontrivial=True)
        ctx.count('defaults_roundtrips')
        if not ok:
            ctx.violation('load(dumps(v)) {} for v = {!r} (defaulted attributes dropped by sweeten, defaulted '
                          '_yatiml_extra)'.format('raises ' + err if err else 'gives {!r}'.format(back), v)[:500],
                          dict(key='roundtrip-defaults:' + type(v).__name__, text=text[:300]))
            break


def all_dicts(v, acc, seen):
    if id(v) in seen:
        return
    seen.add(id(v))
    if isinstance(v, dict):
        acc.append(v)
        for x in v.values():
            all_dicts(x, acc, seen)
    elif isinstance(v, (list, tuple)):
        for x in v:
            all_dicts(x, acc, seen)
    elif hasattr(v, '__dict__') and not isinstance(v, type):
        for x in vars(v).values():
            all_dicts(x, acc, seen)


def share_keys(rng, v, model):
    """make two dicts use the very same string-like object as a key (PyYAML then writes an anchor on a key)"""
    from collections import UserString
    dicts = []
    all_dicts(v, dicts, set())
    cands = []
    for i, d in enumerate(dicts):
        for k in d:
            if isinstance(k, (UserString,)) or (isinstance(k, str) and type(k) is not str):
                cands.append((i, k))
    rng.shuffle(cands)
    for i, k in cands:
        for j, d2 in enumerate(dicts):
            if j == i or not d2:
                continue
            k2 = next(iter(d2))
            if type(k2) is type(k) and k2 is not k and k not in d2:
                items = list(d2.items())
                d2.clear()
                for kk, vv in items:
                    d2[k if kk is k2 else kk] = vv
                return True
    return False


def equal_modulo_nan(a, b, model):
    return CM.val_sexp(a, model).replace(CM.hexs('nan'), 'N') == CM.val_sexp(b, model).replace(CM.hexs('nan'), 'N')


def first_difference(v, back, model, text):
    """a short stable key for the failing ingredient (a scalar spelling if there is one)"""
    import re
    for s in D.STRINGS:
        if isinstance(v, (list, dict)) or True:
            if s and repr(s)[1:-1] in repr(v) and s in ('1e5', '1E+5', '+.1', '1.5e3', '.inf', '.nan', '1.5', '1.'):
                return 'string:' + s
    return repr(v)[:60]


def search(ctx, broken):
    explore(ctx)


def replay(ctx, rep):
    import json
    print(json.dumps(rep.get('case', rep), indent=1)[:3000])
    explore(ctx)
    return not ctx.violations
