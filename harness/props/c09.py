"""C09 — plain scalars are typed by YAML 1.2 rules for booleans and floats."""
import itertools
import math
import re

from common import hexs, use_repo
import translate_resolvers
import translate_tags

PROPERTY = 'C09'
LEAN_MODULES = ['YatimlModel.Props.C09']
THEOREMS = ['YatimlModel.C09.' + t for t in [
    'C09_bool_iff', 'C09_float_iff', 'C09_bool_iff_plain', 'C09_float_iff_plain', 'C09_bool_iff_lang', 'C09_float_iff_lang',
    'C09_bool_constructs', 'C09_float_constructs', 'C09_yaml11_not',
    'C09_positive_instances', 'C09_other_tags_unchanged']]
RULE = ('strings: all strings up to a length bound over the number/boolean alphabet, every '
        'single-character edit of the corpus spellings, random longer strings; each is resolved by '
        'the real Loader instance and by the Lean model (compared), checked against an independent '
        'Python rendering of the YAML 1.2 rules, constructed with the real constructor, and, when '
        'it scans as one plain scalar, loaded end to end.  Non-trivial = the string resolves to a '
        'non-str tag on either side or is within one edit of such a string.'
        ' Also: Node.get_value() agrees with the constructed value for every string that resolves'
        ' to bool / float; boolean- and float-looking scalars at positions where one Union member'
        ' has an enum and another a bool / Any, judged by the reference pipeline.')
ASSUMPTIONS = [
    'CPython re.match on the admitted regex constructs matches iff the modelled language says so',
    'PyYAML BaseResolver.resolve looks up the bucket of value[0] (or "") and then the wildcard bucket',
    'plain scalars do not end in a line feed (Python $ would also match before it)',
]

ALPHABET = list('019.eE+-_:xbotrufalsTFnN~iIyY ')
CORPUS = ['true', 'True', 'TRUE', 'false', 'False', 'FALSE', 'yes', 'no', 'on', 'off', 'y', 'n',
          'Yes', 'NO', 'On', 'OFF', 'tRUE', 'trueish', 'falsetto', 'true ', ' true', 'truetrue',
          '1.5', '.5', '1.', '1e5', '1E5', '1.e5', '1.5e3', '1.5E+3', '1.5e-3', '-1.5', '+1.5',
          '+.5', '-.5', '.inf', '-.inf', '+.inf', '.Inf', '.INF', '.nan', '.NaN', '.NAN', '-.nan',
          '.iNF', '.nAN', 'inf', 'nan', '1_000.5', '1:30.5', '1.2.3', '1.5x', '1e', '.e5', 'e5',
          '1.5e', '1.5e+', '0x1F', '017', '0b101', '1:30', '190:20:30', '1_000', '0', '-0', '12',
          '0.', '00.5', '1e05', '1e+', '--1.5', '+-1.5', '1..5', '.', '..', '+.', '-', '+', '~',
          'null', 'Null', 'NULL', '', '2001-01-01', '2001-01-01 12:00:00', '<<', '=', '1.0\n',
          'true\n', '1.5 ', '1,5', '1.5f', 'Infinity', '.infinity', '.nano', '1e5.5', '5.', '5.e',
          '0.0', '-0.0', '1e400', '1e-400', '9' * 25 + '.5', '0.' + '0' * 30 + '1']

SPEC_BOOL = {'true', 'True', 'TRUE', 'false', 'False', 'FALSE'}
# YAML 1.2.2 core schema, 10.3.2: float (the int alternative is excluded)
SPEC_FLOAT_NUM = re.compile(r'[-+]?(\.[0-9]+|[0-9]+(\.[0-9]*)?)([eE][-+]?[0-9]+)?\Z')
SPEC_INT = re.compile(r'[-+]?[0-9]+\Z')
SPEC_INF = re.compile(r'[-+]?\.(inf|Inf|INF)\Z')
SPEC_NAN = re.compile(r'[-+]?\.(nan|NaN|NAN)\Z')   # sign admitted: reading fixed in DESIGN 7a

BOOL_TAG = 'tag:yaml.org,2002:bool'
FLOAT_TAG = 'tag:yaml.org,2002:float'


def spec_kind(s):
    if s in SPEC_BOOL:
        return 'bool'
    if SPEC_INF.match(s) or SPEC_NAN.match(s):
        return 'float'
    if SPEC_FLOAT_NUM.match(s) and not SPEC_INT.match(s):
        return 'float'
    return 'other'


def spec_float_value(s):
    if SPEC_INF.match(s):
        return -math.inf if s[0] == '-' else math.inf
    if SPEC_NAN.match(s):
        return math.nan
    return float(s)


def same_float(a, b):
    if isinstance(a, float) and isinstance(b, float):
        if math.isnan(a) or math.isnan(b):
            return math.isnan(a) and math.isnan(b)
        return a == b and math.copysign(1, a) == math.copysign(1, b)
    return False


def translate(ctx):
    return translate_resolvers.generate() + translate_tags.generate()


def edits(s, alphabet):
    out = set()
    for i in range(len(s) + 1):
        for c in alphabet:
            out.add(s[:i] + c + s[i:])
    for i in range(len(s)):
        out.add(s[:i] + s[i + 1:])
        for c in alphabet:
            out.add(s[:i] + c + s[i + 1:])
    return out


def gen_strings(ctx, maxlen, nrandom):
    seen = set()
    out = []

    def add(s):
        if s not in seen:
            seen.add(s)
            out.append(s)
    for s in CORPUS:
        add(s)
    for n in range(0, maxlen + 1):
        for t in itertools.product(ALPHABET, repeat=n):
            add(''.join(t))
    extra = ALPHABET + ['\n', 'é', '５', '٣', 'İ', 'ſ', 'K', 'A', 'R', 'U', 'L', 'S', 'c', 'd', '7']
    for s in CORPUS:
        for e in sorted(edits(s, extra)):
            add(e)
    rng = ctx.rng
    pieces = ['1', '9', '0', '.', 'e', 'E', '+', '-', '_', ':', 'true', 'false', 'True', 'FALSE',
              '.inf', '.nan', '.NaN', 'x', ' ', '12', '.5', 'e5', 'E-3', 'inf', 'nan', 'yes', 'on']
    for _ in range(nrandom):
        k = rng.randint(2, 9)
        add(''.join(rng.choice(pieces) for _ in range(k)))
    return out


class Real:
    def __init__(self):
        use_repo()
        import yaml
        import yatiml
        self.yaml = yaml
        self.yatiml = yatiml
        self.load = yatiml.load_function()
        self.inst = self.load.loader('')

    def resolve(self, s):
        return self.inst.resolve(self.yaml.ScalarNode, s, (True, False))

    def construct(self, tag, s):
        inst = self.load.loader('')
        node = self.yaml.ScalarNode(tag, s)
        try:
            return ('ok', inst.construct_object(node, deep=True))
        except Exception as e:  # noqa
            return ('exc', type(e).__name__)

    def plain_scalar(self, s):
        """True if the text `s` scans as a single plain scalar with value s."""
        try:
            evs = list(self.yaml.parse(s, Loader=self.yaml.SafeLoader))
        except Exception:
            return False
        sc = [e for e in evs if isinstance(e, self.yaml.ScalarEvent)]
        other = [e for e in evs if isinstance(e, (self.yaml.MappingStartEvent,
                                                  self.yaml.SequenceStartEvent,
                                                  self.yaml.AliasEvent))]
        return (len(sc) == 1 and not other and sc[0].style is None and sc[0].value == s
                and sc[0].tag is None and sc[0].anchor is None)

    def load_text(self, s):
        try:
            return ('ok', self.load(s))
        except Exception as e:
            return ('exc', type(e).__name__)


def check_strings(ctx, strings, real, tag='main'):
    answers = ctx.driver(['resolve L ' + hexs(s) for s in strings])
    for s, model_tag in zip(strings, answers):
        real_tag = real.resolve(s)
        kind = spec_kind(s)
        nontrivial = (real_tag != 'tag:yaml.org,2002:str' or model_tag != 'tag:yaml.org,2002:str'
                      or kind != 'other')
        ctx.case(s, nontrivial)
        ctx.count('correspondence_cases')
        ctx.count('resolved:' + real_tag.split(':')[-1])
        if model_tag != real_tag:
            ctx.disagree('model resolves {!r} to {}, Loader.resolve to {}'.format(s, model_tag, real_tag),
                         dict(string=s, model=model_tag, real=real_tag))
        if s.endswith('\n'):
            ctx.count('skipped_oracle_trailing_newline')
            continue
        # --- the property itself, on the real code ---
        got = 'bool' if real_tag == BOOL_TAG else 'float' if real_tag == FLOAT_TAG else 'other'
        if got != kind:
            ctx.violation('{!r} resolves as {} but YAML 1.2 says {}'.format(s, got, kind),
                          dict(key='resolve:' + s, string=s, resolved=real_tag, spec=kind))
            continue
        # what resolves also constructs, with the right value
        if got in ('bool', 'float'):
            st, val = real.construct(real_tag, s)
            ctx.count('constructed')
            if st != 'ok':
                ctx.violation('{!r} resolves as {} but constructing raises {}'.format(s, got, val),
                              dict(key='construct:' + s, string=s, resolved=real_tag, raised=val))
            elif got == 'bool' and val is not (s.lower() == 'true'):
                ctx.violation('{!r} constructs {!r}'.format(s, val), dict(key='value:' + s, string=s))
            elif got == 'float' and not same_float(val, spec_float_value(s)):
                ctx.violation('{!r} constructs {!r}, float() gives {!r}'.format(
                    s, val, spec_float_value(s)), dict(key='value:' + s, string=s))
            elif st == 'ok':
                # the seasoning API's view of the same scalar (Node.get_value) is the constructed value
                try:
                    gv = ('ok', real.yatiml.Node(real.yaml.ScalarNode(real_tag, s)).get_value())
                except Exception as e:  # noqa
                    gv = ('exc', type(e).__name__)
                ctx.count('get_value_checked')
                if gv[0] != 'ok' or type(gv[1]) is not type(val) or not (
                        gv[1] == val or (isinstance(val, float) and same_float(gv[1], val))):
                    ctx.violation('{!r} resolves as {} and constructs {!r}, but Node.get_value() gives {} {!r}'.format(
                        s, got, val, gv[0], gv[1]), dict(key='get_value:' + s, string=s))
        # end to end
        if real.plain_scalar(s):
            ctx.count('end_to_end')
            st, val = real.load_text(s)
            if kind == 'bool':
                ok = st == 'ok' and val is (s.lower() == 'true')
            elif kind == 'float':
                ok = st == 'ok' and same_float(val, spec_float_value(s))
            else:
                # which exception a non-bool/non-float scalar may raise is C08's business
                ok = st == 'exc' or not isinstance(val, (bool, float))
            if not ok:
                ctx.violation('loading the plain scalar {!r} gives {} {!r}, YAML 1.2 kind {}'.format(
                    s, st, val, kind), dict(key='load:' + s, string=s, outcome=[st, repr(val)], spec=kind))


def explore_typed(ctx):
    """boolean- / float-looking plain scalars at positions where a type model has a say: an attribute
    that is an enum in one Union member and a bool / Any in another; judged by the reference pipeline"""
    import loadgen as G
    import loadrun as L
    from props import c02
    yaml, yatiml = L.setup()
    rng = ctx.rng
    P = lambda nm, t, **kw: dict(name=nm, type=t, **kw)   # noqa: E731

    def plain(name, params):
        return dict(name=name, bases=[], registered=True, kind='plain', params=params, all_params=params,
                    extra=False, abstract=None, define_init=True)
    spec = [dict(name='Mode', bases=[], registered=True, kind='enum', members=['true', 'false', 'on', 'yes']),
            plain('Job', [P('mode', ('cls', 'Mode')), P('retries', ('int',))]),
            plain('Switch', [P('mode', ('bool',)), P('name', ('str',))]),
            dict(name='Label', bases=[], registered=True, kind=rng.choice(['str', 'userstring', 'yatimlstring']))]
    anymap = ('map', 'dict', ('str',), ('any',))
    types = [('union', [('cls', 'Job'), anymap]), ('union', [anymap, ('cls', 'Job')]),
             ('union', [('cls', 'Job'), ('cls', 'Switch')]), ('seq', 'list', ('union', [('cls', 'Job'), anymap])),
             anymap, ('any',), ('union', [('cls', 'Mode'), ('bool',)]), ('union', [('cls', 'Mode'), ('float',)]),
             ('union', [('bool',), ('cls', 'Label')]), ('union', [('cls', 'Label'), ('float',)]),
             ('seq', 'list', ('union', [('bool',), ('cls', 'Label')])), ('cls', 'Label')]
    keyed = ('map', 'dict', ('cls', 'Label'), ('int',))
    XS = ['true', 'True', 'TRUE', 'false', 'False', 'yes', 'on', 'off', 'no', 'y', 'Yes', '1', '1.5', '.5', '1e5',
          '.inf', '-.INF', '.nan', '1_000.5', '1:30.5', '~', 'null', 'trueish', '1.2.3', '+.1', '1.']
    S = G.S
    for t in types:
        for x in XS:
            docs = [('m', [(S('mode'), S(x))], None), ('m', [(S('mode'), S(x)), (S('name'), S('n'))], None),
                    ('m', [(S('mode'), S(x)), (S('retries'), S('1'))], None),
                    ('m', [(S('mode'), S(x)), (S('retries'), S('1.5'))], None)]
            if t[0] == 'seq':
                docs = [('q', [d], None) for d in docs[:2]] + [('q', docs[2:], None)]
            if t[0] == 'union' and t[1][0] == ('cls', 'Mode') or t == ('any',):
                docs = docs[:1] + [S(x)]
            if ('cls', 'Label') in (t, ) + tuple(t[1] if t[0] == 'union' else ()):
                docs = [S(x)]
            if t[0] == 'seq' and t[2][0] == 'union' and ('cls', 'Label') in t[2][1]:
                docs = [('q', [S(x), S('a')], None)]
            for d in docs:
                try:
                    c = L.build_case(rng, yaml, yatiml, spec, t, d, ('typed-scalars',))
                    L.run_case(c, yaml)
                except Exception as e:  # noqa
                    ctx.count('typed_build_error:' + type(e).__name__)
                    continue
                ctx.case(('typed', c.text, repr(t)), nontrivial=True)
                ctx.count('typed_cases')
                c02.judge(ctx, c, yaml, yatiml, 'typed-scalars')
    # string-like keys spelt like booleans / floats
    for x in XS:
        try:
            c = L.build_case(rng, yaml, yatiml, spec, keyed, ('m', [(S(x), S('1'))], None), ('typed-scalars',))
            L.run_case(c, yaml)
        except Exception as e:  # noqa
            ctx.count('typed_build_error:' + type(e).__name__)
            continue
        ctx.case(('typed', c.text, repr(keyed)), nontrivial=True)
        ctx.count('typed_cases')
        c02.judge(ctx, c, yaml, yatiml, 'typed-scalars')


def explore(ctx):
    explore_typed(ctx)
    real = Real()
    strings = gen_strings(ctx, ctx.budget(3, 4), ctx.budget(4000, 60000))
    for s in strings[:3] + [x for x in strings if spec_kind(x) != 'other'][:5]:
        ctx.sample(dict(string=s, real=real.resolve(s), spec=spec_kind(s)), limit=8)
    check_strings(ctx, strings, real)
    ctx.stats['alphabet'] = ''.join(ALPHABET)
    ctx.stats['exhaustive_up_to_length'] = ctx.budget(3, 4)


def search(ctx, broken):
    """After a proof/correspondence break: look harder for a string on which the real code
    breaks the YAML 1.2 rules."""
    real = Real()
    small = list('01.eE+-_:tTrufalsnNyYiIxo ')
    seen = set()
    strings = []
    for n in range(0, 5):
        for t in itertools.product(small if n >= 4 else ALPHABET, repeat=n):
            s = ''.join(t)
            if s not in seen:
                seen.add(s)
                strings.append(s)
    for s in CORPUS:
        for e in edits(s, ALPHABET):
            for e2 in (e + 'x', 'x' + e, e + '0', e + ' '):
                if e2 not in seen:
                    seen.add(e2)
                    strings.append(e2)
    ctx.notes.append('intensified search over {} strings'.format(len(strings)))
    try:
        check_strings(ctx, strings, real, 'search')
    except Exception as e:  # driver may be unavailable: fall back to the oracle alone
        ctx.notes.append('search without model: {}'.format(e))
        for s in strings:
            if s.endswith('\n'):
                continue
            real_tag = real.resolve(s)
            got = 'bool' if real_tag == BOOL_TAG else 'float' if real_tag == FLOAT_TAG else 'other'
            ctx.case(s)
            if got != spec_kind(s):
                ctx.violation('{!r} resolves as {} but YAML 1.2 says {}'.format(s, got, spec_kind(s)),
                              dict(key='resolve:' + s, string=s, resolved=real_tag))
                break


def replay(ctx, rep):
    real = Real()
    s = rep['case']['string'] if 'case' in rep else rep['string']
    real_tag = real.resolve(s)
    got = 'bool' if real_tag == BOOL_TAG else 'float' if real_tag == FLOAT_TAG else 'other'
    print('string {!r}: resolves to {}, YAML 1.2 kind {}'.format(s, real_tag, spec_kind(s)))
    if got != spec_kind(s):
        return False
    if got != 'other':
        st, val = real.construct(real_tag, s)
        print('constructs', st, repr(val))
        if st != 'ok':
            return False
    return True
