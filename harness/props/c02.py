"""C02 — load accepts exactly what the documented pipeline admits and builds that value."""
import itertools

import classmodel as CM
import loadgen as G
import loadrun as L
import pipeline_oracle as PO
from props import loadcommon as LC

PROPERTY = 'C02'
LEAN_MODULES = ['YatimlModel.Props.C02']
THEOREMS = ['YatimlModel.C02.' + t for t in [
    'C02_recognised_iff_matches', 'C02_recognition_unique_or_error', 'C02_not_matching_rejected',
    'C02_loaded_matches', 'C02_builtin_exact', 'C02_list_elementwise', 'C02_dict_elementwise', 'C02_class_rule',
    'C02_attr_dashed_standin', 'C02_enum_stringlike_rule', 'C02_attributes_checked',
    'C02_defaults_not_passed', 'C02_extras_ordered_plain']] + ['YatimlModel.recognizeReq_iff_matches']
RULE = ('auto-recognised class models (hierarchies, enums incl. str mix-ins, string-likes also as dict '
        'keys, defaults, _yatiml_extra in any position, dashed keys, declarative savorize hooks, '
        'one-or-many unions, classes with many attributes) x documents derived from values of the type, '
        'mutated (wrong scalar kinds, missing / unknown / misspelt / dashed keys, tags, extra nesting); '
        'plus, for fixed small models, ALL documents up to a size bound over a small alphabet.  For each: '
        'the real load must accept iff the reference pipeline (harness/pipeline_oracle.py, written from '
        'the documentation, top-down, sharing no code with yatiml\'s recogniser / constructors or the '
        'Lean model) accepts, and the values must be equal; and the Lean model must agree with the real '
        'load.  Non-trivial = the document is a collection.')
ASSUMPTIONS = ['savorize hooks are run as given (user code) by the reference, through yatiml.Node',
               'PyYAML SafeConstructor for core scalars and plain data']

SMALL_MODELS = None


def translate(ctx):
    return []


def auto_recognised(spec):
    return all(not c.get('recognize') and (c['kind'] != 'plain' or c.get('define_init', True)) for c in spec)


def judge(ctx, c, yaml, yatiml, label):
    """compare the real outcome with the reference pipeline; returns True if compared"""
    if c.node is None:
        ctx.count('oracle_skip:unparseable')
        return False
    node = c.node
    if getattr(c, 'empty', False):
        node = yaml.ScalarNode('tag:yaml.org,2002:null', '')
    try:
        orc = PO.Oracle(c.model, yaml, yatiml, c.real.loader_cls)
        del c.model.log[:]
        want = ('ok', orc.load_document(node, c.doc_type))
    except PO.Reject as e:
        want = ('rec', str(e))
    except PO.Undefined as e:
        ctx.count('oracle_skip:' + str(e)[:30])
        return False
    except RecursionError:
        ctx.count('oracle_skip:recursion')
        return False
    got = c.real_out
    ctx.count('judged:' + label)
    ctx.count('reference:' + want[0])
    if got[0] == 'yaml':
        # a construction-time YAML error (e.g. !!binary that does not decode): outside the pipeline's rules
        ctx.count('real_yaml_error')
        return True
    if got[0] == 'other':
        ctx.violation('load raises {} where the pipeline says {}'.format(got[1][:80], want[0]),
                      dict(L.describe(c), key='escape:' + got[1][:40]))
        return True
    if got[0] != want[0]:
        ctx.violation('load {} but the documented pipeline {} ({})'.format(
            'accepts' if got[0] == 'ok' else 'rejects', 'accepts' if want[0] == 'ok' else 'rejects',
            (want[1] if want[0] == 'rec' else repr(want[1]))[:120]),
            dict(L.describe(c), key='boundary:{}:{}'.format(got[0], c.text[:60]), reference=repr(want)[:400]))
        return True
    if got[0] == 'ok':
        a, b = CM.val_sexp(got[1], c.model), CM.val_sexp(want[1], c.model)
        if a != b and a.replace(CM.hexs('nan'), 'N') != b.replace(CM.hexs('nan'), 'N'):
            ctx.violation('load builds {!r} but the pipeline builds {!r}'.format(got[1], want[1])[:500],
                          dict(L.describe(c), key='value:' + c.text[:60], reference=repr(want[1])[:400]))
    return True


# ---- all small documents ---------------------------------------------------------------------------

def small_models():
    P = lambda n, t, **kw: dict(name=n, type=t, **kw)   # noqa: E731

    def plain(name, params, bases=(), extra=False, **kw):
        return dict(name=name, bases=list(bases), registered=True, kind='plain', params=params,
                    all_params=params, extra=extra, abstract=None, define_init=True, **kw)
    m1 = [plain('A', [P('x', ('int',)), P('y_z', ('str',), default='d')])]
    m2 = [plain('A', [P('x', ('int',))], extra=True),
          plain('B', [P('x', ('int',)), P('w', ('bool',))], bases=['A'], extra=False)]
    m3 = [dict(name='E', bases=[], registered=True, kind='enum', members=['a', 'true']),
          plain('A', [P('x', ('union', [('int',), ('cls', 'E')])), P('k', ('seq', 'list', ('int',)), default=None)])]
    m3[1]['params'][1]['type'] = CM.t_opt(('seq', 'list', ('int',)))
    m4 = [dict(name='S', bases=[], registered=True, kind='userstring'),
          plain('A', [P('x', ('map', 'dict', ('cls', 'S'), ('int',)))]),
          plain('C', [P('x', ('str',))])]
    m5 = [plain('A', [P('x_y', ('int',))], savorize=[('d2u',)]),
          plain('D', [P('x', ('union', [('int',), ('seq', 'list', ('int',))]))])]
    return [
        (m1, [('cls', 'A'), ('seq', 'list', ('cls', 'A')), ('union', [('cls', 'A'), ('int',)])]),
        (m2, [('cls', 'A'), ('union', [('cls', 'A'), ('map', 'dict', ('str',), ('int',))])]),
        (m3, [('cls', 'A'), ('union', [('cls', 'E'), ('bool',)]), ('union', [('cls', 'E'), ('str',)])]),
        (m4, [('cls', 'A'), ('union', [('cls', 'A'), ('cls', 'C')]), ('map', 'dict', ('cls', 'S'), ('cls', 'C'))]),
        (m5, [('cls', 'A'), ('cls', 'D'), ('union', [('cls', 'A'), ('cls', 'D')])]),
    ]


def small_docs(keys, depth):
    """all documents up to a size bound: scalars, lists of <= 2, mappings of <= 2 pairs"""
    S = G.S
    scalars = [S('1'), S('a'), S('true'), S('null'), S('1.5'), ('s', '1', True, None)]
    if depth == 0:
        return scalars
    sub = small_docs(keys, depth - 1)
    small_sub = [S('1'), S('a'), S('true')] if depth > 1 else sub
    out = list(scalars)
    out.append(('q', [], None))
    for x in sub:
        out.append(('q', [x], None))
    for x, y in itertools.product(small_sub[:4], small_sub[:4]):
        out.append(('q', [x, y], None))
    out.append(('m', [], None))
    for k in keys:
        for x in sub:
            out.append(('m', [(S(k), x)], None))
    for k1, k2 in itertools.permutations(keys, 2):
        for x, y in itertools.product(small_sub[:4], small_sub[:3]):
            out.append(('m', [(S(k1), x), (S(k2), y)], None))
    out.append(('m', [(S('1'), S('1'))], None))
    out.append(('m', [(('s', '1', False, None), S('1'))], None))
    return out


def enum_aliases(ctx, yaml, yatiml):
    """an enum with alias members (warning = 2; warn = 2): a document may name a member by any of its
    names and gets the one member"""
    import enum
    from typing import Dict, List, Union

    class Level(enum.Enum):
        info = 1
        warning = 2
        warn = 2
        error = 3
        err = 3

    class Msg:
        def __init__(self, level: Level, text: str = '') -> None:
            self.level = level
            self.text = text
    for name in ('info', 'warning', 'warn', 'error', 'err', 'fatal', 'Warn'):
        want = Level.__members__.get(name)
        for ty, text, get in ((Level, name, lambda v: v), (List[Level], '[info, %s]' % name, lambda v: v[1]),
                              (Dict[str, Level], '{k: %s}' % name, lambda v: v['k']),
                              (Msg, '{level: %s}' % name, lambda v: v.level),
                              (Union[Level, int], name, lambda v: v)):
            try:
                got = ('ok', get(yatiml.load_function(ty, Level, Msg)(text)))
            except (yatiml.RecognitionError, yaml.YAMLError):
                got = ('rec', None)
            except Exception as e:  # noqa
                got = ('other', type(e).__name__)
            ctx.case(('enum-alias', name, repr(ty)), nontrivial=True)
            ctx.count('enum_alias:' + got[0])
            ok = (got == ('ok', want)) if want is not None else got[0] == 'rec'
            if not ok:
                ctx.violation('{!r} as {}: load gives {} {!r}, the enum has {}'.format(
                    text, getattr(ty, '__name__', ty), got[0], got[1], want if want is not None else 'no such member'),
                    dict(key='enum-alias:{}:{}'.format(name, got[0]), text=text))


def explore(ctx):
    yaml, yatiml = L.setup()
    rng = ctx.rng
    enum_aliases(ctx, yaml, yatiml)
    cases = LC.CaseBuffer(ctx)
    import itertools
    from props import c17
    for c in itertools.chain(
            LC.gen_cases(ctx, ctx.budget(600, 15000), mutate_p=0.55, model_filter=auto_recognised, prop='C02'),
            LC.alias_across_types(ctx, ctx.budget(40, 800)), LC.replacing_base_hooks(ctx)):
        # an application-tagged scalar / mapping among the extra attributes of a class that takes them
        if c.doc is not None and rng.random() < 0.25 and not (c.desc and c.desc[0] == 'alias-across-types'):
            by = {x['name']: x for x in c.spec}
            try:
                maps = [p for p in c17.class_map_paths(c.spec, c.doc, c.doc_type)]
            except Exception:  # noqa
                maps = []
            if maps:
                p = rng.choice(maps)
                m = G.get_at_path(c.doc, p)
                val = rng.choice([('s', '12', False, '!Ident'), ('s', '1.5', False, '!whatever'),
                                  ('s', 'true', False, '!Ident'), ('s', '~', False, '!x'),
                                  ('m', [(G.S('k'), ('s', '7', False, '!Ident'))], '!Thing'),
                                  ('q', [('s', '2001-01-01', False, '!d')], None)])
                # the new key: a fresh name, or the dashed spelling of an underscored key that is already there
                # (the exact spelling is the attribute, the dashed one an extra attribute)
                under = [k[1] for k, _ in m[1] if k[0] == 's' and '_' in k[1].strip('_')
                         and not any(k2[0] == 's' and k2[1] == k[1].replace('_', '-') for k2, _ in m[1])]
                newkey = rng.choice(under).replace('_', '-') if under and rng.random() < 0.5 else 'zextra'
                if newkey != 'zextra':
                    ctx.count('tagged_extra_dashed_twin')
                doc2 = G.replace_at(c.doc, p, lambda d: ('m', list(m[1]) + [(G.S(newkey), val)], m[2]))
                try:
                    c2 = L.build_case(rng, yaml, yatiml, c.spec, c.doc_type, doc2, ('tagged-extra', p))
                    L.run_case(c2, yaml)
                    c = c2
                    ctx.count('tagged_extra_cases')
                except Exception:  # noqa
                    ctx.count('rebuild_error')
            del by
        cases.append(c)
        LC.record_distribution(ctx, c)
        ctx.case((c.text, repr(c.doc_type), repr([x['name'] for x in c.spec])),
                 nontrivial=c.doc is None or c.doc[0] != 's')
        judge(ctx, c, yaml, yatiml, 'generated')
        if len(ctx.samples) < 3:
            ctx.sample(dict(text=c.text[:200], type=repr(c.doc_type)[:100], outcome=c.real_out[0]))
    # exhaustive small documents
    models = small_models()
    per_model = ctx.budget(400, 100000)
    for spec, types in models:
        keys = []
        for cl in spec:
            for p in cl.get('params', []):
                for k in (p['name'], p['name'].replace('_', '-')):
                    if k not in keys:
                        keys.append(k)
        keys = keys[:3] + ['q']
        docs = small_docs(keys, 2 if ctx.tier == 'thorough' else 1)
        todo = [(t, d) for t in types for d in docs]
        exhaustive = len(todo) <= per_model
        if not exhaustive:
            todo = rng.sample(todo, per_model)
        ctx.stats['small_docs:' + spec[-1]['name'] + ':' + ('all' if exhaustive else 'sampled')] = len(todo)
        model = CM.Model(spec)
        reals = {}
        for t, d in todo:
            try:
                cse = L.Case()
                cse.spec, cse.doc_type, cse.doc, cse.desc = spec, t, d, ('small',)
                cse.model = model
                key = repr(t)
                if key not in reals:
                    reals[key] = G.RealLoad(model, t, yatiml, yaml)
                cse.real = reals[key]
                cse.text = G.render(d)
                L.run_case(cse, yaml)
            except Exception as e:  # noqa
                ctx.count('small_build_error:' + type(e).__name__)
                continue
            cases.append(cse)
            ctx.case(('small', cse.text, repr(t), spec[-1]['name']), nontrivial=d[0] != 's')
            judge(ctx, cse, yaml, yatiml, 'small')
    LC.correspond(ctx, cases)


def search(ctx, broken):
    explore(ctx)


def replay(ctx, rep):
    import json
    print(json.dumps(rep.get('case', rep), indent=1)[:3000])
    explore(ctx)
    return not ctx.violations
