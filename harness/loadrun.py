"""One loader case end to end: real yatiml vs the Lean model, canonical forms for both."""
import traceback

from common import hexs, unhexs, use_repo
import classmodel as CM
import loadgen as G
import nodes as N


class Case:
    pass


def setup():
    use_repo()
    import yaml
    import yatiml
    return yaml, yatiml


def model_leaves(tree):
    """( rec ( leaf ( marks ) ( keys ) ) ... ) -> (sorted marks, set of keys)"""
    marks, keys = set(), set()
    for leaf in tree[1:]:
        for m in leaf[1]:
            a, b = m.split(':')
            marks.add((int(a), int(b)))
        for k in leaf[2]:
            keys.add(unhexs(k))
    return sorted(marks), keys


def split_top(s):
    """split a driver answer on ' | ' separators that are outside parentheses (they all are)"""
    return s.split(' | ')


def build_case(rng, yaml, yatiml, spec, doc_type, doc, desc=None):
    c = Case()
    c.spec = spec
    c.doc_type = doc_type
    c.doc = doc
    c.desc = desc
    c.model = CM.Model(spec)
    c.real = G.RealLoad(c.model, doc_type, yatiml, yaml)
    c.text = G.render(doc)
    return c


def run_case(c, yaml):
    """fills c.node (composed tree or None), c.request (driver line or None), c.real_out"""
    c.real_out = c.real.run(c.text)
    try:
        c.node = c.real.compose(c.text)
    except yaml.YAMLError:
        c.node = None
    except RecursionError:
        c.node = None
    c.request = None
    if c.node is None:
        c.empty = False
        try:
            empty = c.real.compose(c.text) is None
        except Exception:  # noqa
            empty = False
        if not empty:
            return           # scanner/parser/composer error: outside the model
        # an empty stream: the model starts from the null node the loader substitutes
        c.empty = True
        m = yaml.error.Mark('<empty document>', 0, 0, 0, None, 0)
        c.node = yaml.ScalarNode('tag:yaml.org,2002:null', '', m, m)
    if has_sharing(yaml, c.node):
        c.shared = True
        strings = N.all_scalar_values_graph(yaml, c.node)
        ext = N.ext_sexp(yaml, strings)
        env = c.model.env_wire(c.real.loader_cls, ext)
        ty = CM.ty_sexp_of_py(c.real.py_type, None)
        c.request = 'loaddoc {} {} {}'.format(env, N.doc_sexp(yaml, c.node), ty)
        return
    c.shared = False
    strings = N.all_scalar_values(yaml, c.node, set())
    ext = N.ext_sexp(yaml, strings)
    env = c.model.env_wire(c.real.loader_cls, ext)
    ty = CM.ty_sexp_of_py(c.real.py_type, None)
    c.request = 'load {} {} {}'.format(env, N.node_sexp(yaml, c.node), ty)


def has_sharing(yaml, node):
    seen = set()

    def rec(n):
        if id(n) in seen:
            return True
        seen.add(id(n))
        if isinstance(n, yaml.SequenceNode):
            return any(rec(x) for x in n.value)
        if isinstance(n, yaml.MappingNode):
            return any(rec(k) or rec(v) for k, v in n.value)
        return False
    return rec(node)


def canon_real(c):
    """canonical description of the real outcome"""
    kind, payload, log = c.real_out
    if kind == 'ok':
        return ('ok', CM.val_sexp(payload, c.model))
    if kind == 'rec':
        marks, names = G.parse_error(payload)
        return ('rec', marks, names)
    if kind == 'yaml':
        return ('yaml', payload)
    return ('other', payload)


def real_inits(c):
    return [(e[1], e[2]) for e in c.real_out[2] if e[0] == 'init']


def real_savs(c):
    return [e[1] for e in c.real_out[2] if e[0] == 'sav']


def parse_answer(c, ans):
    """model outcome: dict(kind, ...)"""
    parts = split_top(ans)
    head = parts[0]
    if head.startswith('ok '):
        tree = N.parse_sexp(N.tokens(head[3:]))[0]
        norm = CM.normalise_model_value(tree, c.model)
        calls = N.parse_sexp(N.tokens(parts[1]))[0]
        trace = [unhexs(x) for x in N.parse_sexp(N.tokens(parts[2]))[0]]
        return dict(kind='ok', value=CM.unparse(norm), calls=calls, trace=trace, processed=parts[3])
    if head.startswith('err '):
        tree = N.parse_sexp(N.tokens(head[4:]))[0]
        calls = N.parse_sexp(N.tokens(parts[1]))[0] if len(parts) > 1 else []
        phase = parts[2].strip() if len(parts) > 2 else ''
        if tree[0] == 'rec':
            marks, keys = model_leaves(tree)
            return dict(kind='rec', marks=marks, keys=keys, calls=calls, phase=phase)
        if tree[0] == 'yaml':
            return dict(kind='yaml', what=tree[1], calls=calls, phase=phase)
        return dict(kind=tree[0], what=tree[1] if len(tree) > 1 else '', calls=calls)
    return dict(kind='bad', raw=ans[:300])


def model_calls(c, m):
    out = []
    for call in m.get('calls', []):
        name = unhexs(call[1])
        spec = c.model.by_name_spec[name]
        if spec['kind'] != 'plain':
            continue
        norm = CM.normalise_model_value(['obj'] + call[1:], c.model)
        out.append((name, CM.unparse(norm[2:]) if len(norm) > 2 else ''))
    return out


def real_construct_phase(c):
    """does the real load get through processing (so that its error comes from construction)?"""
    try:
        c.real.process(c.text)
        return True
    except Exception:  # noqa
        return False


def compare(c, m):
    """None if the model agrees with the real outcome, else a description"""
    real = canon_real(c)
    if m['kind'] == 'bad':
        return 'driver: ' + m['raw']
    if real[0] == 'ok':
        if m['kind'] != 'ok':
            return 'real loads {}, model fails with {}'.format(real[1][:300], {k: v for k, v in m.items() if k != 'calls'})
        if m['value'] != real[1]:
            return 'values differ: real {} model {}'.format(real[1][:400], m['value'][:400])
        if m['trace'] != real_savs(c):
            return 'savorize traces differ: real {} model {}'.format(real_savs(c), m['trace'])
        ri = [(n, s) for n, s in real_inits(c) if c.model.by_name_spec[n]['kind'] == 'plain']
        mi = model_calls(c, m)
        if [n for n, _ in ri] != [n for n, _ in mi]:
            return 'constructor call sequences differ: real {} model {}'.format(
                [n for n, _ in ri], [n for n, _ in mi])
        return None
    if real[0] in ('rec', 'yaml') and m['kind'] in ('rec', 'yaml') and m['kind'] != real[0] \
            and c.doc_type[0] != 'cls' and m.get('phase') == 'construct' and real_construct_phase(c):
        # two defects of different kinds in a container-rooted document, both met during construction:
        # which one PyYAML's generator rounds reach first is not modelled
        c.order_ambiguity = True
        return None
    if real[0] == 'rec':
        if m['kind'] != 'rec':
            return 'real raises RecognitionError ({}), model gives {}'.format(
                c.real_out[1][:300].replace('\n', ' / '), {k: v for k, v in m.items() if k != 'calls'})
        if [tuple(x) for x in m['marks']] != [tuple(x) for x in real[1]]:
            if c.doc_type[0] != 'cls' and (c.real_out[1].startswith('An error occurred') or
                                            (m.get('phase') == 'construct' and real_construct_phase(c))):
                # PyYAML constructs a top-level list/dict in rounds (generators): with two defects in
                # different items, which one is reported first is not modelled (DESIGN.md, modelling gaps)
                c.order_ambiguity = True
                return None
            return 'cited positions differ: real {} model {} ({})'.format(
                real[1], m['marks'], c.real_out[1][:300].replace('\n', ' / '))
        if not m['keys'] <= real[2]:
            return 'model cites keys {} not in the message {}'.format(m['keys'] - real[2], sorted(real[2]))
        return None
    if real[0] == 'yaml':
        if m['kind'] != 'yaml':
            return 'real raises {}, model gives {}'.format(real[1], {k: v for k, v in m.items() if k != 'calls'})
        return None
    return 'real raises {}, model gives {}'.format(real[1], {k: v for k, v in m.items() if k != 'calls'})


def describe(c):
    return dict(classes=c.model.source[-3000:], doc_type=repr(c.doc_type), text=c.text,
                desc=repr(c.desc), real=repr(c.real_out[:2])[:600])
