"""Class models: abstract specs -> real Python classes + the wire `env` the Lean driver reads.

A *spec* is a list of class specs (dicts, see `gen_model`).  `realise` turns it into real classes by
generating source text and exec-ing it; everything the model needs to know about the classes
(`__bases__`, `__mro__`, `class_subobjects`, `is_abstract`, `is_string_like`, registration order) is then
read back from the real classes with the real yatiml/CPython introspection, so that a bug in the
realisation shows up as a correspondence failure rather than as a silent mismatch.
"""
import datetime
import enum
import math
import pathlib
from collections import OrderedDict, UserString

from common import hexs, unhexs
import nodes as N

NODEFAULT = object()


# ---------------------------------------------------------------------------------------------
# type specs: nested tuples

def t_opt(t):
    return ('union', [t, ('null',)])


def ty_src(t):
    k = t[0]
    if k in ('str', 'int', 'float', 'bool'):
        return k
    if k == 'boolfix':
        return 'yatiml.bool_union_fix'
    if k == 'null':
        return 'None'
    if k == 'date':
        return 'datetime.date'
    if k == 'path':
        return 'pathlib.Path'
    if k == 'any':
        return 'Any'
    if k == 'seq':
        return '{}[{}]'.format({'list': 'List', 'sequence': 'Sequence',
                                'mutablesequence': 'MutableSequence'}[t[1]], ty_src(t[2]))
    if k == 'map':
        return '{}[{}, {}]'.format({'dict': 'Dict', 'mapping': 'Mapping',
                                    'mutablemapping': 'MutableMapping'}[t[1]], ty_src(t[2]), ty_src(t[3]))
    if k == 'union':
        return 'Union[{}]'.format(', '.join(ty_src(x) for x in t[1]))
    if k == 'cls':
        return t[1]
    raise ValueError(t)


def ty_sexp_of_py(pt, classes_by_obj):
    """wire form of a *real* annotation object (after typing's own normalisation)"""
    import typing
    from yatiml import bool_union_fix
    from yatiml.util import (generic_type_args, is_generic_mapping, is_generic_sequence,
                             is_generic_union)
    from collections import abc
    if pt is str:
        return 'str'
    if pt is int:
        return 'int'
    if pt is float:
        return 'float'
    if pt is bool:
        return 'bool'
    if pt is bool_union_fix:
        return 'boolfix'
    if pt is None or pt is type(None):
        return 'null'
    if pt is datetime.date:
        return 'date'
    if pt is pathlib.Path:
        return 'path'
    if pt is typing.Any:
        return 'any'
    if is_generic_union(pt):
        return '( union {} )'.format(' '.join(ty_sexp_of_py(a, classes_by_obj) for a in generic_type_args(pt)))
    if is_generic_sequence(pt):
        o = pt.__origin__
        kind = 'list' if o is list else 'sequence' if o is abc.Sequence else 'mutablesequence'
        return '( seq {} {} )'.format(kind, ty_sexp_of_py(generic_type_args(pt)[0], classes_by_obj))
    if is_generic_mapping(pt):
        o = pt.__origin__
        kind = 'dict' if o is dict else 'mapping' if o is abc.Mapping else 'mutablemapping'
        a = generic_type_args(pt)
        return '( map {} {} {} )'.format(kind, ty_sexp_of_py(a[0], classes_by_obj),
                                         ty_sexp_of_py(a[1], classes_by_obj))
    if isinstance(pt, type):
        return '( cls {} )'.format(hexs(pt.__name__))
    raise ValueError('cannot encode type {!r}'.format(pt))


# ---------------------------------------------------------------------------------------------
# hook DSL -> Python source / wire

def lit(v):
    if isinstance(v, float):
        if math.isinf(v):
            return "float('inf')" if v > 0 else "float('-inf')"
        if math.isnan(v):
            return "float('nan')"
    return repr(v)


TYP_SRC = {'str': 'str', 'int': 'int', 'float': 'float', 'bool': 'bool', 'none': 'None',
           'list': 'list', 'dict': 'dict'}


def opt_lit(v):
    return 'None' if v is None else repr(v)


def rec_src(op):
    k = op[0]
    if k == 'rscalar':
        return 'node.require_scalar({})'.format(', '.join(TYP_SRC[t] for t in op[1]))
    if k == 'rmapping':
        return 'node.require_mapping()'
    if k == 'rsequence':
        return 'node.require_sequence()'
    if k == 'rattr':
        if op[2] is None:
            return 'node.require_attribute({!r})'.format(op[1])
        return 'node.require_attribute({!r}, {})'.format(op[1], ty_src(op[2]))
    if k == 'rval':
        return 'node.require_attribute_value({!r}, {})'.format(op[1], lit(op[2]))
    if k == 'rvalnot':
        return 'node.require_attribute_value_not({!r}, {})'.format(op[1], lit(op[2]))
    if k == 'rraise':
        if len(op) > 1 and op[1] == 'bare':
            return "raise yatiml.RecognitionError()"        # the documented no-argument form
        return "raise yatiml.RecognitionError('custom recogniser refuses')"
    if k == 'rother':
        return "raise ValueError('custom recogniser blew up')"
    raise ValueError(op)


def rec_wire(op, ty_wire):
    k = op[0]
    if k == 'rscalar':
        return '( rscalar {} )'.format(' '.join(op[1]))
    if k in ('rmapping', 'rsequence', 'rraise', 'rother'):
        return '( {} )'.format(k)
    if k == 'rattr':
        return '( rattr {} {} )'.format(hexs(op[1]), '~' if op[2] is None else ty_wire(op[2]))
    if k in ('rval', 'rvalnot'):
        return '( {} {} {} )'.format(k, hexs(op[1]), N.scalar_sexp(op[2]))
    raise ValueError(op)


def sav_src(op):
    k = op[0]
    if k == 'set':
        return ['node.set_attribute({!r}, {})'.format(op[1], lit(op[2]))]
    if k == 'setmissing':
        return ['if not node.has_attribute({!r}):'.format(op[1]),
                '    node.set_attribute({!r}, {})'.format(op[1], lit(op[2]))]
    if k == 'remove':
        return ['node.remove_attribute({!r})'.format(op[1])]
    if k == 'rename':
        return ['node.rename_attribute({!r}, {!r})'.format(op[1], op[2])]
    if k == 'd2u':
        return ['node.dashes_to_unders_in_keys()']
    if k == 'u2d':
        return ['node.unders_to_dashes_in_keys()']
    if k == 'seq2map':
        return ['node.seq_attribute_to_map({!r}, {!r}, {}, {!r})'.format(op[1], op[2], opt_lit(op[3]), op[4])]
    if k == 'map2seq':
        return ['node.map_attribute_to_seq({!r}, {!r}, {})'.format(op[1], op[2], opt_lit(op[3]))]
    if k == 'idx2map':
        return ['node.index_attribute_to_map({!r}, {!r}, {})'.format(op[1], op[2], opt_lit(op[3]))]
    if k == 'map2idx':
        return ['node.map_attribute_to_index({!r}, {!r}, {})'.format(op[1], op[2], opt_lit(op[3]))]
    if k == 'scalar2map':
        return ['if node.is_scalar():',
                '    _v = node.yaml_node',
                '    node.make_mapping()',
                '    node.set_attribute({!r}, _v)'.format(op[1])]
    if k == 'replace':
        v = op[1]
        tag = N.T['null'] if v is None else N.T['bool'] if isinstance(v, bool) else \
            N.T['int'] if isinstance(v, int) else N.T['float'] if isinstance(v, float) else N.T['str']
        text = 'None' if v is None else ('true' if v else 'false') if isinstance(v, bool) else str(v)
        return ['node.yaml_node = yaml.ScalarNode({!r}, {!r}, node.yaml_node.start_mark, '
                'node.yaml_node.end_mark)'.format(tag, text)]
    if k in ('scale', 'unscale'):
        # a non-idempotent inverse pair (Python only: not part of the hook DSL the Lean model knows)
        return ['if node.has_attribute({!r}):'.format(op[1]),
                '    node.set_attribute({!r}, node.get_attribute({!r}).get_value() {} {})'.format(
                    op[1], op[1], '*' if k == 'scale' else '//', op[2])]
    if k == 'fail':
        if len(op) > 1 and op[1] == 'bare':
            return ["raise yatiml.SeasoningError"]          # no message
        return ["raise yatiml.SeasoningError('savorize refuses')"]
    if k == 'other':
        if len(op) > 1 and op[1] == 'bare':
            return ["assert False"]
        return ["raise ValueError('savorize blew up')"]
    raise ValueError(op)


def opt_hex(s):
    return '~' if s is None else hexs(s)


def sav_wire(op):
    k = op[0]
    if k in ('set', 'setmissing'):
        return '( {} {} {} )'.format(k, hexs(op[1]), N.scalar_sexp(op[2]))
    if k == 'remove':
        return '( remove {} )'.format(hexs(op[1]))
    if k == 'rename':
        return '( rename {} {} )'.format(hexs(op[1]), hexs(op[2]))
    if k in ('d2u', 'u2d', 'fail', 'other'):
        return '( {} )'.format(k)
    if k == 'seq2map':
        return '( seq2map {} {} {} {} )'.format(hexs(op[1]), hexs(op[2]), opt_hex(op[3]), 1 if op[4] else 0)
    if k in ('map2seq', 'idx2map', 'map2idx'):
        return '( {} {} {} {} )'.format(k, hexs(op[1]), hexs(op[2]), opt_hex(op[3]))
    if k == 'scalar2map':
        return '( scalar2map {} )'.format(hexs(op[1]))
    if k == 'replace':
        return '( replace {} )'.format(N.scalar_sexp(op[1]))
    raise ValueError(op)


# ---------------------------------------------------------------------------------------------
# realisation

PRELUDE = '''
import abc, datetime, enum, pathlib
from collections import OrderedDict, UserString
from typing import Any, Dict, List, Mapping, MutableMapping, MutableSequence, Optional, Sequence, Union
import yaml
import yatiml

class _Refusal(Exception):
    def __str__(self): return 'refused'
'''


def class_source(c):
    lines = []
    bases = list(c['bases'])
    kind = c['kind']
    if kind == 'enum' and not bases:
        bases = ['str', 'enum.Enum'] if c.get('str_mixin') else ['enum.Enum']
    if kind == 'str' and not bases:
        bases = ['str']
    if kind == 'userstring' and not bases:
        bases = ['UserString']
    if kind == 'yatimlstring' and not bases:
        bases = ['yatiml.String']
    if c.get('abstract') == 'abc':
        bases = bases + ['abc.ABC']
    if c.get('abstract') == 'method':
        bases = bases + ['metaclass=abc.ABCMeta']
    lines.append('class {}({}):'.format(c['name'], ', '.join(bases)) if bases
                 else 'class {}:'.format(c['name']))
    body = []
    if kind == 'enum':
        for i, m in enumerate(c['members']):
            body.append('    {} = {}'.format(m, repr('value{}'.format(i + 1)) if c.get('str_mixin') else i + 1))
    elif kind in ('str', 'userstring', 'yatimlstring'):
        ir = c.get('init_raises')
        if kind == 'yatimlstring':
            body.append('    def __init__(self, s: str) -> None:')
            body.append("        _LOG.append(('init', {!r}, s))".format(c['name']))
            if ir is not None:
                body.append("        if s == {!r}: raise ValueError('string-like refuses')".format(ir[1]))
            body.append('        self.s = s')
            body.append('    def __str__(self): return self.s')
            body.append('    def __eq__(self, o): return type(o) is type(self) and o.s == self.s')
            body.append('    def __hash__(self): return hash(self.s)')
        elif ir is not None:
            if kind == 'str':
                body.append('    def __new__(cls, s):')
                body.append("        if s == {!r}: raise ValueError('string-like refuses')".format(ir[1]))
                body.append('        return str.__new__(cls, s)')
            else:
                body.append('    def __init__(self, s):')
                body.append("        if s == {!r}: raise ValueError('string-like refuses')".format(ir[1]))
                body.append('        UserString.__init__(self, s)')
    else:
        if c.get('define_init', True):
            params = []
            for p in c['params']:
                s = p['name']
                if p.get('type') is not None:
                    s += ': ' + ty_src(p['type'])
                if p.get('default', NODEFAULT) is not NODEFAULT:
                    s += ' = ' + lit(p['default'])
                params.append(s)
            names = [p['name'] for p in c['params']]
            if c.get('extra'):
                pos = len(params)
                if c.get('extra_early'):
                    # before the first parameter that has a default (it has a default itself)
                    pos = min([i for i, p in enumerate(c['params']) if p.get('default', NODEFAULT) is not NODEFAULT]
                              + [len(params)])
                params.insert(pos, '_yatiml_extra: Optional[OrderedDict] = None')
                names.insert(pos, '_yatiml_extra')
            body.append('    def __init__({}) -> None:'.format(', '.join(['self'] + params)))
            body.append("        _LOG.append(('init', {!r}, _snap(OrderedDict([{}]))))".format(
                c['name'], ', '.join('({!r}, {})'.format(n, n) for n in names)))
            ir = c.get('init_raises')
            if ir is not None:
                how = {'msg': "raise ValueError('init refuses')", 'bare': 'raise ValueError',
                       'assert': 'assert False', 'keyerror': "raise KeyError('k')",
                       'custom': "raise _Refusal()"}[c.get('init_raise_style', 'msg')]
                body.append("        if {} == {} and type({}) is type({}): {}".format(
                    ir[0], lit(ir[1]), ir[0], lit(ir[1]), how))
            for n in names:
                if n == '_yatiml_extra':
                    body.append('        self._yatiml_extra = _yatiml_extra if _yatiml_extra is not None '
                                'else OrderedDict()')
                else:
                    body.append('        self.{} = {}'.format(n, n))
            if not names:
                body.append('        pass')
        if c.get('abstract') == 'method':
            body.append('    @abc.abstractmethod')
            body.append('    def _abstract_thing(self): ...')
        if c.get('concretise'):
            body.append('    def _abstract_thing(self): return 1')
    if c.get('recognize') is not None:
        body.append('    @classmethod')
        body.append('    def _yatiml_recognize(cls, node: yatiml.UnknownNode) -> None:')
        body.append("        _LOG.append(('rec', {!r}, cls.__name__))".format(c['name']))
        for op in c['recognize']:
            body.append('        ' + rec_src(op))
    if c.get('savorize') is not None:
        body.append('    @classmethod')
        body.append('    def _yatiml_savorize(cls, node: yatiml.Node) -> None:')
        body.append("        _LOG.append(('sav', {!r}, cls.__name__))".format(c['name']))
        for op in c['savorize']:
            for l in sav_src(op):
                body.append('        ' + l)
    if c.get('sweeten') is not None:
        body.append('    @classmethod')
        body.append('    def _yatiml_sweeten(cls, node: yatiml.Node) -> None:')
        body.append("        _LOG.append(('swe', {!r}, cls.__name__))".format(c['name']))
        for op in c['sweeten']:
            for l in sav_src(op):
                body.append('        ' + l)
        if not c['sweeten']:
            body.append('        pass')
    if c.get('yatiml_defaults') is not None:
        body.append('    _yatiml_defaults = {!r}'.format(c['yatiml_defaults']))
    if kind == 'plain':
        body.append('    def __eq__(self, o): return type(o) is type(self) and vars(o) == vars(self)')
        body.append('    def __repr__(self): return {!r} + repr(vars(self))'.format(c['name']))
    if not body:
        body.append('    pass')
    return '\n'.join(lines + body)


class Model:
    """a realised class model"""

    def __init__(self, spec):
        from common import use_repo
        use_repo()
        self.spec = spec
        self.log = []
        self.by_name_spec = {c['name']: c for c in spec}
        src = PRELUDE + '\n\n'.join(class_source(c) for c in spec) + '\n'
        self.source = src
        self.ns = {'_LOG': self.log, '_snap': self._snap}
        exec(compile(src, '<classmodel>', 'exec'), self.ns)
        self.classes = OrderedDict((c['name'], self.ns[c['name']]) for c in spec)
        self.registered = [self.classes[c['name']] for c in spec if c.get('registered', True)]

    def _snap(self, d):
        return ' '.join(val_sexp(k, self) + ' ' + val_sexp(v, self) for k, v in d.items())

    def py_type(self, t):
        ns = dict(self.ns)
        return eval(ty_src(t), ns)

    # ---- wire -----------------------------------------------------------------------------
    def class_wire(self, cls):
        import inspect
        from yatiml.introspection import class_subobjects
        from yatiml.util import is_abstract, is_string_like
        spec = self.by_name_spec[cls.__name__]
        xt = '~'
        bases = [b.__name__ for b in cls.__bases__]
        ancestors = [b.__name__ for b in cls.__mro__[1:]]
        if issubclass(cls, enum.Enum):
            kind = '( enum {} )'.format(' '.join(hexs(m) for m in cls.__members__))
            params, args = [], []
        elif is_string_like(cls):
            kind = 'strlike'
            params, args = [], []
        else:
            kind = 'plain'
            argspec = inspect.getfullargspec(cls.__init__)
            args = [a for a in argspec.args if a != 'self']
            if '_yatiml_extra' in argspec.annotations:
                xt = ty_sexp_of_py(argspec.annotations['_yatiml_extra'], None)
            params = []
            for name, ty, req in class_subobjects(cls):
                params.append('( {} {} {} {} )'.format(
                    hexs(name), ty_sexp_of_py(ty, None), 1 if name in argspec.annotations else 0,
                    1 if req else 0))
        rec = '~'
        if '_yatiml_recognize' in cls.__dict__:
            rec = '( {} )'.format(' '.join(rec_wire(op, lambda t: ty_sexp_of_py(self.py_type(t), None))
                                           for op in spec['recognize']))
        sav = '~'
        if '_yatiml_savorize' in cls.__dict__:
            sav = '( {} )'.format(' '.join(sav_wire(op) for op in spec['savorize']))
        ir = spec.get('init_raises')
        irw = '~' if ir is None else '( {} {} )'.format(hexs(ir[0]), N.scalar_sexp(ir[1]))
        return '( class {} ( {} ) ( {} ) {} {} ( {} ) ( {} ) {} {} {} {} )'.format(
            hexs(cls.__name__), ' '.join(hexs(b) for b in bases), ' '.join(hexs(a) for a in ancestors),
            kind, 1 if is_abstract(cls) else 0, ' '.join(params), ' '.join(hexs(a) for a in args),
            xt, rec, sav, irw)

    def env_wire(self, loader_cls, ext):
        # builtins such as `str` end up in the registry when they are the document type; they have
        # no hooks and no registered subclasses, so they are inert and left out of the model
        regs = [c for c in loader_cls._registered_classes.values() if c.__name__ in self.by_name_spec
                and c is self.classes[c.__name__]]
        return '( env ( {} ) {} )'.format(' '.join(self.class_wire(c) for c in regs), ext)

    def defaults_of(self, name):
        spec = self.by_name_spec[name]
        # the effective __init__ may be inherited
        cls = self.classes[name]
        import inspect
        argspec = inspect.getfullargspec(cls.__init__)
        defaults = argspec.defaults or ()
        first = len(argspec.args) - len(defaults)
        out = OrderedDict()
        for i, a in enumerate(argspec.args):
            if a == 'self':
                continue
            out[a] = defaults[i - first] if i >= first else NODEFAULT
        del spec
        return out


# ---------------------------------------------------------------------------------------------
# canonical values

def val_sexp(v, model):
    if v is None or isinstance(v, (bool, int, float)):
        return N.scalar_sexp(v)
    if isinstance(v, enum.Enum):
        return '( enum {} {} )'.format(hexs(type(v).__name__), hexs(v.name))
    if isinstance(v, pathlib.PurePath):
        return '( path {} )'.format(hexs(str(v)))
    if model is not None and type(v).__name__ in model.classes and type(v) is model.classes[type(v).__name__]:
        spec = model.by_name_spec[type(v).__name__]
        if spec['kind'] in ('str', 'userstring', 'yatimlstring'):
            return '( ustr {} {} )'.format(hexs(type(v).__name__), hexs(str(v)))
        names = list(model.defaults_of(type(v).__name__).keys())
        parts = []
        for n in names:
            if not hasattr(v, n):
                parts.append(N.scalar_sexp(n) + ' ( missing )')
            else:
                parts.append(N.scalar_sexp(n) + ' ' + val_sexp(getattr(v, n), model))
        return ' '.join(['( obj', hexs(type(v).__name__)] + parts + [')'])
    if isinstance(v, str):
        return N.scalar_sexp(str(v))
    if isinstance(v, UserString):
        return N.scalar_sexp(str(v))
    if isinstance(v, (datetime.date, datetime.datetime)):
        return '( date {} )'.format(hexs(repr(v)))
    if isinstance(v, bytes):
        return '( bytes {} )'.format(hexs(repr(v)))
    if isinstance(v, (list, tuple)):
        return ' '.join(['( list'] + [val_sexp(x, model) for x in v] + [')'])
    if isinstance(v, dict):
        return ' '.join(['( dict'] + [val_sexp(k, model) + ' ' + val_sexp(x, model) for k, x in v.items()] + [')'])
    if isinstance(v, (set, frozenset)):
        return '( set {} )'.format(hexs(repr(sorted(map(repr, v)))))
    return '( unknown {} )'.format(hexs(repr(v)))


def unparse(tree):
    if isinstance(tree, str):
        return tree
    return ' '.join(['('] + [unparse(x) for x in tree] + [')'])


def normalise_model_value(tree, model):
    """model `( obj C k v ... )` carries the kwargs passed; add the Python defaults of the omitted
    parameters and order by signature, to compare with the attributes of the real object"""
    if isinstance(tree, str):
        return tree
    head = tree[0]
    if head == 'path' and len(tree) == 2 and isinstance(tree[1], str):
        # pathlib's own normalisation ('' -> '.', 'a//b' -> 'a/b') is outside the model
        return ['path', hexs(str(pathlib.Path(unhexs(tree[1]))))]
    if head == 'obj':
        name = unhexs(tree[1])
        kv = tree[2:]
        passed = OrderedDict()
        for i in range(0, len(kv), 2):
            key = kv[i]
            kname = unhexs(key[1]) if isinstance(key, list) and key[0] == 'str' else unparse(key)
            passed[kname] = normalise_model_value(kv[i + 1], model)
        out = ['obj', tree[1]]
        for pname, dflt in model.defaults_of(name).items():
            out.append(['str', hexs(pname)])
            if pname in passed:
                val = passed[pname]
                if pname == '_yatiml_extra':
                    pass
                out.append(val)
            elif pname == '_yatiml_extra':
                out.append(['dict'])
            elif dflt is NODEFAULT:
                out.append(['missing'])
            else:
                out.append(N.parse_sexp(N.tokens(val_sexp(dflt, model)))[0])
        return out
    return [normalise_model_value(x, model) if isinstance(x, list) else x for x in tree]
