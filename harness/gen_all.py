"""Regenerate every Gen/*.lean from VERIF_REPO (used by setup and by each check)."""
import os
import sys
sys.path.insert(0, os.path.dirname(os.path.abspath(__file__)))
import translate_resolvers  # noqa: E402
import translate_tags  # noqa: E402

GENERATORS = [translate_resolvers, translate_tags]
for name in ('translate_callsites', 'translate_registry', 'translate_json', 'translate_signatures'):
    try:
        GENERATORS.append(__import__(name))
    except ImportError:
        pass


# translators that read the *source text* of particular functions serve one property each; when such a
# translator cannot read a rewritten source, that is reported by that property's check only
ONLY_FOR = {'translate_callsites': {'C12'}, 'translate_registry': {'C11'}}


def generate_all(prop=None):
    changed = []
    for g in GENERATORS:
        owners = ONLY_FOR.get(g.__name__)
        if owners is not None and prop is not None and prop not in owners:
            try:
                changed += g.generate()
            except Exception:  # noqa  (not this property's business)
                pass
        else:
            changed += g.generate()
    return changed


if __name__ == '__main__':
    print('regenerated:', generate_all())
