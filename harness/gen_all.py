"""Regenerate every Gen/*.lean from VERIF_REPO (used by setup and by each check)."""
import os
import sys
sys.path.insert(0, os.path.dirname(os.path.abspath(__file__)))
import translate_resolvers  # noqa: E402
import translate_tags  # noqa: E402

GENERATORS = [translate_resolvers, translate_tags]
for name in ('translate_callsites', 'translate_registry', 'translate_json', 'translate_signatures'):
    try:
        GENERATORS.append(__import__(name))
    except ImportError:
        pass


def generate_all():
    changed = []
    for g in GENERATORS:
        changed += g.generate()
    return changed


if __name__ == '__main__':
    print('regenerated:', generate_all())
