"""Shared plumbing for the yatiml verification harness.

Everything here runs under /venv/bin/python with the yatiml of VERIF_REPO
(default /repo) imported in-process.
"""
import hashlib
import json
import os
import subprocess
import sys
import time

VERIF = os.path.dirname(os.path.dirname(os.path.abspath(__file__)))
REPO = os.environ.get('VERIF_REPO', '/repo')
LEAN_DIR = os.path.join(VERIF, 'lean')
GEN_DIR = os.path.join(LEAN_DIR, 'YatimlModel', 'Gen')
EVIDENCE_DIR = os.path.join(VERIF, 'evidence')
REPLAY_DIR = os.path.join(EVIDENCE_DIR, 'replays')
KNOWN_FINDINGS = os.path.join(VERIF, 'known_findings.txt')

ALLOWED_AXIOMS = {'propext', 'Classical.choice', 'Quot.sound'}

TRUSTED_BASE = [
    'Lean 4.33.0 kernel (thorough tier: leanchecker re-check of the .olean files)',
    'axioms allowed in property theorems: propext, Classical.choice, Quot.sound '
    '(audited with #print axioms on every run; no native_decide/bv_decide/sorry)',
    'translators harness/translate_*.py (regex via CPython re._parser.parse, '
    'tables by repr, call sites via ast, emit_json step table by probing)',
    'correspondence harness harness/*.py (differential run of the real yatiml '
    'against the compiled Lean driver on generated inputs)',
    'PyYAML scanner/parser/composer/emitter, CPython re/float/json/datetime: '
    'modelled at their interface, not verified (DESIGN.md section 3)',
]


def use_repo():
    """Make `import yatiml` resolve to VERIF_REPO."""
    if REPO not in sys.path:
        sys.path.insert(0, REPO)
    import yatiml  # noqa: F401
    got = os.path.dirname(os.path.dirname(os.path.abspath(yatiml.__file__)))
    if os.path.realpath(got) != os.path.realpath(REPO):
        raise RuntimeError('yatiml imported from {} instead of {}'.format(got, REPO))


def write_if_changed(path, text):
    try:
        with open(path) as f:
            if f.read() == text:
                return False
    except FileNotFoundError:
        pass
    os.makedirs(os.path.dirname(path), exist_ok=True)
    tmp = path + '.tmp'
    with open(tmp, 'w') as f:
        f.write(text)
    os.replace(tmp, path)
    return True


def lean_str(s):
    """A Lean string literal for an arbitrary Python str."""
    out = ['"']
    for ch in s:
        o = ord(ch)
        if ch == '"':
            out.append('\\"')
        elif ch == '\\':
            out.append('\\\\')
        elif ch == '\n':
            out.append('\\n')
        elif ch == '\t':
            out.append('\\t')
        elif 32 <= o < 127:
            out.append(ch)
        elif 0xD800 <= o <= 0xDFFF:
            raise ValueError('surrogate in Lean string')
        else:
            out.append('\\u{%x}' % o)
    out.append('"')
    return ''.join(out)


def hexs(s):
    """Hex encoding of a str for the line protocol (utf-8, surrogatepass)."""
    return s.encode('utf-8', 'surrogatepass').hex() or '-'


def unhexs(h):
    if h == '-':
        return ''
    return bytes.fromhex(h).decode('utf-8', 'surrogatepass')


def run(cmd, cwd=None, timeout=None, env=None, input=None):
    t0 = time.time()
    p = subprocess.run(cmd, cwd=cwd, timeout=timeout, env=env, input=input,
                       stdout=subprocess.PIPE, stderr=subprocess.STDOUT,
                       universal_newlines=True)
    return p.returncode, p.stdout, time.time() - t0


def sha(text):
    return hashlib.sha256(text.encode('utf-8', 'surrogatepass')).hexdigest()[:16]


def dump_json(path, obj):
    os.makedirs(os.path.dirname(path), exist_ok=True)
    tmp = path + '.tmp'
    with open(tmp, 'w') as f:
        json.dump(obj, f, indent=1, sort_keys=False, default=repr)
        f.write('\n')
    os.replace(tmp, path)
