"""Translator for C11: the statements of yatiml (and of the PyYAML class methods they call) that create
or write classes, instances and registries -> programs of the registry machine
(`lean/YatimlModel/Model/Registry.lean`), plus the class hierarchy and class-level registries as they
are after `import yatiml` (read from the live objects), plus a census of every other place in the
package that writes shared state.

Everything not recognised raises `Untranslatable`: the tie is then reported as broken, never
approximated.  What is *summarised* (sound for "where do writes land"):
  * a test that does not read a registry (`issubclass(class_, enum.Enum)`, `result is _AnyYAML`, ...):
    equal arms -> one arm; one empty arm -> the other arm, inside a loop that may run any number of
    times (0, 1, ...);
  * local lists (`new_resolvers = []`) are not heap objects of the model: appending to a local list
    that was created in the same function is no write at all; a list taken out of a table by
    iterating `X.items()` is tracked as "a list of X" (appending to it is a write into X's lists);
  * PyYAML's `__init__` chain (Reader, Scanner, Parser, Composer, Constructor, Resolver / Emitter,
    Serializer, Representer, Resolver) only sets instance attributes: hand-modelled as `newInst`.
"""
import ast
import inspect
import os
import textwrap

from common import GEN_DIR, REPO, use_repo, write_if_changed


class Untranslatable(Exception):
    pass


PYYAML_CLASSMETHODS = ('add_constructor', 'add_multi_constructor', 'add_representer',
                       'add_multi_representer', 'add_implicit_resolver', 'add_path_resolver')
LOCAL_INLINE = ('add_to_loader', 'set_document_type', 'add_to_dumper')
MUTATORS = ('append', 'extend', 'insert', 'pop', 'remove', 'clear', 'update', 'setdefault', 'popitem',
            'add', 'discard', 'sort', 'reverse', '__setitem__', '__delitem__') + PYYAML_CLASSMETHODS
FACTORIES = {'load_function': ('loader.py', 'UserLoader', 'Loader'),
             'dumps_function': ('dumper.py', 'UserDumper', 'Dumper'),
             'dump_function': ('dumper.py', 'UserDumper', 'Dumper'),
             'dumps_json_function': ('dumper.py', 'UserDumper', 'Dumper'),
             'dump_json_function': ('dumper.py', 'UserDumper', 'Dumper')}
CLSVAR = 'FnClass'


class Names:
    def __init__(self):
        self.ids = {}

    def __call__(self, s):
        if s not in self.ids:
            self.ids[s] = len(self.ids)
        return self.ids[s]


NAMES = Names()


def src(n):
    return ast.unparse(n)


def mangle(cls, attr):
    if attr.startswith('__') and not attr.endswith('__') and cls:
        return '_' + cls.lstrip('_') + attr
    return attr


# ---- IR (python side) -------------------------------------------------------------------------
# E: ('var', x) ('attr', E, a) ('none',) ('atom', s) ('newTbl',) ('copyTbl', E) ('deepCopyTbl', E)
# Simple: ('assign', x, E) ('newClass', x, E, [(a, s)]) ('newInst', x, E) ('setAttr', E, a, E)
#         ('tblSet', E) ('tblSetList', E, E|None) ('tblAppendIn', E)
# Stmt: ('simple', S) ('ifNone', E, [S]) ('ifNotOwn', E, a, [S])
# Top: ('stmt', Stmt) ('loop', [Stmt])

def erase(x):
    if isinstance(x, tuple):
        if x and x[0] == 'atom':
            return ('atom', '')
        return tuple(erase(y) for y in x)
    if isinstance(x, list):
        return [erase(y) for y in x]
    return x


class Local:
    """translator-side knowledge about a local name"""
    def __init__(self, kind, of=None):
        self.kind = kind      # 'pylist' (fresh local list), 'listof' (a list taken out of table `of`),
        self.of = of          # 'atom', 'tbl' (IR variable holding a table), 'obj' (IR variable / E)


class Compiler:
    def __init__(self, module_tree, module_name, cls_name=None):
        self.tree = module_tree
        self.module = module_name
        self.cls_name = cls_name
        self.funcs = {n.name: n for n in module_tree.body if isinstance(n, ast.FunctionDef)}
        self.classes = {n.name: n for n in module_tree.body if isinstance(n, ast.ClassDef)}
        self.used = set()          # (module, qualified function) translated -> not in the census

    # -- expressions ----------------------------------------------------------------------------
    def to_E(self, node, sc):
        """an expression denoting a heap object (or None) -> E, else None"""
        if isinstance(node, ast.Constant) and node.value is None:
            return ('none',)
        if isinstance(node, ast.Name):
            loc = sc.get(node.id)
            if loc is not None and loc.kind in ('obj', 'tbl'):
                return loc.of
            return None
        if isinstance(node, ast.Attribute):
            base = self.to_E(node.value, sc)
            if base is not None:
                return ('attr', base, mangle(sc.get('__class__').of if sc.get('__class__') else None, node.attr))
            return None
        return None

    def mentions_registry(self, node, sc):
        for n in ast.walk(node):
            if isinstance(n, ast.Attribute) and self.to_E(n, sc) is not None:
                return True
        return False

    def rhs(self, node, sc):
        """right-hand side -> (E, python-side Local for the target or None)"""
        e = self.to_E(node, sc)
        if e is not None:
            return e
        if isinstance(node, ast.Call) and src(node.func) == 'dict' and not node.args and not node.keywords:
            return ('newTbl',)
        if isinstance(node, ast.Dict) and not node.keys:
            return ('newTbl',)
        if isinstance(node, ast.Call) and src(node.func) == 'dict' and len(node.args) == 1:
            inner = self.to_E(node.args[0], sc)
            if inner is not None:
                return ('copyTbl', inner)
        if isinstance(node, ast.Call) and isinstance(node.func, ast.Attribute) and node.func.attr == 'copy' \
                and not node.args:
            inner = self.to_E(node.func.value, sc)
            if inner is not None:
                return ('copyTbl', inner)
        if isinstance(node, ast.DictComp) and len(node.generators) == 1:
            g = node.generators[0]
            it = g.iter
            if isinstance(it, ast.Call) and isinstance(it.func, ast.Attribute) and it.func.attr == 'items' \
                    and isinstance(g.target, ast.Tuple) and len(g.target.elts) == 2 and not g.ifs:
                inner = self.to_E(it.func.value, sc)
                k, v = [src(x) for x in g.target.elts]
                if inner is not None and src(node.key) == k:
                    val = node.value
                    if src(val) == v:
                        return ('copyTbl', inner)
                    if (isinstance(val, ast.Call) and src(val.func) == 'list' and [src(a) for a in val.args] == [v]) \
                            or (isinstance(val, ast.ListComp)) \
                            or src(val) == v + '[:]':
                        return ('deepCopyTbl', inner)
            raise Untranslatable('dict comprehension ' + src(node)[:80])
        if self.mentions_registry(node, sc):
            # a registry handed to something else: only reads are assumed (census covers the callee)
            for n in ast.walk(node):
                if isinstance(n, ast.Call) and isinstance(n.func, ast.Attribute) and n.func.attr in MUTATORS:
                    raise Untranslatable('mutation inside an expression: ' + src(node)[:80])
        return ('atom', src(node)[:60])

    def is_fresh_list(self, node, sc):
        if isinstance(node, (ast.List, ast.ListComp)):
            return True
        if isinstance(node, ast.Call) and src(node.func) in ('list', 'sorted'):
            return True
        if isinstance(node, ast.Name) and sc.get(node.id) is not None and sc[node.id].kind == 'pylist':
            return True
        return False

    # -- statements -----------------------------------------------------------------------------
    def block(self, stmts, sc, in_loop):
        """-> list of Top (when not in_loop) or list of Stmt (in_loop)"""
        out = []
        for st in stmts:
            out += self.stmt(st, sc, in_loop)
        return out

    def wrap(self, stmts, in_loop):
        return stmts if in_loop else [('stmt', s) for s in stmts]

    def simples_only(self, items, what):
        res = []
        for it in items:
            if it[0] == 'stmt':
                it = it[1]
            if it[0] != 'simple':
                raise Untranslatable('nested control flow in ' + what)
            res.append(it[1])
        return res

    def stmt(self, st, sc, in_loop):
        W = lambda simples: self.wrap([('simple', s) for s in simples], in_loop)  # noqa: E731
        if isinstance(st, ast.Expr) and isinstance(st.value, ast.Constant):
            return []
        if isinstance(st, (ast.Pass, ast.Return, ast.Import, ast.ImportFrom)):
            return []
        if isinstance(st, ast.ClassDef):
            return W(self.classdef(st, sc))
        if isinstance(st, ast.FunctionDef):
            return []
        if isinstance(st, ast.If):
            return self.if_(st, sc, in_loop)
        if isinstance(st, ast.For):
            return self.for_(st, sc, in_loop)
        if isinstance(st, (ast.Assign, ast.AnnAssign)):
            targets = st.targets if isinstance(st, ast.Assign) else [st.target]
            if len(targets) != 1 or st.value is None:
                raise Untranslatable('assignment ' + src(st)[:60])
            if isinstance(st.value, ast.Call) and isinstance(targets[0], (ast.Name, ast.Tuple)):
                ir = self.call_returning(targets[0], st.value, sc, in_loop)
                if ir is not None:
                    return ir
            return W(self.assign(targets[0], st.value, sc))
        if isinstance(st, ast.Expr) and isinstance(st.value, ast.Call):
            return self.call(st.value, sc, in_loop)
        raise Untranslatable('statement ' + src(st)[:80])

    def classdef(self, st, sc):
        funcs = [b for b in st.body if isinstance(b, ast.FunctionDef)]
        plain_bases = st.bases and all(self.to_E(b, sc) is None and not self.mentions_registry(b, sc)
                                       and self.plain_module_class(b) for b in st.bases)
        if not st.bases or plain_bases:
            for b in st.body:
                if not (isinstance(b, ast.FunctionDef) or (isinstance(b, ast.Expr) and isinstance(b.value, ast.Constant))):
                    raise Untranslatable('class-level state in ' + st.name)
            sc[st.name] = Local('atom')
            return []
        if len(st.bases) != 1 or funcs:
            raise Untranslatable('class ' + st.name)
        parent = self.to_E(st.bases[0], sc)
        if parent is None:
            raise Untranslatable('base class of ' + st.name)
        attrs = []
        for b in st.body:
            if isinstance(b, ast.Pass) or (isinstance(b, ast.Expr) and isinstance(b.value, ast.Constant)):
                continue
            if isinstance(b, ast.Assign) and len(b.targets) == 1 and isinstance(b.targets[0], ast.Name) \
                    and isinstance(b.value, ast.Constant):
                attrs.append((b.targets[0].id, repr(b.value.value)))
                continue
            raise Untranslatable('class body of ' + st.name + ': ' + src(b)[:60])
        sc[st.name] = Local('obj', ('var', st.name))
        return [('newClass', st.name, parent, attrs)]

    def plain_module_class(self, base):
        """a base class named at module level of the same module whose body holds only methods and
        docstrings (no class-level state), itself without heap-object bases"""
        if not isinstance(base, ast.Name) or base.id not in self.classes:
            return False
        cd = self.classes[base.id]
        if any(not (isinstance(b, ast.FunctionDef) or (isinstance(b, ast.Expr) and isinstance(b.value, ast.Constant))
                    or isinstance(b, ast.Pass)) for b in cd.body):
            return False
        return all(self.plain_module_class(b) for b in cd.bases)

    def call_returning(self, target, call, sc, in_loop):
        """`x = helper(...)` / `a, b = helper(...)` for a function of the same module: the body is inlined,
        the names get what the `return` expression denotes in the callee's scope; None if not applicable"""
        f = call.func
        if not (isinstance(f, ast.Name) and f.id in self.funcs) or call.keywords:
            return None
        fn = self.funcs[f.id]
        rets = [n for n in ast.walk(fn) if isinstance(n, ast.Return)]
        stack = getattr(self, '_inline_stack', [])
        if f.id in stack or not rets:
            return None
        self._inline_stack = stack + [f.id]
        try:
            ir, nsc = self.inline(fn, None, call.args, sc, in_loop, (self.module, f.id), want_scope=True)
        finally:
            self._inline_stack = stack
        names = [target] if isinstance(target, ast.Name) else list(target.elts)
        heap_arg = any(isinstance(n, ast.Name) and sc.get(n.id) is not None and sc[n.id].kind in ('tbl', 'obj', 'listof')
                       for a in call.args for n in ast.walk(a))
        if not ir and not heap_arg and all(isinstance(n, ast.Name) for n in names) \
                and not any(r.value is not None and self.mentions_registry(r.value, nsc) for r in rets):
            # a pure helper (no heap object goes in, none is touched, none comes out): plain values
            for n in names:
                sc[n.id] = Local('atom')
            return []
        if len(rets) != 1 or fn.body[-1] is not rets[0] or rets[0].value is None:
            raise Untranslatable('returns of ' + f.id)
        rv = rets[0].value
        vals = [rv] if isinstance(target, ast.Name) else (list(rv.elts) if isinstance(rv, ast.Tuple) else None)
        if vals is None or len(vals) != len(names) or not all(isinstance(n, ast.Name) for n in names):
            raise Untranslatable('return of ' + f.id)
        for n, v in zip(names, vals):
            e = self.to_E(v, nsc)
            if e is not None:
                sc[n.id] = Local('obj', e)
            elif isinstance(v, ast.Name) and nsc.get(v.id) is not None:
                sc[n.id] = nsc[v.id]
            elif self.mentions_registry(v, nsc):
                raise Untranslatable('return of ' + f.id + ': ' + src(v)[:40])
            else:
                sc[n.id] = Local('pylist') if self.is_fresh_list(v, nsc) else Local('atom')
        return ir

    def assign(self, target, value, sc):
        if isinstance(target, ast.Name):
            e = self.rhs(value, sc)
            if self.is_fresh_list(value, sc) or (isinstance(value, ast.Tuple)):
                sc[target.id] = Local('pylist')
                return []
            if e[0] == 'atom':
                sc[target.id] = Local('atom')
                return []
            if e[0] in ('newTbl', 'copyTbl', 'deepCopyTbl'):
                sc[target.id] = Local('tbl', ('var', target.id))
                return [('assign', target.id, e)]
            sc[target.id] = Local('obj', ('var', target.id))
            return [('assign', target.id, e)]
        if isinstance(target, ast.Attribute):
            obj = self.to_E(target.value, sc)
            if obj is None:
                raise Untranslatable('attribute store on ' + src(target.value))
            cls = sc.get('__class__').of if sc.get('__class__') else None
            return [('setAttr', obj, mangle(cls, target.attr), self.rhs(value, sc))]
        if isinstance(target, ast.Subscript):
            tbl = self.to_E(target.value, sc)
            if tbl is None:
                if isinstance(target.value, ast.Name) and sc.get(target.value.id) is not None \
                        and sc[target.value.id].kind == 'pylist':
                    return []
                raise Untranslatable('subscript store on ' + src(target.value))
            if self.is_fresh_list(value, sc):
                return [('tblSetList', tbl, None)]
            if isinstance(value, ast.Name) and sc.get(value.id) is not None and sc[value.id].kind == 'listof':
                return [('tblSetList', tbl, sc[value.id].of)]
            return [('tblSet', tbl)]
        raise Untranslatable('assignment target ' + src(target))

    def if_(self, st, sc, in_loop):
        test = st.test
        # `X is None`
        if isinstance(test, ast.Compare) and len(test.ops) == 1 and isinstance(test.ops[0], ast.Is) \
                and isinstance(test.comparators[0], ast.Constant) and test.comparators[0].value is None:
            e = self.to_E(test.left, sc)
            if e is not None:
                if st.orelse:
                    raise Untranslatable('else of `is None` test')
                body = self.simples_only(self.block(st.body, sc, True), '`if X is None`')
                return self.wrap([('ifNone', e, body)], in_loop)
        # `not 'a' in X.__dict__`
        t = test
        neg = False
        if isinstance(t, ast.UnaryOp) and isinstance(t.op, ast.Not):
            t = t.operand
            neg = True
        if isinstance(t, ast.Compare) and len(t.ops) == 1 and isinstance(t.ops[0], (ast.In, ast.NotIn)) \
                and isinstance(t.comparators[0], ast.Attribute) and t.comparators[0].attr == '__dict__' \
                and isinstance(t.left, ast.Constant):
            if isinstance(t.ops[0], ast.NotIn):
                neg = not neg
            obj = self.to_E(t.comparators[0].value, sc)
            if obj is None or not neg or st.orelse:
                raise Untranslatable('__dict__ test ' + src(test))
            body = self.simples_only(self.block(st.body, sc, True), '`if not a in X.__dict__`')
            return self.wrap([('ifNotOwn', obj, t.left.value, body)], in_loop)
        if self.mentions_registry(test, sc):
            raise Untranslatable('branch on a registry: ' + src(test))
        # data condition
        sc1, sc2 = dict(sc), dict(sc)
        a = self.block(st.body, sc1, True)
        b = self.block(st.orelse, sc2, True)
        for k in set(sc1) | set(sc2):
            if k in sc1 and k in sc2:
                if (sc1[k].kind, sc1[k].of) != (sc2[k].kind, sc2[k].of):
                    if sc.get(k) is not None and (sc[k].kind, sc[k].of) in ((sc1[k].kind, sc1[k].of), (sc2[k].kind, sc2[k].of)) \
                            and {sc1[k].kind, sc2[k].kind} <= {'pylist', 'atom'}:
                        sc[k] = sc1[k] if sc1[k].kind == 'pylist' else sc2[k]
                        continue
                    raise Untranslatable('name {} differs between branches'.format(k))
                sc[k] = sc1[k]
            else:
                loc = sc1.get(k) or sc2.get(k)
                if loc.kind in ('atom', 'pylist'):
                    sc[k] = loc
                else:
                    raise Untranslatable('object bound in one branch only: ' + k)
        if erase(a) == erase(b):
            return self.wrap(a, in_loop)
        if a and b:
            raise Untranslatable('branches differ: ' + src(test))
        arm = a or b
        if in_loop:
            return arm
        return [('loop', arm)]

    def for_(self, st, sc, in_loop):
        if st.orelse:
            raise Untranslatable('for-else')
        it = st.iter
        # `for x in (A, B):` over a literal of plain names: the body, once per element
        if isinstance(it, (ast.Tuple, ast.List)) and it.elts and isinstance(st.target, ast.Name) and not in_loop \
                and all(isinstance(e, (ast.Name, ast.Attribute, ast.Constant)) and self.to_E(e, sc) is None
                        for e in it.elts):
            sc[st.target.id] = Local('atom')
            out = []
            for _ in it.elts:
                out += self.block(st.body, sc, False)
            return out
        # `for k, v in X.items()`: v is a list of X
        if isinstance(it, ast.Call) and isinstance(it.func, ast.Attribute) and it.func.attr in ('items', 'values'):
            tbl = self.to_E(it.func.value, sc)
            if tbl is not None:
                names = [n.id for n in ast.walk(st.target) if isinstance(n, ast.Name)]
                for n in names[:-1]:
                    sc[n] = Local('atom')
                sc[names[-1]] = Local('listof', tbl)
        elif isinstance(it, ast.Name) and sc.get(it.id) is not None and sc[it.id].kind == 'listof':
            for n in ast.walk(st.target):
                if isinstance(n, ast.Name):
                    sc[n.id] = Local('atom')
        else:
            if self.mentions_registry(it, sc):
                raise Untranslatable('loop over ' + src(it))
            for n in ast.walk(st.target):
                if isinstance(n, ast.Name):
                    sc[n.id] = Local('atom')
        body = self.block(st.body, sc, True)
        if in_loop:
            if body:
                raise Untranslatable('nested loop with heap effects: ' + src(st)[:60])
            return []
        return [('loop', body)] if body else []

    def call(self, c, sc, in_loop):
        f = c.func
        W = lambda simples: self.wrap([('simple', s) for s in simples], in_loop)  # noqa: E731
        fs = src(f)
        if fs.startswith('logger.') or fs in ('print', 'warnings.warn'):
            return []
        if isinstance(f, ast.Name) and f.id in self.funcs:
            # a module-level function of the same module: inlined when it is one of the registration
            # functions or is handed a heap object (a class, a registry) - e.g. a private helper a
            # maintainer extracted from one of them
            heap_arg = any(isinstance(n, ast.Name) and sc.get(n.id) is not None
                           and sc[n.id].kind in ('tbl', 'obj', 'listof')
                           for a in list(c.args) + [k.value for k in c.keywords] for n in ast.walk(a))
            stack = getattr(self, '_inline_stack', [])
            if (f.id in LOCAL_INLINE or heap_arg) and f.id not in stack and not c.keywords:
                self._inline_stack = stack + [f.id]
                try:
                    return self.inline(self.funcs[f.id], None, c.args, sc, in_loop, (self.module, f.id))
                finally:
                    self._inline_stack = stack
        if isinstance(f, ast.Attribute):
            # super().__init__(...) / yaml.SafeDumper.__init__(self, ...): PyYAML's instance set-up
            if f.attr == '__init__' and (src(f.value) == 'super()' or src(f.value).startswith('yaml.')):
                return []
            recv = self.to_E(f.value, sc)
            if recv is not None and f.attr in PYYAML_CLASSMETHODS:
                return self.inline(pyyaml_method(f.attr), recv, c.args, sc, in_loop, None)
            if recv is not None and isinstance(f.value, ast.Name) and f.value.id == 'self':
                cls = sc['__class__'].of
                name = mangle(cls, f.attr)
                meth = [m for m in self.classes[cls].body if isinstance(m, ast.FunctionDef) and m.name == f.attr]
                if meth:
                    return self.inline(meth[0], recv, c.args, sc, in_loop, (self.module, cls + '.' + f.attr))
                raise Untranslatable('method ' + name)
            # local python list
            if isinstance(f.value, ast.Name) and sc.get(f.value.id) is not None:
                loc = sc[f.value.id]
                if loc.kind == 'pylist' and f.attr in ('append', 'extend', 'insert', 'sort', 'remove', 'pop'):
                    return []
                if loc.kind == 'listof' and f.attr in MUTATORS:
                    return W([('tblAppendIn', loc.of)])
            # X.setdefault(k, []).append(v)  /  X[k].append(v)
            if f.attr in ('append', 'extend', 'insert'):
                inner = f.value
                if isinstance(inner, ast.Call) and isinstance(inner.func, ast.Attribute) \
                        and inner.func.attr in ('setdefault', 'get'):
                    tbl = self.to_E(inner.func.value, sc)
                    if tbl is not None:
                        return W([('tblAppendIn', tbl)])
                if isinstance(inner, ast.Subscript):
                    tbl = self.to_E(inner.value, sc)
                    if tbl is not None:
                        return W([('tblAppendIn', tbl)])
            if recv is not None and f.attr in ('update', 'pop', 'clear', 'setdefault', 'popitem', '__setitem__'):
                return W([('tblSet', recv)])
        if self.mentions_registry(c, sc):
            raise Untranslatable('call ' + src(c)[:80])
        # a call on local data only
        for n in ast.walk(c):
            if isinstance(n, ast.Name) and sc.get(n.id) is not None and sc[n.id].kind in ('tbl', 'obj', 'listof'):
                raise Untranslatable('call passing a heap object: ' + src(c)[:80])
        return []

    def inline(self, fn, recv, args, sc, in_loop, used, want_scope=False):
        if used:
            self.used.add(used)
        params = [a.arg for a in fn.args.args]
        nsc = {}
        if '__class__' in sc:
            nsc['__class__'] = sc['__class__']
        # globals of the callee's module that denote heap objects
        for k, v in sc.items():
            if k in ('Loader', 'Dumper'):
                nsc[k] = v
        actual = list(args)
        if recv is not None:
            nsc[params[0]] = Local('obj', recv)
            params = params[1:]
        for i, p in enumerate(params):
            if i < len(actual):
                e = self.to_E(actual[i], sc)
                if e is not None:
                    nsc[p] = Local('obj', e)
                elif isinstance(actual[i], ast.Name) and sc.get(actual[i].id) is not None:
                    nsc[p] = sc[actual[i].id]
                elif self.is_fresh_list(actual[i], sc):
                    nsc[p] = Local('pylist')
                else:
                    nsc[p] = Local('atom')
            else:
                nsc[p] = Local('atom')
        ir = self.block(fn.body, nsc, in_loop)
        return (ir, nsc) if want_scope else ir


_PYYAML = {}


def pyyaml_method(name):
    if name not in _PYYAML:
        import yaml
        owner = {'add_constructor': yaml.constructor.BaseConstructor,
                 'add_multi_constructor': yaml.constructor.BaseConstructor,
                 'add_representer': yaml.representer.BaseRepresenter,
                 'add_multi_representer': yaml.representer.BaseRepresenter,
                 'add_implicit_resolver': yaml.resolver.BaseResolver,
                 'add_path_resolver': yaml.resolver.BaseResolver}[name]
        source = textwrap.dedent(inspect.getsource(owner.__dict__[name].__func__))
        _PYYAML[name] = [n for n in ast.parse(source).body if isinstance(n, ast.FunctionDef)][0]
    return _PYYAML[name]


# ---- programs -----------------------------------------------------------------------------------

def parse(fname):
    return ast.parse(open(os.path.join(REPO, 'yatiml', fname)).read())


def factory_program(kind, comp, tree):
    fname, clsname, base = FACTORIES[kind]
    fn = [n for n in tree.body if isinstance(n, ast.FunctionDef) and n.name == kind][-1]
    comp.used.add((comp.module, kind))
    sc = {base: Local('obj', ('var', base))}
    for a in fn.args.args + ([fn.args.vararg] if fn.args.vararg else []) + fn.args.kwonlyargs:
        sc[a.arg] = Local('pylist' if fn.args.vararg is a else 'atom')
    prog = comp.block(fn.body, sc, False)
    ret = [n for n in fn.body if isinstance(n, ast.Return)]
    if len(ret) != 1 or not isinstance(ret[0].value, ast.Call) or len(ret[0].value.args) != 1:
        raise Untranslatable('return of ' + kind)
    cls_e = comp.to_E(ret[0].value.args[0], sc)
    if cls_e is None:
        raise Untranslatable('class handed to the function object of ' + kind)
    prog.append(('stmt', ('simple', ('assign', CLSVAR, cls_e))))
    return prog


def call_program(kind, comp, tree):
    fname, clsname, base = FACTORIES[kind]
    cls = [n for n in tree.body if isinstance(n, ast.ClassDef) and n.name == base][0]
    init = [m for m in cls.body if isinstance(m, ast.FunctionDef) and m.name == '__init__']
    prog = [('stmt', ('simple', ('newInst', 'self', ('var', CLSVAR))))]
    if init:
        comp.used.add((comp.module, base + '.__init__'))
        sc = {'__class__': Local('atom', base), 'self': Local('obj', ('var', 'self')),
              base: Local('obj', ('var', base))}
        for a in init[0].args.args[1:] + ([init[0].args.vararg] if init[0].args.vararg else []) \
                + ([init[0].args.kwarg] if init[0].args.kwarg else []):
            sc[a.arg] = Local('atom')
        prog += comp.block(init[0].body, sc, False)
    return prog


# ---- census: writes to shared state outside the translated functions -----------------------------

def class_mutables():
    """class-level mutable attributes of yatiml's own Loader / Dumper (other than the PyYAML registries):
    shared by every instance of every function unless `__init__` replaces them"""
    import yatiml
    out = set()
    for c in (yatiml.loader.Loader, yatiml.dumper.Dumper):
        for k, v in vars(c).items():
            if isinstance(v, (list, dict, set, bytearray)) and not k.startswith('yaml_') and not k.startswith('__'):
                out.add(k)
    return out


def census(used, own_after_init=()):
    hits = []
    shared_self = ['self.' + k for k in class_mutables() if k not in own_after_init]
    pkg = os.path.join(REPO, 'yatiml')
    for fname in sorted(os.listdir(pkg)):
        if not fname.endswith('.py'):
            continue
        tree = ast.parse(open(os.path.join(pkg, fname)).read())
        module_names = set()
        for n in tree.body:
            if isinstance(n, (ast.Assign, ast.AnnAssign)):
                for t in (n.targets if isinstance(n, ast.Assign) else [n.target]):
                    for x in ast.walk(t):
                        if isinstance(x, ast.Name):
                            module_names.add(x.id)
            if isinstance(n, ast.ClassDef):
                module_names.add(n.name)

        def visit(fn, qual):
            if (fname, qual) in used:
                return
            local_names = {a.arg for a in ast.walk(fn.args) if isinstance(a, ast.arg)}
            for n in ast.walk(fn):
                if isinstance(n, (ast.Assign, ast.AnnAssign, ast.AugAssign)):
                    ts = n.targets if isinstance(n, ast.Assign) else [n.target]
                    for t in ts:
                        for x in ast.walk(t):
                            if isinstance(x, ast.Name) and isinstance(x.ctx, ast.Store):
                                local_names.add(x.id)
                if isinstance(n, (ast.For, ast.comprehension)):
                    for x in ast.walk(n.target):
                        if isinstance(x, ast.Name):
                            local_names.add(x.id)
                if isinstance(n, (ast.With,)):
                    for i in n.items:
                        if i.optional_vars is not None:
                            for x in ast.walk(i.optional_vars):
                                if isinstance(x, ast.Name):
                                    local_names.add(x.id)
            for n in ast.walk(fn):
                where = '{}:{} {}'.format(fname, getattr(n, 'lineno', 0), qual)
                if isinstance(n, (ast.Global, ast.Nonlocal)):
                    hits.append(where + ': ' + src(n))
                if isinstance(n, ast.Call):
                    fs = src(n.func)
                    if fs in ('setattr', 'delattr') or fs.endswith('lru_cache') or fs.endswith('.cache'):
                        hits.append(where + ': ' + src(n)[:60])
                    if isinstance(n.func, ast.Attribute) and n.func.attr in MUTATORS:
                        root = n.func.value
                        text = src(root)
                        if isinstance(root, ast.Name) and root.id in module_names and root.id not in local_names:
                            hits.append(where + ': mutates module-level ' + src(n)[:60])
                        elif any(k in text for k in SHARED_WORDS) or any(text.startswith(k) for k in shared_self):
                            hits.append(where + ': ' + src(n)[:60])
                        elif text.startswith('type(') or text.startswith('cls.') or text == 'cls' \
                                or '__class__' in text:
                            hits.append(where + ': ' + src(n)[:60])
                targets = []
                if isinstance(n, ast.Assign):
                    targets = n.targets
                elif isinstance(n, (ast.AugAssign, ast.AnnAssign)):
                    targets = [n.target]
                elif isinstance(n, ast.Delete):
                    targets = n.targets
                for t in targets:
                    for x in ([t] + (list(t.elts) if isinstance(t, ast.Tuple) else [])):
                        if isinstance(x, (ast.Attribute, ast.Subscript)):
                            text = src(x)
                            root = x
                            while isinstance(root, (ast.Attribute, ast.Subscript)):
                                root = root.value
                            if isinstance(x, ast.Attribute) and isinstance(x.value, ast.Name) and x.value.id == 'self':
                                continue     # an instance attribute of the object being built / used
                            if any(text.startswith(k) for k in shared_self):
                                hits.append(where + ': class-level mutable ' + text[:60])
                                continue
                            if isinstance(root, ast.Name) and root.id in module_names and root.id not in local_names:
                                hits.append(where + ': writes module-level ' + text[:60])
                            elif any(k in text for k in SHARED_WORDS):
                                hits.append(where + ': ' + text[:60])
                            elif text.startswith('type(') or text.startswith('cls.') or '__class__' in text \
                                    or '__dict__' in text:
                                hits.append(where + ': ' + text[:60])
            for d in getattr(fn, 'decorator_list', []):
                if 'cache' in src(d):
                    hits.append('{}:{} {}: decorator {}'.format(fname, fn.lineno, qual, src(d)))

        # a module-level function that is called from module level only (never from inside a function
        # or method) runs at import: like the module-level statements it is part of the base
        top_calls = {n.value.func.id for n in tree.body if isinstance(n, ast.Expr) and isinstance(n.value, ast.Call)
                     and isinstance(n.value.func, ast.Name)}
        inner_calls = set()
        for n in tree.body:
            if isinstance(n, (ast.FunctionDef, ast.ClassDef)):
                for x in ast.walk(n):
                    if isinstance(x, ast.Call) and isinstance(x.func, ast.Name):
                        inner_calls.add(x.func.id)
                    if isinstance(x, ast.Name) and isinstance(x.ctx, ast.Load) and x.id in top_calls \
                            and not isinstance(getattr(x, '_parent_call', None), ast.Call):
                        pass
        import_time = top_calls - inner_calls
        for n in tree.body:
            if isinstance(n, ast.FunctionDef):
                if n.name in import_time:
                    continue
                visit(n, n.name)
            if isinstance(n, ast.ClassDef):
                for m in n.body:
                    if isinstance(m, ast.FunctionDef):
                        visit(m, n.name + '.' + m.name)
        # module level statements that configure shared classes are part of the base (they ran at import)
    return sorted(set(hits))


SHARED_WORDS = ('registered_classes', 'additional_classes', 'yaml_constructors', 'yaml_multi_constructors',
                'yaml_representers', 'yaml_multi_representers', 'yaml_implicit_resolvers',
                'yaml_path_resolvers', 'document_type', 'output_format')


# ---- base heap from the live classes -------------------------------------------------------------

def base_heap(attr_names):
    import yaml  # noqa
    import yatiml
    roots = [('Loader', yatiml.loader.Loader), ('Dumper', yatiml.dumper.Dumper)]
    classes = []
    for _n, r in roots:
        for c in r.__mro__:
            if c is not object and c not in classes:
                classes.append(c)
    # order: parents before children so that indices are stable: reversed MRO order
    classes = sorted(classes, key=lambda c: (len(c.__mro__), c.__module__, c.__name__))
    objs = []        # (kind, payload)
    cls_idx = {}
    tbl_idx = {}
    for c in classes:
        cls_idx[c] = len(objs)
        objs.append(None)
    for c in classes:
        attrs = []
        for a in sorted(attr_names):
            if a in c.__dict__:
                v = c.__dict__[a]
                if v is None:
                    attrs.append((a, ('none',)))
                elif isinstance(v, (dict, list)):
                    if id(v) not in tbl_idx:
                        tbl_idx[id(v)] = len(objs)
                        has_list = isinstance(v, dict) and any(isinstance(x, list) for x in v.values())
                        objs.append(('tbl', 0 if has_list else 3))
                    attrs.append((a, ('ref', 0, tbl_idx[id(v)])))
                else:
                    attrs.append((a, ('atom', repr(v)[:40])))
        mro = [('ref', 0, cls_idx[m]) for m in c.__mro__[1:] if m is not object]
        objs[cls_idx[c]] = ('cls', mro, attrs, c.__module__ + '.' + c.__qualname__)
    env = [(n, ('ref', 0, cls_idx[r])) for n, r in roots]
    return objs, env, cls_idx, tbl_idx


# ---- rendering -------------------------------------------------------------------------------------

def lean_V(v):
    if v[0] == 'none':
        return 'V.none'
    if v[0] == 'ref':
        return '(V.ref {} {})'.format(v[1], v[2])
    return '(V.atom {})'.format(NAMES('atom:' + v[1]))


def lean_E(e):
    k = e[0]
    if k == 'var':
        return '(E.var {})'.format(NAMES(e[1]))
    if k == 'attr':
        return '(E.attr {} {})'.format(lean_E(e[1]), NAMES(e[2]))
    if k == 'none':
        return 'E.none'
    if k == 'atom':
        return '(E.atom {})'.format(NAMES('atom:' + e[1]))
    if k == 'newTbl':
        return 'E.newTbl'
    return '(E.{} {})'.format(k, lean_E(e[1]))


def lean_simple(s):
    k = s[0]
    if k == 'assign':
        return '(Simple.assign {} {})'.format(NAMES(s[1]), lean_E(s[2]))
    if k == 'newClass':
        return '(Simple.newClass {} {} [{}])'.format(
            NAMES(s[1]), lean_E(s[2]), ', '.join('({}, {})'.format(NAMES(a), NAMES('atom:' + v)) for a, v in s[3]))
    if k == 'newInst':
        return '(Simple.newInst {} {})'.format(NAMES(s[1]), lean_E(s[2]))
    if k == 'setAttr':
        return '(Simple.setAttr {} {} {})'.format(lean_E(s[1]), NAMES(s[2]), lean_E(s[3]))
    if k == 'tblSet':
        return '(Simple.tblSet {})'.format(lean_E(s[1]))
    if k == 'tblSetList':
        return '(Simple.tblSetList {} {})'.format(
            lean_E(s[1]), 'Option.none' if s[2] is None else '(some {})'.format(lean_E(s[2])))
    if k == 'tblAppendIn':
        return '(Simple.tblAppendIn {})'.format(lean_E(s[1]))
    raise Untranslatable(str(s))


def lean_stmt(s):
    if s[0] == 'simple':
        return '(Stmt.simple {})'.format(lean_simple(s[1]))
    if s[0] == 'ifNone':
        return '(Stmt.ifNone {} [{}])'.format(lean_E(s[1]), ', '.join(lean_simple(x) for x in s[2]))
    if s[0] == 'ifNotOwn':
        return '(Stmt.ifNotOwn {} {} [{}])'.format(lean_E(s[1]), NAMES(s[2]), ', '.join(lean_simple(x) for x in s[3]))
    raise Untranslatable(str(s))


def lean_top(t):
    if t[0] == 'stmt':
        return 'Top.stmt {}'.format(lean_stmt(t[1]))
    return 'Top.loop [{}]'.format(', '.join(lean_stmt(s) for s in t[1]))


def attr_names_of(progs):
    names = {'_registered_classes', '_additional_classes', 'document_type', 'output_format'} | {
        w for w in SHARED_WORDS if w.startswith('yaml_')}

    def walk(x):
        if isinstance(x, tuple):
            if x and x[0] == 'attr':
                names.add(x[2])
            if x and x[0] == 'setAttr':
                names.add(x[2])
            if x and x[0] == 'ifNotOwn':
                names.add(x[2])
            for y in x:
                walk(y)
        elif isinstance(x, list):
            for y in x:
                walk(y)
        elif isinstance(x, dict):
            for y in x.values():
                walk(y)
    walk(progs)
    return names


def build():
    """-> dict with python-side IR, for the harness too"""
    use_repo()
    global NAMES
    NAMES = Names()
    res = {'factory': {}, 'call': {}, 'errors': []}
    used = set()
    for kind, (fname, clsname, base) in FACTORIES.items():
        tree = parse(fname)
        comp = Compiler(tree, fname)
        try:
            res['factory'][kind] = factory_program(kind, comp, tree)
            res['call'][kind] = call_program(kind, comp, tree)
        except Untranslatable as e:
            res['errors'].append('{}: {}'.format(kind, e))
            res['factory'].setdefault(kind, [])
            res['call'].setdefault(kind, [])
        used |= comp.used
    res['used'] = sorted(used)
    own = set()
    for prog in res['call'].values():
        for t in prog:
            if t[0] == 'stmt' and t[1][0] == 'simple' and t[1][1][0] == 'setAttr' and t[1][1][1] == ('var', 'self'):
                own.add(t[1][1][2])
    res['census'] = census(used, own)
    names = attr_names_of([res['factory'], res['call']])
    res['base'], res['env'], res['cls_idx'], res['tbl_idx'] = base_heap(names)
    res['lean'] = render(res)
    res['names'] = dict(NAMES.ids)
    res['attr_names'] = sorted(names)
    return res


def render(res):
    out = ['-- GENERATED by harness/translate_registry.py from yatiml/loader.py, yatiml/dumper.py, PyYAML\'s',
           '-- add_* class methods and the live class hierarchy; do not edit.',
           'import YatimlModel.Model.Registry',
           'namespace YatimlModel.Gen.Registry',
           'open YatimlModel.Reg']
    kinds = list(FACTORIES)
    body = []
    for kind in kinds:
        body.append('def factory_{} : List Top := [\n  {}\n]'.format(
            kind, ',\n  '.join(lean_top(t) for t in res['factory'][kind])))
        body.append('def call_{} : List Top := [\n  {}\n]'.format(
            kind, ',\n  '.join(lean_top(t) for t in res['call'][kind])))
    objs = []
    for o in res['base']:
        if o[0] == 'tbl':
            objs.append('  Obj.tbl {}'.format(o[1]))
        else:
            objs.append('  Obj.cls [{}] [{}]  -- {}'.format(
                ', '.join(lean_V(m) for m in o[1]),
                ', '.join('({}, {})'.format(NAMES(a), lean_V(v)) for a, v in o[2]), o[3]))
    # comments must not precede a comma: put the comma first
    lines = []
    for i, o in enumerate(objs):
        if '  -- ' in o:
            code, com = o.split('  -- ', 1)
            lines.append(code + (',' if i + 1 < len(objs) else '') + '  -- ' + com)
        else:
            lines.append(o + (',' if i + 1 < len(objs) else ''))
    body.append('def base : List Obj := [\n{}\n]'.format('\n'.join(lines)))
    body.append('def env : List (Name × V) := [{}]'.format(
        ', '.join('({}, {})'.format(NAMES(n), lean_V(v)) for n, v in res['env'])))
    body.append('def kinds : List Name := [{}]'.format(', '.join(str(NAMES('kind:' + k)) for k in kinds)))
    fac = 'def factory (k : Name) : List Top :=\n' + ''.join(
        '  if k = {} then factory_{} else\n'.format(NAMES('kind:' + k), k) for k in kinds) + '  []'
    cal = 'def call (k : Name) : List Top :=\n' + ''.join(
        '  if k = {} then call_{} else\n'.format(NAMES('kind:' + k), k) for k in kinds) + '  []'
    body += [fac, cal]
    body.append('def progs : Progs := {{ base := base, env := env, kinds := kinds, factory := factory, '
                'call := call, clsVar := {} }}'.format(NAMES(CLSVAR)))
    body.append('/-- statements the translator could not express (must be empty) -/\n'
                'def untranslated : List String := [{}]'.format(
                    ', '.join(lean_s(e) for e in res['errors'])))
    body.append('/-- writes to shared state outside the translated functions (must be empty) -/\n'
                'def censusOutside : List String := [{}]'.format(', '.join(lean_s(e) for e in res['census'])))
    body.append('/-- functions whose statements are in the programs above -/\n'
                'def translatedFunctions : List String := [{}]'.format(
                    ', '.join(lean_s('{}:{}'.format(*u)) for u in res['used'])))
    table = ['-- names: ' + ', '.join('{}={}'.format(v, k) for k, v in sorted(NAMES.ids.items(), key=lambda kv: kv[1]))]
    out += table + body + ['end YatimlModel.Gen.Registry']
    return '\n'.join(out) + '\n'


def lean_s(s):
    from common import lean_str
    return lean_str(s)


def generate():
    res = build()
    text = res['lean']
    return ['Registry'] if write_if_changed(GEN_DIR + '/Registry.lean', text) else []


if __name__ == '__main__':
    r = build()
    print(r['lean'])
