"""Common machinery of a check: regenerate, build, audit, decide, write evidence.

A property module (harness/props/cXX.py) provides

    PROPERTY   = 'C09'
    LEAN_MODULES = ['YatimlModel.Props.C09']      # what `lake build` must accept
    THEOREMS   = ['YatimlModel.C09.C09_bool_iff', ...]   # audited with #print axioms
    def translate(ctx) -> list of regenerated Gen files (may raise)
    def explore(ctx)   -> fills ctx.stats / ctx.violations / ctx.disagreements
    def search(ctx, reason) -> intensified search for a failing input (after a
                               proof or correspondence break); same outputs

and this module turns that into exit status, VIOLATION / KNOWN-FINDING lines
and /verif/evidence/<id>.json.
"""
import json
import os
import random
import re
import subprocess
import sys
import time
import traceback

from common import (ALLOWED_AXIOMS, EVIDENCE_DIR, KNOWN_FINDINGS, LEAN_DIR,
                    REPLAY_DIR, REPO, TRUSTED_BASE, VERIF, dump_json, run)

LEAN_ENV = dict(os.environ, MIMALLOC_PURGE_DELAY='-1')
FORBIDDEN = re.compile(
    r'\bsorry\b|\badmit\b|^\s*axiom\s|native_decide|bv_decide|implemented_by|'
    r'\bunsafe\s|maxHeartbeats\s+0', re.M)


class Ctx:
    def __init__(self, prop, tier, seed):
        self.prop = prop
        self.tier = tier
        self.seed = seed
        self.rng = random.Random(seed)
        self.t0 = time.time()
        self.evaluations = 0
        self.nontrivial = set()        # hashable descriptions of distinct non-trivial cases
        self.samples = []
        self.stats = {}
        self.violations = []           # property violated on the real code: dicts
        self.disagreements = []        # model vs implementation: dicts
        self.known_hits = []           # (entry, description)
        self.notes = []
        self.proof = {}
        self.rule = ''
        self._driver = None

    # -- bookkeeping -------------------------------------------------------
    def count(self, key, n=1):
        self.stats[key] = self.stats.get(key, 0) + n

    def case(self, desc, nontrivial=True):
        self.evaluations += 1
        if nontrivial:
            self.nontrivial.add(desc if isinstance(desc, (str, int, tuple)) else repr(desc))

    def sample(self, obj, limit=8):
        if len(self.samples) < limit:
            self.samples.append(obj)

    def violation(self, what, replay):
        """The real code breaks the property on a concrete input."""
        v = dict(what=what, replay=replay)
        self.violations.append(v)
        return v

    def disagree(self, what, replay):
        self.disagreements.append(dict(what=what, replay=replay))

    def budget(self, quick, thorough):
        if getattr(self, 'searching', False) and self.tier != 'thorough':
            return min(thorough, quick * 4)      # the intensified search after a broken tie
        return thorough if self.tier == 'thorough' else quick

    def elapsed(self):
        return time.time() - self.t0

    # -- the compiled Lean driver -------------------------------------------
    def driver(self, lines):
        """Send request lines to the model driver, return answer lines."""
        exe = os.path.join(LEAN_DIR, '.lake', 'build', 'bin', 'driver')
        if not os.path.exists(exe):
            raise DriverUnavailable('driver not built')
        data = '\n'.join(lines) + '\n'
        p = subprocess.run([exe], input=data, stdout=subprocess.PIPE,
                           stderr=subprocess.PIPE, universal_newlines=True,
                           timeout=1800)
        if p.returncode != 0:
            raise DriverUnavailable('driver exit {}: {}'.format(p.returncode, p.stderr[:500]))
        out = p.stdout.split('\n')
        if out and out[-1] == '':
            out.pop()
        if len(out) != len(lines):
            raise DriverUnavailable('driver answered {} lines for {} requests'.format(
                len(out), len(lines)))
        return out


class DriverUnavailable(Exception):
    pass


# ---------------------------------------------------------------------------
# known findings

def load_known(prop):
    """known_findings.txt lines:
         known: property=<id> key=<stable key> <free text>
         fixed: property=<id> <commit> <free text>
    Only `known:` entries suppress (and only the violation with that key)."""
    out = {}
    try:
        with open(KNOWN_FINDINGS) as f:
            for line in f:
                line = line.strip()
                m = re.match(r'known:\s+property=(\S+)\s+key=(\S+)\s+(.*)$', line)
                if m and m.group(1) == prop:
                    out[m.group(2)] = m.group(3)
    except FileNotFoundError:
        pass
    return out


# ---------------------------------------------------------------------------
# Lean side

class build_lock:
    """checks may run side by side: regenerating Gen/*.lean and `lake build` happen one at a time"""
    def __enter__(self):
        import fcntl
        os.makedirs(os.path.join(LEAN_DIR, '.lake'), exist_ok=True)
        self.f = open(os.path.join(LEAN_DIR, '.lake', 'verif-build.lock'), 'w')
        fcntl.flock(self.f, fcntl.LOCK_EX)
        return self

    def __exit__(self, *a):
        import fcntl
        fcntl.flock(self.f, fcntl.LOCK_UN)
        self.f.close()


def lake_build(targets, timeout=3000):
    cmd = ['lake', 'build'] + targets
    with build_lock():
        rc, out, dt = run(cmd, cwd=LEAN_DIR, timeout=timeout, env=LEAN_ENV)
    return rc, out, dt


def audit_axioms(theorems, imports, timeout=1200):
    """#print axioms for each theorem; returns (ok, {thm: [axioms]}, raw)."""
    os.makedirs(os.path.join(VERIF, 'scratch'), exist_ok=True)
    path = os.path.join(VERIF, 'scratch', 'audit_{}.lean'.format(os.getpid()))
    with open(path, 'w') as f:
        for i in imports:
            f.write('import {}\n'.format(i))
        for t in theorems:
            f.write('#print axioms {}\n'.format(t))
    try:
        rc, out, dt = run(['lake', 'env', 'lean', path], cwd=LEAN_DIR,
                          timeout=timeout, env=LEAN_ENV)
    finally:
        try:
            os.remove(path)
        except OSError:
            pass
    res = {}
    for m in re.finditer(r"'([^']+)' depends on axioms: \[([^\]]*)\]", out):
        res[m.group(1)] = [a.strip() for a in m.group(2).replace('\n', ' ').split(',') if a.strip()]
    for m in re.finditer(r"'([^']+)' does not depend on any axioms", out):
        res[m.group(1)] = []
    ok = rc == 0
    for t in theorems:
        if t not in res:
            ok = False
        elif not set(res[t]) <= ALLOWED_AXIOMS:
            ok = False
    return ok, res, out


def strip_comments(text):
    # block comments (possibly nested) and line comments
    out = []
    depth = 0
    i = 0
    n = len(text)
    while i < n:
        if text.startswith('/-', i):
            depth += 1
            i += 2
        elif depth and text.startswith('-/', i):
            depth -= 1
            i += 2
        elif depth:
            i += 1
        elif text.startswith('--', i):
            j = text.find('\n', i)
            i = n if j < 0 else j
        else:
            out.append(text[i])
            i += 1
    return ''.join(out)


def grep_forbidden():
    hits = []
    root = os.path.join(LEAN_DIR, 'YatimlModel')
    files = [os.path.join(LEAN_DIR, 'Main.lean')]
    for d, _, fs in os.walk(root):
        for fn in fs:
            if fn.endswith('.lean'):
                files.append(os.path.join(d, fn))
    for p in files:
        try:
            with open(p) as f:
                body = strip_comments(f.read())
        except FileNotFoundError:
            continue
        for m in FORBIDDEN.finditer(body):
            hits.append('{}: {}'.format(os.path.relpath(p, LEAN_DIR), m.group(0).strip()))
    return hits


def leanchecker(modules, timeout=3000):
    rc, out, dt = run(['lake', 'env', 'leanchecker'] + modules, cwd=LEAN_DIR,
                      timeout=timeout, env=LEAN_ENV)
    return rc == 0, out[-2000:], dt


# ---------------------------------------------------------------------------

def write_replay(prop, name, obj):
    os.makedirs(REPLAY_DIR, exist_ok=True)
    path = os.path.join(REPLAY_DIR, '{}-{}.json'.format(prop, name))
    dump_json(path, obj)
    return os.path.relpath(path, VERIF)


def main(mod, argv):
    import argparse
    ap = argparse.ArgumentParser()
    ap.add_argument('--tier', default=os.environ.get('VERIF_TIER', 'quick'),
                    choices=['quick', 'thorough'])
    ap.add_argument('--replay', default=None)
    ap.add_argument('--no-lean', action='store_true',
                    help='development only: skip the Lean build/audit')
    args = ap.parse_args(argv)
    seed = int(os.environ.get('VERIF_SEED', '0') or 0)
    prop = mod.PROPERTY
    ctx = Ctx(prop, args.tier, seed)

    if args.replay:
        with open(args.replay) as f:
            rep = json.load(f)
        ok = mod.replay(ctx, rep)
        print('replay: property {} on {}'.format('HOLDS' if ok else 'VIOLATED', args.replay))
        return 0 if ok else 1

    broken = []      # reasons why the property is no longer *shown* to hold
    obligations = 0
    discharged = 0
    proof_info = {}

    # 1. translators
    try:
        import gen_all
        with build_lock():
            changed = gen_all.generate_all(prop)      # every Gen/*.lean follows /repo on every run
            changed += [c for c in mod.translate(ctx) if c not in changed]
        proof_info['regenerated'] = changed
    except Exception as e:  # translator met something it does not understand
        broken.append(dict(kind='translator', detail='{}: {}'.format(type(e).__name__, e)))
        proof_info['translator_error'] = traceback.format_exc()[-1500:]

    # 2. Lean: build, axioms, forbidden tokens
    if not args.no_lean:
        targets = list(mod.LEAN_MODULES) + ['driver']
        rc, out, dt = lake_build(targets)
        proof_info['build_s'] = round(dt, 1)
        thms = list(mod.THEOREMS)
        obligations = len(thms) + 1
        if rc != 0:
            failing = sorted(set(re.findall(r'error: (\S+\.lean:\d+:\d+)', out)))
            broken.append(dict(kind='lean-build', detail='lake build failed',
                               where=failing[:10], log=out[-3000:]))
            # try to keep the driver for the search
            lake_build(['driver'])
        else:
            discharged += 1
            ok, axs, raw = audit_axioms(thms, mod.LEAN_MODULES)
            proof_info['axioms'] = axs
            for t in thms:
                if t in axs and set(axs[t]) <= ALLOWED_AXIOMS:
                    discharged += 1
                else:
                    broken.append(dict(kind='axioms', detail='theorem {} missing or uses {}'.format(
                        t, axs.get(t))))
        hits = grep_forbidden()
        proof_info['forbidden_tokens'] = hits
        if hits:
            broken.append(dict(kind='forbidden', detail='; '.join(hits[:5])))
        if args.tier == 'thorough' and rc == 0 and not os.environ.get('VERIF_NO_LEANCHECKER'):
            ok, tail, dt = leanchecker(mod.LEAN_MODULES)
            proof_info['leanchecker'] = dict(ok=ok, seconds=round(dt, 1))
            obligations += 1
            if ok:
                discharged += 1
            else:
                broken.append(dict(kind='leanchecker', detail=tail[-500:]))

    # 3./4. correspondence + specification run on the real code
    try:
        mod.explore(ctx)
    except DriverUnavailable as e:
        broken.append(dict(kind='driver', detail=str(e)))
    if ctx.disagreements:
        broken.append(dict(kind='correspondence',
                           detail='{} model/implementation disagreements'.format(
                               len(ctx.disagreements)),
                           first=ctx.disagreements[0]))

    # intensified search when the tie or a proof broke but no violation is known yet
    if broken and not ctx.violations and hasattr(mod, 'search'):
        try:
            ctx.searching = True
            ctx.rng = random.Random(seed + 7919)
            mod.search(ctx, broken)
        except DriverUnavailable:
            pass

    # decide
    known = load_known(prop)
    new = []
    for v in ctx.violations:
        key = v['replay'].get('key') if isinstance(v['replay'], dict) else None
        if key is not None and key in known:
            ctx.known_hits.append((key, known[key]))
        else:
            new.append(v)
    printed = set()
    for key, text in ctx.known_hits:
        if key not in printed:
            printed.add(key)
            print('KNOWN-FINDING: property={} {} [{}]'.format(prop, text, key))

    status = 0
    replay_path = None
    if not args.replay:
        # replay files of earlier runs describe another tree: remove them
        for name in ('violation', 'broken'):
            try:
                os.remove(os.path.join(REPLAY_DIR, '{}-{}.json'.format(prop, name)))
            except OSError:
                pass
    if new:
        v = new[0]
        rep = dict(property=prop, kind='failing-input', what=v['what'], case=v['replay'],
                   seed=seed, tier=args.tier, also_broken=broken,
                   replay_cmd='./check {} --replay <this file>'.format(prop))
        replay_path = write_replay(prop, 'violation', rep)
        print('VIOLATION property={} replay={}'.format(prop, replay_path))
        status = 1
    elif broken:  # noqa
        rep = dict(property=prop, kind='proof-or-correspondence-broken', broken=broken,
                   seed=seed, tier=args.tier,
                   note='no failing input was found by the search; the property is no longer '
                        'shown to hold')
        replay_path = write_replay(prop, 'broken', rep)
        print('VIOLATION property={} replay={} no-failing-input-found'.format(prop, replay_path))
        status = 1

    # evidence
    cov = dict(
        obligations=max(obligations, 1),
        discharged=discharged if not args.no_lean else 0,
        checker_cmd='cd /verif/lean && lake build {} && lake env lean <#print axioms audit>'.format(
            ' '.join(mod.LEAN_MODULES)) + (' && lake env leanchecker ...' if args.tier == 'thorough' else ''),
        trusted_base=TRUSTED_BASE + list(getattr(mod, 'TRUSTED_EXTRA', [])),
        theorems=list(mod.THEOREMS),
        proof=proof_info,
        evaluations=ctx.evaluations,
        distinct_nontrivial=len(ctx.nontrivial),
        rule=getattr(mod, 'RULE', ctx.rule),
        samples=ctx.samples or ['(no case explored)'],
        traces_validated_against_impl=ctx.stats.get('correspondence_cases', 0),
        disagreements=len(ctx.disagreements),
        distribution=ctx.stats,
        known_findings_hit=[k for k, _ in ctx.known_hits],
        broken=[dict(kind=b['kind'], detail=b['detail']) for b in broken],
        notes=ctx.notes,
    )
    ev = dict(property_id=prop, tier=args.tier, seed=seed, level='proof', coverage=cov,
              assumptions=list(getattr(mod, 'ASSUMPTIONS', [])),
              wall_s=round(time.time() - ctx.t0, 2), violations=len(new) + (1 if (broken and not new) else 0))
    dump_json(os.path.join(EVIDENCE_DIR, '{}.json'.format(prop)), ev)
    print('{}: tier={} seed={} obligations={}/{} evaluations={} distinct={} disagreements={} '
          'violations={} wall={}s'.format(prop, args.tier, seed, discharged, obligations,
                                         ctx.evaluations, len(ctx.nontrivial),
                                         len(ctx.disagreements), len(new), ev['wall_s']))
    return status
