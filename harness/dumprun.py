"""Dump side: generating values of generated class models, running the real representers / dump
functions, canonical forms for the model."""
import datetime
import enum
import io
import math
import pathlib
from collections import OrderedDict, UserString

from common import hexs, unhexs
import classmodel as CM
import loadgen as G
import nodes as N

STRINGS = ['alpha', 'beta', 'x y', '', 'true', 'True', 'false', 'yes', 'no', 'on', 'off', 'null', '~',
           'Null', '1', '12', '-3', '0x1F', '017', '1_000', '1.5', '.5', '1.', '1e5', '1E+5', '+.1',
           '1.5e3', '.inf', '-.inf', '.nan', '1:30', '190:20:30', '2001-01-01', '2001-12-14 21:59:43',
           ' lead', 'trail ', 'a: b', '- x', '# c', 'k #c', '[x]', '{y}', '"q"', "'s'", "it's", 'a"b',
           'multi\nline', 'trailing\n', 'tab\there', 'é ü', '日本', ' ', '<<', '=', '!tag', '&a', '*a',
           '%d', '@x', '`b`', '|', '>', '?', '? x', ': y', 'key: value', ',', '-', '--- x', '...',
           'x' * 90 + ' ' + 'y' * 30, '\x07bell', 'back\\slash', '\U0001F600', 'tRUE', 'fALSE', 'truE', 'TRue',
           'NULL', 'nULL', 'Yes', 'oN', '1.٥', '١٢', '.INF', '.Inf', '.NaN', '+.INF', '1e', '1e+', '0o17', '0b101',
           '1__0', '_1', '1_', '0.', '.', '..', '+', '-.', '1.2.3', '12e03', '0x', '00', '-0', '+12', '1,000',
           'first\x85second', '\x85', 'a\u2028b', 'a\u2029b', '\ufeffbom', 'nb\xa0sp', 'del\x7f', 'esc\x1b[0m',
           'cr\rlf', 'a\x00b' if False else 'nul-free', '\ud7ff', '\ue000', '\ufffd', 'x\x85']
FLOATS = [0.0, -0.0, 1.5, -2.25, 1e22, 1e16, 1.5e-7, 1e-5, 123456789.123, float('inf'), float('-inf'),
          float('nan'), 1.0, 100.0, 5e-324, 1.7976931348623157e308]
INTS = [0, 1, -1, 7, 42, 10 ** 20, -10 ** 12, 255]
DATES = [datetime.date(2001, 1, 1), datetime.date(1999, 12, 31), datetime.datetime(2001, 12, 14, 21, 59, 43),
         datetime.datetime(2001, 12, 14, 21, 59, 43, 100000),
         datetime.datetime(2001, 12, 14, 21, 59, 43, tzinfo=datetime.timezone.utc),
         datetime.datetime(2020, 2, 29, 0, 0, 0, tzinfo=datetime.timezone(datetime.timedelta(hours=-5)))]


class GenFail(Exception):
    pass


def gen_value(rng, model, t, depth=3, strings=None):
    spec = model.spec
    by = model.by_name_spec
    strings = strings or STRINGS
    k = t[0]
    if depth < -6:
        raise GenFail('recursion')
    if k == 'str':
        return rng.choice(strings)
    if k == 'int':
        return rng.choice(INTS)
    if k == 'float':
        return rng.choice(FLOATS)
    if k in ('bool', 'boolfix'):
        return rng.choice([True, False])
    if k == 'null':
        return None
    if k == 'date':
        return rng.choice(DATES)
    if k == 'path':
        return pathlib.Path(rng.choice(['/tmp/x', 'rel/p.txt', 'file', 'a b/c', '.', '~', 'true', '12',
                                        'run/../shared/data.csv', '/data/current/../archive/in.txt', '../up',
                                        'a//b', './x', 'dir/']))
    if k == 'any':
        return gen_plain(rng, depth, strings)
    if k == 'seq':
        return [gen_value(rng, model, t[2], depth - 1, strings) for _ in range(rng.randint(0, 3))]
    if k == 'map':
        d = OrderedDict() if rng.random() < 0.3 else {}
        for _ in range(rng.randint(0, 3)):
            key = gen_value(rng, model, t[2], depth - 1, strings)
            d[key] = gen_value(rng, model, t[3], depth - 1, strings)
        return d
    if k == 'union':
        return gen_value(rng, model, rng.choice(t[1]), depth, strings)
    if k == 'cls':
        name = rng.choice(G.concrete_descendants(spec, t[1]))
        c = by[name]
        cls = model.classes[name]
        import inspect
        if inspect.isabstract(cls) or c.get('abstract'):
            raise GenFail('abstract class')
        if c['kind'] == 'enum':
            return rng.choice(list(cls))
        if c['kind'] in ('str', 'userstring', 'yatimlstring'):
            return cls(rng.choice([s for s in strings if s != 'forbidden']))
        kwargs = OrderedDict()
        for p in c['params']:
            required = p.get('default', CM.NODEFAULT) is CM.NODEFAULT
            if required or rng.random() < 0.6:
                ty = p['type'] if p['type'] is not None else ('any',)
                kwargs[p['name']] = gen_value(rng, model, ty, depth - 1, strings)
        if c.get('extra') and rng.random() < 0.6:
            kwargs['_yatiml_extra'] = OrderedDict((kk, gen_plain(rng, 1, strings))
                                                  for kk in rng.sample(['e1', 'e2', 'x y', 'true'], rng.randint(0, 2)))
        ir = c.get('init_raises')
        if ir is not None and kwargs.get(ir[0]) == ir[1] and type(kwargs.get(ir[0])) is type(ir[1]):
            raise GenFail('constructor would refuse')
        return cls(**kwargs)
    raise ValueError(t)


def gen_plain(rng, depth, strings):
    r = rng.random()
    if depth <= 0 or r < 0.55:
        return rng.choice([rng.choice(strings), rng.choice(INTS), rng.choice(FLOATS), True, False, None,
                           rng.choice(DATES[:3])])
    if r < 0.8:
        return [gen_plain(rng, depth - 1, strings) for _ in range(rng.randint(0, 3))]
    return {rng.choice(strings): gen_plain(rng, depth - 1, strings) for _ in range(rng.randint(0, 3))}


# ---- wire ------------------------------------------------------------------------------------------

def iso(v):
    if isinstance(v, datetime.datetime):
        return v.isoformat(' ')
    return v.isoformat()


def dump_val_sexp(v, model):
    """the value as the Lean representer model sees it"""
    if v is None or isinstance(v, (bool, int, float)):
        return N.scalar_sexp(v)
    if isinstance(v, enum.Enum):
        return '( enum {} {} )'.format(hexs(type(v).__name__), hexs(v.name))
    if isinstance(v, pathlib.PurePath):
        return '( path {} )'.format(hexs(str(v)))
    n = type(v).__name__
    if model is not None and n in model.classes and type(v) is model.classes[n]:
        spec = model.by_name_spec[n]
        if spec['kind'] in ('str', 'userstring', 'yatimlstring'):
            return '( ustr {} {} )'.format(hexs(n), hexs(str(v)))
        if hasattr(v, '_yatiml_attributes'):
            attrs = v._yatiml_attributes()
            items = list(attrs.items())
        else:
            items = [(a, getattr(v, a)) for a in model.defaults_of(n).keys()]
        return ' '.join(['( obj', hexs(n)] + [N.scalar_sexp(a) + ' ' + dump_val_sexp(x, model)
                                              for a, x in items] + [')'])
    if isinstance(v, str):
        return N.scalar_sexp(str(v))
    if isinstance(v, (datetime.date, datetime.datetime)):
        return '( date {} )'.format(hexs(iso(v)))
    if isinstance(v, (list, tuple)):
        return ' '.join(['( list'] + [dump_val_sexp(x, model) for x in v] + [')'])
    if isinstance(v, dict):
        return ' '.join(['( dict'] + [dump_val_sexp(k, model) + ' ' + dump_val_sexp(x, model)
                                      for k, x in v.items()] + [')'])
    raise GenFail('cannot encode {!r}'.format(v))


def denv_wire(model, dumper_cls):
    reps = dumper_cls.yaml_representers
    regs = [c for c in reps if isinstance(c, type) and c.__name__ in model.by_name_spec
            and c is model.classes[c.__name__]]
    out = []
    for cls in regs:
        spec = model.by_name_spec[cls.__name__]
        if issubclass(cls, enum.Enum):
            kind = '( enum {} )'.format(' '.join(hexs(m) for m in cls.__members__))
        elif spec['kind'] in ('str', 'userstring', 'yatimlstring'):
            kind = 'strlike'
        else:
            kind = 'plain'
        own = '~'
        if '_yatiml_sweeten' in cls.__dict__:
            own = '( {} )'.format(' '.join(CM.sav_wire(op) for op in spec['sweeten']))
        mro = '~'
        if hasattr(cls, '_yatiml_sweeten'):
            owner = next(k for k in cls.__mro__ if '_yatiml_sweeten' in k.__dict__)
            ospec = model.by_name_spec[owner.__name__]
            mro = '( {} ( {} ) )'.format(hexs(owner.__name__), ' '.join(CM.sav_wire(op) for op in ospec['sweeten']))
        out.append('( dclass {} ( {} ) {} {} {} )'.format(
            hexs(cls.__name__), ' '.join(hexs(b.__name__) for b in cls.__bases__), kind, own, mro))
    builtin = [c.__name__ for c in reps if c is not None and isinstance(c, type)
               and not (c.__name__ in model.by_name_spec and c is model.classes.get(c.__name__))]
    return '( denv ( {} ) ( {} ) )'.format(' '.join(out), ' '.join(hexs(b) for b in builtin))


class RealDump:
    def __init__(self, model, yatiml, yaml):
        self.model = model
        self.yaml = yaml
        self.yatiml = yatiml
        self.dumps = yatiml.dumps_function(*model.registered)
        self.dumper_cls = self.dumps.dumper

    def node(self, value):
        inst = self.dumper_cls(io.StringIO(), None, False, None, None, None, None, None, None, None, None,
                               None, None, False)
        del self.model.log[:]
        n = inst.represent_data(value)
        return n, [e for e in self.model.log if e[0] == 'swe']

    def text(self, value):
        return self.dumps(value)
