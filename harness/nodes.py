"""yaml.Node <-> wire format, Python scalars, external-function tables, node generators."""
import math

from common import hexs, unhexs

CORE = 'tag:yaml.org,2002:'
T = {k: CORE + k for k in ['str', 'int', 'float', 'bool', 'null', 'timestamp', 'seq', 'map',
                           'binary', 'merge', 'value', 'set', 'omap', 'pairs']}


def mark_of(node):
    m = getattr(node, 'start_mark', None)
    if m is None:
        return (0, 0)
    return (m.line, m.column)


def node_sexp(yaml, node):
    line, col = mark_of(node)
    if isinstance(node, yaml.ScalarNode):
        return '( S {} {} {} {} )'.format(hexs(node.tag), hexs(node.value), line, col)
    if isinstance(node, yaml.SequenceNode):
        return ' '.join(['( Q', hexs(node.tag), str(line), str(col)]
                        + [node_sexp(yaml, x) for x in node.value] + [')'])
    if isinstance(node, yaml.MappingNode):
        return ' '.join(['( M', hexs(node.tag), str(line), str(col)]
                        + [node_sexp(yaml, k) + ' ' + node_sexp(yaml, v) for k, v in node.value] + [')'])
    raise TypeError('not a node: {!r}'.format(node))


def tokens(s):
    return [t for t in s.split(' ') if t]


def parse_sexp(toks, i=0):
    """returns (tree, next index); tree = str atom or list"""
    if toks[i] == '(':
        out = []
        i += 1
        while toks[i] != ')':
            x, i = parse_sexp(toks, i)
            out.append(x)
        return out, i + 1
    return toks[i], i + 1


def canon_node(yaml, node, marks=True):
    """nested tuples for comparison"""
    m = mark_of(node) if marks else None
    if isinstance(node, yaml.ScalarNode):
        return ('S', node.tag, node.value, m)
    if isinstance(node, yaml.SequenceNode):
        return ('Q', node.tag, m, tuple(canon_node(yaml, x, marks) for x in node.value))
    return ('M', node.tag, m, tuple((canon_node(yaml, k, marks), canon_node(yaml, v, marks))
                                    for k, v in node.value))


def canon_of_sexp(tree, marks=True):
    k = tree[0]
    if k == 'S':
        return ('S', unhexs(tree[1]), unhexs(tree[2]), (int(tree[3]), int(tree[4])) if marks else None)
    if k == 'Q':
        return ('Q', unhexs(tree[1]), (int(tree[2]), int(tree[3])) if marks else None,
                tuple(canon_of_sexp(x, marks) for x in tree[4:]))
    kids = tree[4:]
    return ('M', unhexs(tree[1]), (int(tree[2]), int(tree[3])) if marks else None,
            tuple((canon_of_sexp(kids[i], marks), canon_of_sexp(kids[i + 1], marks))
                  for i in range(0, len(kids), 2)))


def scalar_sexp(v):
    if v is None:
        return '( none )'
    if isinstance(v, bool):
        return '( bool {} )'.format(1 if v else 0)
    if isinstance(v, int):
        return '( int {} )'.format(v)
    if isinstance(v, float):
        return '( float {} {} )'.format(hexs(repr(v)), int(v) if (math.isfinite(v) and v.is_integer()) else 'none')
    if isinstance(v, str):
        return '( str {} )'.format(hexs(v))
    raise TypeError(v)


def scalar_canon(v):
    """canonical text of a Python scalar, the way the driver prints it"""
    return scalar_sexp(v)


def all_scalar_values(yaml, node, out):
    if isinstance(node, yaml.ScalarNode):
        out.add(node.value)
    elif isinstance(node, yaml.SequenceNode):
        for x in node.value:
            all_scalar_values(yaml, x, out)
    elif isinstance(node, yaml.MappingNode):
        for k, v in node.value:
            all_scalar_values(yaml, k, out)
            all_scalar_values(yaml, v, out)
    return out


_ctor = None


def ext_sexp(yaml, strings):
    """the external-function tables for the given scalar texts"""
    global _ctor
    if _ctor is None:
        _ctor = yaml.constructor.SafeConstructor()
    fl, ts, bi = [], [], []
    for s in sorted(strings):
        try:
            x = _ctor.construct_yaml_float(yaml.ScalarNode(T['float'], s))
            fl.append('( {} {} {} )'.format(
                hexs(s), hexs(repr(x)),
                int(x) if (isinstance(x, float) and math.isfinite(x) and x.is_integer()) else 'none'))
        except Exception:
            fl.append('( {} ! none )'.format(hexs(s)))
        try:
            x = _ctor.construct_yaml_timestamp(yaml.ScalarNode(T['timestamp'], s))
            ts.append('( {} {} )'.format(hexs(s), hexs(repr(x))))
        except Exception:
            ts.append('( {} ! )'.format(hexs(s)))
        try:
            x = _ctor.construct_yaml_binary(yaml.ScalarNode(T['binary'], s))
            bi.append('( {} {} )'.format(hexs(s), hexs(repr(x))))
        except Exception:
            bi.append('( {} ! )'.format(hexs(s)))
    return '( ( {} ) ( {} ) ( {} ) )'.format(' '.join(fl), ' '.join(ts), ' '.join(bi))


# ---- generators -----------------------------------------------------------------

SCALAR_POOL = [
    ('str', ['a', 'b', 'item1', 'item2', 'x y', '', 'true', '1', 'é', 'a_b', 'a-b', 'price',
             'item_id', 'k0', 'k1']),
    ('int', ['0', '1', '42', '-7', '+3', '0x1F', '017', '0b101', '1_000', '1:30', '190:20:30',
             '0o17', '-0x1f', '0', '08', '0b', '0x', '1__0', '-']),
    ('float', ['1.5', '.5', '1.', '1e5', '-1.5e-3', '.inf', '-.inf', '.nan', '1.0', '0.0', '-0.0',
               '1_0.5', '1:30.5', '100.0', '1e400', '1.5x', '.', 'inf']),
    ('bool', ['true', 'false', 'True', 'FALSE', 'yes', 'no', 'on', 'Off', 'y', 'n', 'maybe', '']),
    ('null', ['', '~', 'null', 'Null', 'x']),
    ('timestamp', ['2001-01-01', '2001-01-01 12:00:00', '2001-13-45', 'x']),
]


def gen_mark(rng):
    return (rng.randint(0, 30), rng.randint(0, 40))


def mk_mark(yaml, lc, name='<gen>'):
    return yaml.error.Mark(name, 0, lc[0], lc[1], None, 0)


def gen_scalar(yaml, rng, kinds=None, tag=None):
    kind, vals = rng.choice([p for p in SCALAR_POOL if kinds is None or p[0] in kinds])
    v = rng.choice(vals)
    t = tag if tag is not None else T[kind]
    if tag is None and rng.random() < 0.04:
        t = rng.choice(['!Foo', '!Bar', T['binary']])
    m = mk_mark(yaml, gen_mark(rng))
    return yaml.ScalarNode(t, v, m, m)


def gen_node(yaml, rng, depth=2, keys=None):
    r = rng.random()
    if depth <= 0 or r < 0.45:
        return gen_scalar(yaml, rng)
    m = mk_mark(yaml, gen_mark(rng))
    if r < 0.7:
        items = [gen_node(yaml, rng, depth - 1) for _ in range(rng.randint(0, 3))]
        return yaml.SequenceNode(rng.choice([T['seq']] * 9 + ['!Foo']), items, m, m)
    return gen_mapping(yaml, rng, depth, keys)


KEYS = ['a', 'b', 'c', 'item_id', 'price', 'name', 'a_b', 'a-b', 'x']


def gen_mapping(yaml, rng, depth=2, keys=None, distinct=True, nkeys=None):
    m = mk_mark(yaml, gen_mark(rng))
    keys = keys or KEYS
    n = rng.randint(0, min(5, len(keys))) if nkeys is None else nkeys
    ks = rng.sample(keys, n) if distinct else [rng.choice(keys) for _ in range(n)]
    pairs = []
    for k in ks:
        km = mk_mark(yaml, gen_mark(rng))
        if not distinct and rng.random() < 0.1:
            kn = gen_node(yaml, rng, 1)            # a non-scalar or odd key
        else:
            kn = yaml.ScalarNode(T['str'], k, km, km)
        pairs.append((kn, gen_node(yaml, rng, depth - 1, keys)))
    return yaml.MappingNode(rng.choice([T['map']] * 9 + ['!Cls']), pairs, m, m)


def doc_sexp(yaml, root):
    """the composer's node graph (shared node objects, possibly cyclic) as a Doc with anchors/aliases"""
    refs = {}

    def count(n):
        refs[id(n)] = refs.get(id(n), 0) + 1
        if refs[id(n)] > 1:
            return
        if isinstance(n, yaml.SequenceNode):
            for x in n.value:
                count(x)
        elif isinstance(n, yaml.MappingNode):
            for k, v in n.value:
                count(k)
                count(v)
    count(root)
    names = {}

    def emit(n):
        line, col = mark_of(n)
        if id(n) in names:
            return '( DA {} {} {} )'.format(hexs(names[id(n)]), line, col)
        a = '~'
        if refs[id(n)] > 1:
            names[id(n)] = 'a%d' % len(names)
            a = hexs(names[id(n)])
        if isinstance(n, yaml.ScalarNode):
            return '( DS {} {} {} {} {} )'.format(a, hexs(n.tag), hexs(n.value), line, col)
        if isinstance(n, yaml.SequenceNode):
            return ' '.join(['( DQ', a, hexs(n.tag), str(line), str(col)] + [emit(x) for x in n.value] + [')'])
        return ' '.join(['( DM', a, hexs(n.tag), str(line), str(col)]
                        + [emit(k) + ' ' + emit(v) for k, v in n.value] + [')'])
    return emit(root)


def all_scalar_values_graph(yaml, root):
    out, seen = set(), set()

    def rec(n):
        if id(n) in seen:
            return
        seen.add(id(n))
        if isinstance(n, yaml.ScalarNode):
            out.add(n.value)
        elif isinstance(n, yaml.SequenceNode):
            for x in n.value:
                rec(x)
        else:
            for k, v in n.value:
                rec(k)
                rec(v)
    rec(root)
    return out
