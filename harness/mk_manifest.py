"""Writes /verif/MANIFEST.json from the table below (run after adding a check)."""
import json
import os

VERIF = os.path.dirname(os.path.dirname(os.path.abspath(__file__)))
NOTE_COMMON = ('Trusted: Lean 4.33 kernel; axioms propext/Classical.choice/Quot.sound only '
               '(audited by #print axioms on every run, no native_decide/sorry); the translators and '
               'the differential harness; PyYAML scanner/parser/emitter and CPython re/float/json at '
               'their interface (DESIGN.md section 3). ')

CLAIMED = {
    'C09': dict(
        text='Lean 4 theorems over the implicit-resolver table regenerated from the live Loader '
             'instance: for strings of every length the table resolves to bool/float exactly on the '
             'YAML 1.2 languages (reflective regex decision procedure proved sound once, evaluated by '
             'the kernel with decide +kernel), resolved scalars construct, other tags are PyYAML\'s; the '
             'statements are also given in terms of the denotational language of the core-schema '
             'expressions (Lang), the derivative matcher being proved to decide it (rmatch_iff_lang). '
             'Tie: the table is re-extracted from /repo on every run and the model resolve is '
             'compared with Loader.resolve on all strings up to a length bound plus edits and random '
             'strings; end-to-end loads checked against an independent YAML 1.2 oracle.',
        note=NOTE_COMMON + 'CPython re semantics for the admitted constructs; PyYAML bucket dispatch; '
             'plain scalars do not end in a line feed.',
        technique='Lean 4 proof by reflection (regex equivalence, decide +kernel) on a regenerated '
                  'table + differential correspondence',
        ref='DESIGN.md 7 (C09)'),
    'C07': dict(
        text='Lean 4 refinement proof: Dumper.emit_json modelled as a push-down machine over events; '
             'for every tree, stack and configuration it writes exactly what a recursive renderer '
             'writes, whose whitespace-erasure is the canonical RFC 8259 token stream (hence valid '
             'JSON with the same data for every indent), compact output has no whitespace, every '
             'line break is followed by depth*best_indent spaces; json.dumps is modelled on code '
             'points and proved to yield ASCII-only valid string tokens; verbatim numbers are JSON '
             'numbers (regex inclusion by reflection). Character level: an RFC 8259 reference parser '
             'written from the grammar (Spec/JsonParse: white space, strings with every escape and '
             'surrogate pairs, numbers, arrays, objects) reads the TEXT the machine writes - for every '
             'tree, indent, ensure_ascii mode and line break - back as exactly the JSON value of the '
             'tree (C07_emitted_text_is_json, induction over the parser, no size bound), every string '
             'token denotes its string code point by code point (C07_string_token_denotes), and two '
             'formatting options give texts denoting the same value; end to end '
             '(C07_dumps_json_is_projection): for every value of the domain whose classes have no sweeten '
             'hook, the emitter fed the represented tree writes a text that parses to the JSON projection '
             'jsonOf(value) stated on its own (also checked on the real dumps_json for generated class '
             'models); the reference parser is compared '
             'with json.loads on every text produced, on mutations and on edge cases. Tie: exhaustive step-level comparison of the '
             'real emit_json with the model over (state x event x indent), tree-level comparison on '
             'all small shapes x indent x ensure_ascii, json.dumps vs the model encoder.',
        note=NOTE_COMMON + 'PyYAML serializer event order for tree-shaped nodes; Emitter.best_indent '
             'read from the live instance; repr(float)/str(int) shapes (sampled).',
        technique='Lean 4 refinement proof (stack machine vs recursive renderer vs canonical JSON) and '
                  'parse-back proof against an RFC 8259 reference parser + exhaustive step-table '
                  'correspondence',
        ref='DESIGN.md 7 (C07)'),
}

CLAIMED['C14'] = dict(
    text='Lean 4 refinement proof: the mapping accessors of yatiml.Node (has/get/set/remove/rename) '
         'are modelled on the pair list of a mapping node and proved, for operation sequences of '
         'every length on mappings with distinct string keys, to return what an association-list '
         'ordered dictionary returns and to keep the mapping equal to it; distinctness is preserved '
         '(rename onto another existing key is the stated exit); exactly one classifier holds; '
         'set_value/get_value round trip; get_value is the loader\'s scalar construction; '
         'remove_attributes_with_default_values is total and removes exactly the matching defaults. '
         'Tie: random operation sequences, all scalar spellings x core tags, all (default, value) '
         'pairs run on the real yatiml.Node and on the model (results and final node compared), and '
         'against an ordered-dict / loader-constructor oracle.',
    note=NOTE_COMMON + 'construct_yaml_float is an external function of the model (values supplied '
         'per case from the real PyYAML); int() on non-ASCII digits is not modelled.',
    technique='Lean 4 refinement proof (accessors vs ordered dictionary, induction over operation '
              'sequences) + differential correspondence',
    ref='DESIGN.md 7 (C14)')
CLAIMED['C15'] = dict(
    text='Lean 4 theorems on the model of the four structural transforms and the key renamers: '
         'missing attribute or wrong kind leaves the node unchanged and raises nothing, duplicate '
         'keys raise SeasoningError exactly in strict mode, dash/underscore renaming is inverse on '
         'keys free of the target character; inverse pairs: a well-formed item that seq_attribute_to_map '
         'does not reduce to the short form comes back from map_attribute_to_seq as the same mapping '
         'with the key attribute moved to the end, a short-form item (value attribute the sole '
         'remaining key, not holding a mapping) as the two-attribute mapping, likewise for the index '
         'pair, lifted item by item and in order to the whole attribute value. Documented shapes and '
         'round trips are also compared as data against an independent oracle on generated nodes. Tie: every transform and transform '
         'pair on generated nodes (well-formed, wrong kind, mixed, duplicate keys, missing value '
         'attribute) on the real yatiml.Node and on the model, nodes compared.',
    note=NOTE_COMMON + 'marks and tags of regenerated key scalars are part of the model nodes, not of the data equality the property speaks of.',
    technique='Lean 4 proofs (applicability, duplicates, renaming inverse, inverse pairs) + differential '
              'correspondence with a plain-data oracle for shapes and inverse pairs',
    ref='DESIGN.md 7 (C15)')

LOADER_TIE = ('Tie: generated class models (hierarchies, abstract classes, mix-ins, enums, string-likes, '
              'custom recognisers and savorizers from a hook DSL, raising constructors) are realised as '
              'real Python classes and, read back through yatiml\'s own introspection, sent to the compiled '
              'Lean driver together with the composed node tree; values, constructor-call logs, savorize '
              'traces, cited error positions and key names are compared on every generated case. ')
CLAIMED['C03'] = dict(
    text='Lean 4 theorems on the model of Recognizer: recognition soundness by induction on fuel '
         '(every recognised type is admitted by the expected type: a Union member, or a registered, '
         'non-abstract class reachable from the expected class through registered direct-subclass '
         'edges), abstract / unregistered classes never recognised, a non-singleton result makes '
         'processing fail, an explicit tag picks among candidates and a conflicting or unknown tag '
         'fails. Order independence: every recognised type list is duplicate-free '
         '(recognizeReq_nodup); two class tables holding the same classes (distinct names) in another '
         'order recognise the same set of types for every node and type and are fatal together '
         '(C03_registration_order, relational induction over the recogniser, subclass fold by induction '
         'over List.Perm); lifted to the whole load: same value, constructor calls, savorize trace and '
         'processed tree, or failure in both (C03_load_registration_order); the same set for a '
         'permutation of the members of a Union (C03_union_member_order). Also checked '
         'metamorphically on the real code. ' + LOADER_TIE,
    note=NOTE_COMMON + 'permutations of Unions nested inside other types are lifted to load by the '
         'exploration, not by a theorem.',
    technique='Lean 4 proof (induction on fuel over the recogniser model; relational proof over '
              'permutations) + differential correspondence + permutation metamorphic runs',
    ref='DESIGN.md 7 (C03)')
CLAIMED['C08'] = dict(
    text='Lean 4 theorems on the loader model, in which every Python operation that can raise is an '
         'explicit failure site: construction never yields an exception of another type; processing '
         'does not either when custom recognisers raise only RecognitionError (proved from a syntactic '
         'condition on the hooks) — for every document tree, tag assignment, savorize behaviour '
         '(including raising arbitrary exceptions and replacing the node) and constructor behaviour. '
         + LOADER_TIE + 'Exception classes of real loads on mutated documents and token soup are observed.',
    note=NOTE_COMMON + 'exceptions from sites the model does not contain (interpreter level), the '
         'scanner/parser (YAMLError by construction), deep nesting (RecursionError, excluded by the '
         'property).',
    technique='Lean 4 proof (explicit failure sites, induction on fuel) + differential correspondence '
              '+ malformed-input exploration',
    ref='DESIGN.md 7 (C08)')

CLAIMED['C01'] = dict(
    text='Lean 4 theorems on the loader model, for every class model (custom recognisers and savorizers '
         'included), node, type and fuel: C01_loaded_value_conforms - if a load succeeds the value is '
         'of the declared type (built-ins of exactly their kind, lists and dicts element-wise with '
         'keys, a Union by one of its members, a class by an instance of it or of a registered class '
         'derived from it), proved through an invariant on the processed tree (processNode_tagged, '
         'induction over process) and construct_conforms (induction over construction); '
         'C01_every_constructor_call_typed - every user-constructor call a load makes, at any depth, '
         'whether or not the load succeeds afterwards, passed the attribute check (required present, '
         'each present parameter of its declared type, unknown keys only into _yatiml_extra); '
         'recognition soundness, root tag, exact scalar kinds, plain data below Any, the empty '
         'document. Hypotheses of the conformance theorem: core resolver table (proved of the '
         'regenerated table), dict key types str or a class, and EnvWF (no class called Path; the '
         'class table agrees with Python\'s MRO; parameter names distinct) - EnvWF is evaluated on the '
         'real classes of every generated model by the check. On the real code an independent deep '
         'conformance oracle judges every loaded value. ' + LOADER_TIE,
    note=NOTE_COMMON + 'EnvWF is a fact about CPython\'s MRO and introspection, checked per generated '
         'model rather than proved.',
    technique='Lean 4 proofs (invariant through processing, induction over construction, recognition '
              'soundness) + differential correspondence + independent conformance oracle',
    ref='DESIGN.md 7 (C01)')
CLAIMED['C04'] = dict(
    text='Lean 4 theorems: the regenerated resolver table yields core tags only (decide), strip_tags '
         'leaves core tags only, and a tree with core tags only constructs to plain data with an empty '
         'constructor-call log or fails (induction on fuel through flatten_mapping, sequences and '
         'mappings) - hence Any / untyped / extra positions; !!python/* scalars end in a YAML '
         'constructor error; constructor calls are only made for registered classes named by a tag; '
         'and C04_calls_within_reach: every user constructor a load runs, at any depth and whether or '
         'not the load then fails, belongs to a class reachable from the declared type (named by the '
         'type, a registered class derived from it, or reachable from the parameter types of such a '
         'class) - proved by extending the processed-tree invariant into class nodes and following '
         'construct_mapping (hypotheses: core table, EnvWF, argument names = parameters, dict keys '
         'str or a class; the last three evaluated on every generated model). '
         'On the real code: injected tags (registered, unknown, !!python/object[/apply|/new], '
         '!!python/name, !!python/module, core tags) never cause a constructor run for an object that '
         'is not in the result at an admitting position, never import a canary module or call '
         'os.system. ' + LOADER_TIE,
    note=NOTE_COMMON + 'Loader derives from yaml.SafeLoader (asserted each run); "nothing is imported" '
         'is structural in the model and sampled on the real code.',
    technique='Lean 4 proof (plain-data induction over stripped trees, decide on the regenerated '
              'table) + differential correspondence + tag-injection exploration with canaries',
    ref='DESIGN.md 7 (C04)')
CLAIMED['C10'] = dict(
    text='Lean 4 theorems on the model of Loader.__savorize / __process_node: when savorizing succeeds '
         'the hooks that ran are exactly the chain of the class (registered direct bases recursively, '
         'bases first, then the class itself if it defines the hook in its body), each once, whatever '
         'the hooks do to the node (induction on fuel); every savorize failure surfaces as '
         'RecognitionError; savorizing happens on the recognised type before attribute processing and '
         'construction; recognising one class depends only on that class\'s own definition. The real '
         'hook log (which hook, on which class, order) is compared with the chain computed from the '
         'class model and with the model trace. The same chain theorem is proved for '
         '_yatiml_sweeten of plain classes on the dump side (C10_sweeten_chain); dump-side hook logs are '
         'compared too. '
         + LOADER_TIE,
    note=NOTE_COMMON + 'enum and string-like representers look _yatiml_sweeten up with hasattr '
         '(recorded as a known finding when exhibited).',
    technique='Lean 4 proof (trace = chain, induction on fuel) + differential correspondence of hook '
              'logs',
    ref='DESIGN.md 7 (C10)')
CLAIMED['C13'] = dict(
    text='Lean 4 theorems: recognising a mapping as an auto-recognised class is invariant under every '
         'permutation of its key/value pairs; the tag of a recognised container type does not depend '
         'on the List/Sequence/MutableSequence or Dict/Mapping/MutableMapping spelling; two class '
         'models / types that differ in those spellings only admit exactly the same nodes '
         '(C13_kind_interchange_language, induction over the specification of the documented rules) '
         'and a node is recognised as some type under the one iff under the other '
         '(C13_kind_interchange_recognised); registering an unrelated class changes no recognition; '
         'bool_union_fix is recognised exactly when bool is and is dropped next to it. Styles are not '
         'in the model (no code path reads them). On the real code every generated case is re-run '
         'under key reordering, re-serialisation (block/flow/quoted/canonical/JSON, tags preserved), '
         'an additional unrelated class, interchanged container kinds and added bool_union_fix; '
         'outcomes must coincide. ' + LOADER_TIE,
    note=NOTE_COMMON + 'the scanner delivering the same tree for restyled text is PyYAML (checked per '
         'case by re-composition).',
    technique='Lean 4 proofs (permutation invariance of recognition, kind-independent tagging) + '
              'metamorphic runs on the real code + differential correspondence',
    ref='DESIGN.md 7 (C13)')

CLAIMED['C18'] = dict(
    text='Lean 4 theorems on the model of Loader.__expand_aliases over the composer\'s node graph '
         '(anchors, aliases): expansion is a total structural recursion (hence no stack exhaustion on '
         'cycles), an alias to a node that contains itself is rejected with a RecognitionError citing '
         'that node, expanding an alias-free document is the identity, and loading a document equals '
         'loading the document in which every alias is written out as a copy of the anchored node '
         '(same value, same constructor calls, same failure); a syntactic predicate selfRef (some alias '
         'names an anchor of an enclosing collection) characterises the cycle error: raised only for '
         'self-referential documents, and a self-referential document of any cycle length never loads '
         'and runs no constructor (Props/C18Cycle). On the real code each generated document '
         'is loaded with an alias and with the copy written out (nodes of seasoned classes, positions '
         'of different declared types, keys) and the outcomes must coincide; cycles must raise. '
         + LOADER_TIE + 'The driver receives the node graph with its sharing.',
    note=NOTE_COMMON + 'that the composer represents an alias as a second reference to the anchored '
         'node object, and rejects duplicate anchors / undefined aliases itself.',
    technique='Lean 4 proof (structural recursion, expansion of an alias-free document is the '
              'identity, load factors through expansion) + aliased-vs-inlined metamorphic runs + '
              'differential correspondence on node graphs',
    ref='DESIGN.md 7 (C18)')

CLAIMED['C16'] = dict(
    text='Lean 4 theorems: one iff per UnknownNode helper between "returns normally" in the model and '
         'the documented condition - require_mapping / require_sequence / require_scalar (with and '
         'without types), require_attribute (present; with a type: the first value is recognisable by '
         'the loader\'s own recogniser, literally the same function), require_attribute_value and '
         '_value_not (characterised on the list of string-keyed occurrences, by induction over the '
         'pairs: every occurrence equal / none equal, a value of another type counting as different). '
         'Purity is structural in the model (recognition returns no node since the enum retagging fix). '
         'Tie: every helper call on generated nodes x names x values x types runs on a real UnknownNode '
         'and on the model, against an independent evaluation of the documented condition, with a '
         'deep before/after comparison of the node.',
    note=NOTE_COMMON + 'construct_yaml_float as external function.',
    technique='Lean 4 proofs (iff characterisations, induction over mapping pairs) + differential '
              'correspondence + documented-condition oracle + node immutability check',
    ref='DESIGN.md 7 (C16)')
CLAIMED['C17'] = dict(
    text='Lean 4 theorems on structured errors (the model carries, per leaf of the error tree, the '
         'positions and key names the message cites): every construction-phase and processing error '
         'raised through errAt cites exactly one position; a mismatching scalar cites the node; a '
         'missing required key is named with the mapping position; an unknown key is named with the '
         'key position; a wrongly typed attribute cites the value position and names the attribute; '
         'and, by induction over the recogniser (custom recognisers included): whenever recognition '
         'does not single out exactly one type the error has at least one leaf and every leaf cites a '
         'position (C17_recognition_failure_positioned; F15 and F18 were the two counterexamples in the '
         'pinned tree). '
         'On the real code: hierarchy-free models, block-style documents, single corruptions - the '
         'parsed message must cite the line of the corrupted node, its key or the enclosing mapping '
         'and name the key; every RecognitionError must cite a position inside the document. '
         + LOADER_TIE + 'Cited position sets of model and real message are compared on every failure.',
    note=NOTE_COMMON + 'the rendering of marks into text is PyYAML (Mark.__str__); message wording is '
         'not modelled.',
    technique='Lean 4 proofs on structured errors + single-corruption exploration with message parsing '
              '+ differential correspondence of cited positions',
    ref='DESIGN.md 7 (C17)')

CLAIMED['C06'] = dict(
    text='Lean 4 theorems on the representer model: lists/dicts/objects get the default collection '
         'tags, scalars the core tag of their kind, attribute keys come in the order of the attribute '
         'list (parameters in declaration order, then extras), enum members by name; and, by the '
         'guarded reflective regex checker on the regenerated Dumper table, every str(int), every '
         'represented float (finite, .nan, .inf, -.inf), true/false and null resolves to its own tag - '
         'so the serializer marks them implicit and no tag is written. Purity/determinism are '
         'definitional for the model and checked on the real code. Tie: represented node trees and '
         'sweeten traces of the real Dumper vs the model on generated values; the dumped text must be '
         'one tag-free document that a plain YAML parser reads back as the projection; object graph '
         'snapshot before/after; two dumps identical.',
    note=NOTE_COMMON + 'the emitter writes implicit scalars without tag and quotes strings whose plain '
         'form resolves differently (PyYAML emitter analysis, not modelled).',
    technique='Lean 4 proofs (representer structure; reflective resolver lemmas by decide +kernel on '
              'the regenerated Dumper table) + differential correspondence + plain-parser projection '
              'oracle',
    ref='DESIGN.md 7 (C06)')
CLAIMED['C05'] = dict(
    text='Lean 4 theorems, scalar/node level: for every string, if the Dumper\'s resolver says str (the '
         'emitter may write it plain) the Loader\'s resolver says str too (combining the C09 '
         'characterisation, reflective checks on the regenerated tables and a structural lemma that the '
         'other Loader entries are entries of the Dumper table); every represented int / float / '
         'bool / null re-reads with the same tag under the Loader table; enum members and string-likes '
         'construct back from the node the loader tags with their class; dash/underscore renaming is '
         'an inverse pair. Node-level round trip (C05_node_roundtrip / RT_load, Lemmas/RoundTrip): a node tree '
         'that faithfully describes a value for the declared type (at every node recognition singles out one '
         'type - the unambiguity precondition, stated through the recogniser itself - and the node has the '
         'shape of a represented scalar / list / dict / enum member / string-like / user object with its '
         'parameters and extra attributes) loads to exactly that value: recognition, savorize, the attribute '
         'loop, retagging, tag stripping, flatten_mapping / construct_mapping, the missing / unknown / type '
         'checks and the constructor call compose to the identity; with a worked example whose hypotheses are '
         'discharged (the represented node computed by the model of the representers). Closed form for '
         'plain data (C05_plain_data_roundtrip): for strings of any content, integers, booleans, None, lists '
         'and string-keyed dicts nested to any depth the description is derived from the model of the '
         'representers, so load(represent v, T) = v holds with no precondition, for every class model; the '
         'same for objects of simple classes (plain, no hooks, no registered bases or subclasses, with or '
         'without _yatiml_extra holding plain data) holding plain data, floats, paths, enum members, string-likes, Optional positions, '
         'Unions of members told apart by node kind, Any positions, leaf-class objects declared as a '
         'registered ancestor (sibling subtrees rejecting for lack of a required parameter) or '
         'such objects to any depth (C05_simple_objects_roundtrip: '
         'uniqueness of recognition at every node is derived, not assumed). '
         'The text layer is assumption A-text. On the real code load(dumps(v)) must be '
         'structurally equal for generated values of unambiguous class models (adversarial strings, '
         'non-finite floats, dates, paths, enums, string-like keys, extras, shared sub-objects, '
         'inverse sweeten/savorize pairs).',
    note=NOTE_COMMON + 'assumption A-text: PyYAML emitter + scanner round-trip scalar content, write '
         'implicit scalars plain and quote the others; str(C(s)) == s for string-like classes.',
    technique='Lean 4 proofs (cross-table resolver implication by reflection + structure) + real '
              'round-trip exploration',
    ref='DESIGN.md 7 (C05)')

CLAIMED['C12'] = dict(
    text='Lean 4 theorems over the call-site table regenerated from yatiml/loader.py and dumper.py on '
         'every run (AST walk: every yaml.load / yaml.dump call of every generated function object, '
         'with its branch, arguments and options, self.loader / self.dumper resolved to the class the '
         'factory passes): with PyYAML\'s load/dump as universally quantified functions, every branch '
         'of dump_function calls them exactly as dumps_function does (same Dumper class, same options), '
         'likewise the JSON pair and the branches of load_function, and the statements configuring '
         'the Dumper class of a dump/dumps pair are identical; hence C12_sinks_equal / '
         'C12_sources_equal for every object and option values. That str, text stream, binary stream '
         'and Path deliver the same characters to PyYAML is CPython/OS behaviour: exercised on the '
         'real code over all source kinds (str, Path, text/binary file, StringIO, BytesIO) and sink '
         'kinds (file name, Path, open file, StringIO) with keyword and positional options.',
    note=NOTE_COMMON + 'yaml.load / yaml.dump as functions of (stream contents, class, options); '
         'file and codec behaviour of CPython (UTF-8 locale).',
    technique='Lean 4 proof over a call-site table regenerated from the source AST (decide) + '
              'abstract equality theorem + exploration of all source/sink kinds on the real code',
    ref='DESIGN.md 7 (C12)')

CLAIMED['C11'] = dict(
    text='Lean 4 theorems on a heap machine (classes with MRO lookup, instances, tables; levels base / '
         'function / call) whose programs are regenerated on every run from the source: the five '
         'factories with add_to_loader / set_document_type / add_to_dumper inlined, PyYAML\'s own '
         'add_constructor / add_representer class methods (parsed from the installed PyYAML), '
         'Loader.__init__ with __patch_floats / __patch_bools and Dumper.__init__, over the live class '
         'hierarchy and class-level registries after import. Generic theorems (for every program set '
         'the checker accepts): explore_sound (every run, any loop counts, ends in an explored state), '
         'runProg_frame (a clean run leaves lower levels untouched) and run_inv: for every history of '
         'creating and calling functions the base heap is never written, every function\'s region is '
         'what its factory builds in isolation, every call starts from the same state and changes '
         'nothing. The checker is evaluated in the kernel on the regenerated programs, together with '
         'the translator\'s completeness lists (nothing untranslated; no other write to shared state in '
         'the package: census of attribute/subscript stores, mutating calls, globals, caches, '
         'class-level mutable attributes). Tie: where each registry attribute of the generated class '
         'and of a live Loader/Dumper instance resolves (own / which base table / shared lists) is '
         'compared with the model; random histories of functions over different and same-named '
         'classes, valid, invalid and aborted calls, 4 threads: every result equals the isolated '
         'result, base registries (identity, keys, list lengths), yaml.safe_load/safe_dump probes, '
         'module- and class-level containers of yatiml and the user classes are unchanged.',
    note=NOTE_COMMON + 'PyYAML\'s __init__ chain only sets instance attributes; thread interleaving at '
         'the level of CPython bytecode (GIL) is exercised with 4 threads, not proved; table contents '
         '(which tag maps to which constructor) are not in the heap model - isolation of contents '
         'follows from isolation of the tables.',
    technique='Lean 4 proof (frame rule + invariant by induction over histories, reflective checker '
              'evaluated by decide +kernel on programs translated from the source) + shape '
              'correspondence with live objects + history/thread exploration on the real code',
    ref='DESIGN.md 7 (C11)')

CLAIMED['C02'] = dict(
    text='Lean 4: the documented recognition rules are stated on their own (Spec/Pipeline.lean: '
         'built-ins by exact tag, lists and dicts element-wise with string or string-like keys, unions '
         'member-wise, a class by itself or a registered descendant, a parameter by its key or the '
         'dashed key or a default, enums / string-likes by scalar kind) and proved equivalent to the '
         'recogniser model: for every class model without custom recognisers, every node without user '
         'tags and every type, recognition finds at least one type iff the node is in that language '
         '(recognizeReq_iff_matches, induction over the recogniser\'s recursion; true only of the '
         'recogniser as repaired by F19). Corollaries: a document outside the language of the declared '
         'type is rejected with a RecognitionError, a document that loads is inside it, anything but '
         'exactly one recognised type is an error; after savorising every required parameter is '
         'present and typed, every key is a string naming a parameter unless the class takes '
         '_yatiml_extra; the constructor gets only entries of the document (defaults are Python\'s), '
         'extras as one mapping in document order. PARTIAL: the single end-to-end theorem "loads iff '
         'the reference pipeline loads, with the same value" (uniqueness at every level, seasoned '
         'models) is not proved; it is decided on the real code against an independent reference '
         'pipeline (harness/pipeline_oracle.py) on generated (model, document) pairs and on ALL small '
         'documents of five fixed models. ' + LOADER_TIE,
    note=NOTE_COMMON + 'the reference pipeline runs savorize hooks as given and uses PyYAML\'s '
         'SafeConstructor for scalars and plain data; merge keys, repeated keys and the reserved keys '
         '_yatiml_extra / self are outside the reference (skipped and counted).',
    technique='Lean 4 proof (specification of the documented rules + equivalence with the recogniser '
              'model by induction) + independent reference pipeline on generated and exhaustively '
              'enumerated small documents + differential correspondence',
    ref='DESIGN.md 7 (C02)')

NOT_YET = 'check not built yet in this round (planned proof: DESIGN.md section 7)'


def main():
    props = [json.loads(l) for l in open(os.path.join(VERIF, 'properties.jsonl'))]
    checks = []
    for p in props:
        pid = p['id']
        if pid not in CLAIMED:
            continue
        c = CLAIMED[pid]
        checks.append({
            'property_id': pid,
            'quick_cmd': './check {} --tier quick'.format(pid),
            'thorough_cmd': './check {} --tier thorough'.format(pid),
            'evidence_file': '/verif/evidence/{}.json'.format(pid),
            'replay_cmd_template': './check {} --replay {{path}}'.format(pid),
            'engine': 'lean4-model+correspondence',
            'level_claimed': {'category': 'proof', 'text': c['text'], 'design_ref': c['ref']},
            'level_note': c['note'],
            'technique': c['technique']})
    m = {
        'version': 1,
        'setup_cmd': './setup.sh',
        'hooks': {
            'guard': 'YATIML_VERIF',
            'enable': 'no source hooks are needed: the harness observes yatiml through public and '
                      'name-mangled attributes (load.loader, Loader.get_single_node, Recognizer); '
                      'YATIML_VERIF is reserved and currently guards nothing',
            'baseline_off_cmd': 'cd /repo && /venv/bin/python -m pytest -ra -q -p no:cacheprovider --timeout=900',
            'source_commits': [],
            'add_only': True},
        'engines': [{
            'name': 'lean4-model+correspondence',
            'path': '/verif/lean + /verif/harness',
            'serves_properties': sorted(CLAIMED),
            'kind_free_text': 'Lean 4 model and theorems (lake project), translators regenerating '
                              'Gen/*.lean from /repo, differential harness driving the compiled '
                              'model driver over a line protocol'}],
        'checks': checks,
        'notes': 'See DESIGN.md. Checks exit 2 on internal errors. VERIF_SEED and VERIF_TIER are honoured.',
        'not_applicable': [{'property_id': p['id'], 'reason': NOT_YET}
                           for p in props if p['id'] not in CLAIMED],
    }
    with open(os.path.join(VERIF, 'MANIFEST.json'), 'w') as f:
        json.dump(m, f, indent=1)
        f.write('\n')


if __name__ == '__main__':
    main()
