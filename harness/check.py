import importlib
import os
import sys

sys.path.insert(0, os.path.dirname(os.path.abspath(__file__)))
import framework  # noqa: E402


def main():
    if len(sys.argv) < 2:
        print('usage: check <Cxx> [--tier quick|thorough] [--replay file]')
        return 2
    prop = sys.argv[1].lower()
    try:
        mod = importlib.import_module('props.' + prop)
    except ImportError as e:
        print('no check for {}: {}'.format(prop, e))
        return 2
    try:
        return framework.main(mod, sys.argv[2:])
    except Exception:
        import traceback
        traceback.print_exc()
        return 2


if __name__ == '__main__':
    sys.exit(main())
