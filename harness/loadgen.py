"""Generators for the loader properties: class models, target types, documents (as a small syntax
tree rendered to YAML text), mutations; running a case on the real yatiml and canonicalising it."""
import copy
import re
from collections import OrderedDict

from common import hexs, unhexs
import classmodel as CM
import nodes as N

WORDS = ['alpha', 'beta', 'gamma', 'delta', 'x', 'y', 'item1', 'item2', 'a b', 'hello']
ATTRS = ['name', 'count', 'size', 'flag', 'ratio', 'items', 'opts', 'child', 'kind', 'when', 'where',
         'note', 'first_name', 'max_size', 'a', 'b', 'c', '_count', '_values', 'max_open_count', 'a_b_c']
SCALARS = [('str',), ('int',), ('float',), ('bool',)]


def rnd_scalar_type(rng):
    return rng.choice(SCALARS + [('str',), ('int',)])


def gen_type(rng, avail, depth=2, allow_any=True):
    """a type over the available class names"""
    r = rng.random()
    if depth <= 0 or r < 0.35:
        opts = list(SCALARS) + [('date',), ('path',), ('null',)]
        if allow_any:
            opts.append(('any',))
        opts += [('cls', c) for c in avail] * 2
        return rng.choice(opts)
    if r < 0.5:
        return ('seq', rng.choice(['list', 'list', 'sequence', 'mutablesequence']),
                gen_type(rng, avail, depth - 1, allow_any))
    if r < 0.62:
        strlike = getattr(avail, 'strlike', [])
        key = ('cls', rng.choice(strlike)) if strlike and rng.random() < 0.35 else ('str',)
        return ('map', rng.choice(['dict', 'dict', 'mapping', 'mutablemapping']), key,
                gen_type(rng, avail, depth - 1, allow_any))
    if r < 0.78:
        return CM.t_opt(gen_type(rng, avail, depth - 1, False))
    if r < 0.82:
        # the "one or many" idiom
        t = gen_type(rng, avail, 0, False)
        if t[0] not in ('null', 'any', 'union'):
            many = ('seq', 'list', t) if rng.random() < 0.7 else ('map', 'dict', ('str',), t)
            ms = [t, many]
            rng.shuffle(ms)
            return ('union', ms)
    if r < 0.9:
        n = rng.randint(2, 3)
        ms = []
        for _ in range(n):
            t = gen_type(rng, avail, depth - 1, False)
            if t not in ms and t[0] != 'union':
                ms.append(t)
        if ('bool',) in ms and rng.random() < 0.5:
            ms.insert(0, ('boolfix',))
        if not ms:
            return rnd_scalar_type(rng)
        if len(ms) < 2:
            return ms[0]
        return ('union', ms)
    return ('cls', rng.choice(avail)) if avail else rnd_scalar_type(rng)


def gen_default(rng, t):
    k = t[0]
    if k == 'str':
        return rng.choice(['dflt', '', 'auto'])
    if k == 'int':
        return rng.choice([0, 1, 42])
    if k == 'float':
        return rng.choice([0.0, 1.5])
    if k == 'bool':
        return rng.choice([True, False])
    return None


class NameList(list):
    def __init__(self, *a):
        list.__init__(self, *a)
        self.strlike = []


def gen_model(rng, features=None):
    """returns (spec list, list of candidate document types)"""
    spec = []
    avail = NameList()  # registered, usable class names
    names = iter(['Alpha', 'Beta', 'Gamma', 'Delta', 'Eps', 'Zeta', 'Eta', 'Theta'])
    nclasses = rng.randint(1, 5)
    plain = []

    def new_plain(name, bases=(), registered=True, nparams=None, abstract=None, hooks=True):
        used = set()
        for b in bases:
            for p in by_name[b].get('all_params', []):
                used.add(p['name'])
        inherited = []
        for b in bases:
            inherited += [copy.deepcopy(p) for p in by_name[b].get('all_params', [])]
        own = []
        k = rng.randint(0, 3) if nparams is None else nparams
        if nparams is None and rng.random() < 0.08:
            k = rng.randint(8, 10)      # a class with many attributes (other diagnostics apply)
        for _ in range(k):
            cand = [a for a in ATTRS if a not in used]
            if not cand:
                break
            a = rng.choice(cand)
            used.add(a)
            t = gen_type(rng, avail, 2)
            p = dict(name=a, type=t)
            if rng.random() < 0.12:
                p['type'] = None
            own.append(p)
        # required first, then optional (Python syntax)
        allp = inherited + own
        req = [p for p in allp if p.get('default', CM.NODEFAULT) is CM.NODEFAULT]
        optn = [p for p in allp if p.get('default', CM.NODEFAULT) is not CM.NODEFAULT]
        for p in own:
            if p in req and rng.random() < 0.35:
                req.remove(p)
                p['default'] = gen_default(rng, p['type']) if p['type'] else None
                if p['default'] is None and p['type'] is not None and p['type'][0] not in ('any', 'null') \
                        and not (p['type'][0] == 'union' and ('null',) in p['type'][1]):
                    p['type'] = CM.t_opt(p['type'])
                optn.append(p)
        params = req + optn
        c = dict(name=name, bases=list(bases), registered=registered, kind='plain', params=params,
                 all_params=params, extra=(rng.random() < 0.15), abstract=abstract,
                 define_init=True)
        if c['extra'] and rng.random() < 0.5:
            c['extra_early'] = True
        if hooks and rng.random() < 0.2:
            c['savorize'] = gen_savorize(rng, c)
        if hooks and 'savorize' not in c and rng.random() < 0.3 and \
                any('_' in p['name'].strip('_') for p in params):
            c['savorize'] = [('d2u',)]           # dashed keys in the document, underscores in the signature
        if hooks and rng.random() < 0.12:
            c['recognize'] = gen_recognize(rng, c, avail)
        if features and 'sweeten' in features and rng.random() < 0.3:
            c['sweeten'] = gen_sweeten(rng, c)
        if rng.random() < 0.12 and params:
            p = rng.choice(params)
            trigger = {'int': 13, 'str': 'forbidden', 'bool': True}.get(p['type'][0]) if p['type'] else None
            dflt = p.get('default', CM.NODEFAULT)
            # (the model applies the refusal to passed arguments; a default that triggers it is Python's business)
            if p['type'] in (('int',), ('str',), ('bool',)) and not (dflt == trigger and type(dflt) is type(trigger)):
                c['init_raises'] = (p['name'], {'int': 13, 'str': 'forbidden', 'bool': True}[p['type'][0]])
                c['init_raise_style'] = rng.choice(['msg', 'bare', 'assert', 'keyerror', 'custom'])
        return c

    by_name = {}
    for _ in range(nclasses):
        r = rng.random()
        try:
            name = next(names)
        except StopIteration:
            break
        if r < 0.12:
            c = dict(name=name, bases=[], registered=True, kind='enum',
                     members=rng.sample(['red', 'green', 'blue', 'true', 'on', 'yes', 'null', 'A1'],
                                        rng.randint(1, 4)))
            if rng.random() < 0.3:
                c['str_mixin'] = True
        elif r < 0.22:
            c = dict(name=name, bases=[], registered=True,
                     kind=rng.choice(['str', 'userstring', 'yatimlstring']))
            if rng.random() < 0.3:
                c['init_raises'] = ('', 'forbidden')
            if rng.random() < 0.25:
                # a string-like class that rewrites its own scalar (a new node object) or refuses it
                c['savorize'] = [rng.choice([('replace', 'x'), ('replace', 'canon'), ('replace', 1),
                                             ('fail',), ('other',), ('fail', 'bare'), ('other', 'bare')])]
            if features and 'sweeten' in features and rng.random() < 0.3:
                c['sweeten'] = [('set_value_upper',)] if False else []
        elif r < 0.5 and plain:
            # a subclass
            base = rng.choice(plain)
            bases = [base]
            if rng.random() < (0.6 if features and 'mixins' in features else 0.15):
                mix = dict(name='Mix' + name, bases=[], registered=False, kind='plain', params=[],
                           all_params=[], define_init=False)
                if rng.random() < 0.5:
                    mix['savorize'] = [('set', 'mixed_in', 1)]
                if features and 'mixins' in features:
                    # dump side: a mix-in that is itself registered and has its own hook, or none
                    mix['registered'] = rng.random() < 0.4
                    if rng.random() < 0.5:
                        mix['sweeten'] = [('set', 'mixed_in', 1)]
                    if features and 'sweeten' in features and 'sweeten' not in by_name[base] \
                            and rng.random() < 0.7:
                        by_name[base]['sweeten'] = gen_sweeten(rng, by_name[base])
                spec.append(mix)
                by_name[mix['name']] = mix
                bases = rng.choice([[base, mix['name']], [mix['name'], base]])
            c = new_plain(name, bases, abstract=('abc' if rng.random() < 0.15 else None))
            if by_name[base].get('abstract') == 'method':
                c['concretise'] = True
            for b in bases:
                if by_name[b].get('concretise'):
                    pass
        else:
            abstract = None
            if rng.random() < 0.15:
                abstract = rng.choice(['abc', 'method'])
            c = new_plain(name, abstract=abstract)
        spec.append(c)
        by_name[name] = c
        if c['kind'] == 'plain':
            plain.append(name)
        if c['kind'] in ('str', 'userstring', 'yatimlstring'):
            avail.strlike.append(name)
        avail.append(name)
    # unregistered intermediate (rare): skipped here; added by dedicated generators
    # document types
    cands = [('cls', n) for n in avail if by_name[n]['kind'] == 'plain'] * 3
    for _ in range(3):
        t = gen_type(rng, avail, 2)
        if t != ('null',):
            cands.append(t)
    for n in avail:
        if by_name[n]['kind'] != 'plain':
            base = rng.choice([('str',), ('bool',), ('path',), ('str',)])
            ms = [base, ('cls', n)]
            rng.shuffle(ms)
            cands.append(('union', ms))
            cands.append(('seq', 'list', ('union', ms)))
    for c in spec:
        c.pop('all_params_tmp', None)
    return spec, cands


def gen_sweeten(rng, c):
    names = [p['name'] for p in c['params']]
    r = rng.random()
    if r < 0.3:
        return [('u2d',)]
    if r < 0.5 and names:
        return [('remove', rng.choice(names))] if rng.random() < 0.3 else [('set', 'sweetened_by', c['name'])]
    if r < 0.65 and names:
        return [('rename', rng.choice(names), 'renamed')]
    if r < 0.8 and names:
        return [('seq2map', rng.choice(names), 'name', None, True)]
    if r < 0.9 and names:
        return [('idx2map', rng.choice(names), 'name', None)]
    return []


def gen_savorize(rng, c):
    ops = []
    names = [p['name'] for p in c['params']]
    r = rng.random()
    if r < 0.25 and names:
        a = rng.choice(names)
        ops.append(('setmissing', a, rng.choice([1, 'filled', True])))
    elif r < 0.45:
        ops.append(('d2u',))
    elif r < 0.6 and names:
        ops.append(('rename', 'alias', rng.choice(names)))
    elif r < 0.7 and names:
        ops.append(('scalar2map', names[0]))
    elif r < 0.78:
        ops.append(('fail', 'bare') if rng.random() < 0.5 else ('fail',))
    elif r < 0.84:
        ops.append(('other', 'bare') if rng.random() < 0.5 else ('other',))
    elif r < 0.9:
        ops.append(('replace', rng.choice([1, 'x', None])))
    elif names:
        ops.append(('seq2map', rng.choice(names), 'id', None, True))
    else:
        ops.append(('remove', 'junk'))
    return ops


def gen_recognize(rng, c, avail):
    ops = []
    names = [p['name'] for p in c['params']]
    r = rng.random()
    if r < 0.3:
        ops.append(('rmapping',))
        if names:
            p = rng.choice(c['params'])
            ops.append(('rattr', p['name'], p['type'] if rng.random() < 0.5 else None))
    elif r < 0.5 and names:
        ops.append(('rval', rng.choice(names), rng.choice(['special', 1, True])))
    elif r < 0.6:
        ops.append(('rscalar', rng.sample(['str', 'int', 'float', 'bool', 'none'], rng.randint(0, 2))))
    elif r < 0.7:
        ops.append(('rraise', 'bare') if rng.random() < 0.5 else ('rraise',))
    elif r < 0.8 and names:
        ops.append(('rvalnot', rng.choice(names), rng.choice(['special', 1])))
    else:
        ops.append(('rmapping',))
    return ops


# ---------------------------------------------------------------------------------------------
# documents: ('s', text, quoted, tag) | ('q', [items], tag) | ('m', [(k, v)], tag)

def S(text, quoted=False, tag=None):
    return ('s', text, quoted, tag)


def scalar_for(rng, t):
    k = t[0]
    if k == 'str':
        w = rng.choice(WORDS + ['true', '12', '1.5', 'null', '~', '', '2001-01-01', 'yes', 'forbidden', 'forbidden'])
        return S(w, quoted=(w in ('true', '12', '1.5', 'null', '~', '', '2001-01-01') or ' ' in w
                            or rng.random() < 0.2))
    if k == 'int':
        return S(rng.choice(['0', '7', '-3', '42', '1_000', '0x1F', '017', '+5', '1', '13']
                            + (['0x_', '0b_', '190:20:30'] if rng.random() < 0.1 else [])))
    if k == 'float':
        return S(rng.choice(['1.5', '-0.25', '1e3', '.5', '3.', '.inf', '-.inf', '.nan', '1.0']))
    if k in ('bool', 'boolfix'):
        return S(rng.choice(['true', 'false', 'True', 'FALSE']))
    if k == 'null':
        return S(rng.choice(['null', '~', '', 'Null']))
    if k == 'date':
        return S(rng.choice(['2020-01-02', '2001-12-14 21:59:43', '2001-12-14T21:59:43.10-05:00']))
    if k == 'path':
        return S(rng.choice(['/tmp/x', 'rel/p.txt', 'file']))
    raise ValueError(t)


def concrete_descendants(model_spec, name):
    by = {c['name']: c for c in model_spec}
    out = []

    def rec(n):
        c = by[n]
        if c.get('registered', True) and not c.get('abstract') and (
                c.get('concretise') or not any(by[b].get('abstract') == 'method' and not c.get('concretise')
                                               for b in c['bases'])):
            out.append(n)
        for d in model_spec:
            if n in d['bases'] and d.get('registered', True):
                rec(d['name'])
    rec(name)
    return out or [name]


class GenFail(Exception):
    pass


def gen_doc(rng, spec, t, depth=3):
    """a document that (mostly) conforms to type t"""
    if depth < -8:
        raise GenFail('type recursion')
    by = {c['name']: c for c in spec}
    k = t[0]
    if k in ('str', 'int', 'float', 'bool', 'boolfix', 'null', 'date', 'path'):
        return scalar_for(rng, t)
    if k == 'any':
        return gen_any(rng, depth)
    if k == 'seq':
        return ('q', [gen_doc(rng, spec, t[2], depth - 1) for _ in range(rng.randint(0, 3))], None)
    if k == 'map':
        ks = rng.sample(['k1', 'k2', 'k3', 'a', 'b'], rng.randint(0, 3))
        return ('m', [(S(x), gen_doc(rng, spec, t[3], depth - 1)) for x in ks], None)
    if k == 'union':
        return gen_doc(rng, spec, rng.choice(t[1]), depth)
    if k == 'cls':
        name = rng.choice(concrete_descendants(spec, t[1]))
        c = by[name]
        if c['kind'] == 'enum':
            return S(rng.choice(c['members']))
        if c['kind'] in ('str', 'userstring', 'yatimlstring'):
            return S(rng.choice(WORDS + ['forbidden']) if rng.random() < 0.9 else 'forbidden')
        pairs = []
        for p in c['params']:
            required = p.get('default', CM.NODEFAULT) is CM.NODEFAULT
            if required or rng.random() < 0.5:
                key = p['name']
                if '_' in key and rng.random() < 0.25:
                    key = key.replace('_', '-')
                ty = p['type'] if p['type'] is not None else ('any',)
                if depth <= 0 and ty[0] == 'cls':
                    pass
                pairs.append((S(key), gen_doc(rng, spec, ty, depth - 1)))
        if c.get('extra') and rng.random() < 0.6:
            pairs.append((S('extra1'), gen_any(rng, 1)))
            if rng.random() < 0.3:
                pairs.append((S('extra2'), gen_any(rng, 1)))
        if c.get('extra') and rng.random() < 0.25:
            # a key spelt like the catch-all parameter itself
            inner = ('m', [(S('x'), S('2'))], '!' + rng.choice([x['name'] for x in spec]))
            pairs.append((S('_yatiml_extra'), rng.choice([S('null'), inner, ('m', [(S('deep'), inner)], None)])))
        if rng.random() < 0.3:
            rng.shuffle(pairs)
        tag = None
        if rng.random() < 0.08:
            tag = '!' + name
        return ('m', pairs, tag)
    raise ValueError(t)


def gen_any(rng, depth=2):
    r = rng.random()
    if depth <= 0 or r < 0.5:
        t = rng.choice([('str',), ('int',), ('float',), ('bool',), ('null',), ('date',)])
        return scalar_for(rng, t)
    if r < 0.75:
        return ('q', [gen_any(rng, depth - 1) for _ in range(rng.randint(0, 3))], None)
    ks = rng.sample(['p', 'q', 'r', 's'], rng.randint(0, 3))
    return ('m', [(S(x), gen_any(rng, depth - 1)) for x in ks], None)


TAGS = ['!Alpha', '!Beta', '!Gamma', '!Unknown', '!!python/object:os.system',
        '!!python/object/apply:os.system', '!!python/name:os.system', '!!str', '!!int', '!!float',
        '!!bool', '!!null', '!!seq', '!!map', '!!binary', '!!set', '!!omap', '!!timestamp', '!!merge',
        '!!value', '!Path', '!!pairs', '!Unrelated', '!Celsius', '!<tag:example.org,2020:Alpha>',
        '!<x-private:Beta>']


def paths(doc, prefix=()):
    yield prefix
    if doc[0] == 'q':
        for i, x in enumerate(doc[1]):
            yield from paths(x, prefix + (i,))
    elif doc[0] == 'm':
        for i, (k, v) in enumerate(doc[1]):
            yield from paths(k, prefix + (i, 0))
            yield from paths(v, prefix + (i, 1))


def get_at(doc, path):
    for step in path:
        if doc[0] == 'q':
            doc = doc[1][step]
        else:
            doc = doc[1][step[0] if isinstance(step, tuple) else step]
    return doc


def replace_at(doc, path, fn):
    if not path:
        return fn(doc)
    if doc[0] == '&':
        return ('&', doc[1], replace_at(doc[2], path, fn))
    if doc[0] == 'q':
        items = list(doc[1])
        items[path[0]] = replace_at(items[path[0]], path[1:], fn)
        return ('q', items, doc[2])
    if doc[0] == 'm':
        pairs = list(doc[1])
        i, which = path[0], path[1]
        k, v = pairs[i]
        if which == 0:
            pairs[i] = (replace_at(k, path[2:], fn), v)
        else:
            pairs[i] = (k, replace_at(v, path[2:], fn))
        return ('m', pairs, doc[2])
    return doc


def all_paths(doc):
    out = []

    def rec(d, p):
        out.append(p)
        if d[0] == '&':
            d = d[2]
        if d[0] == 'q':
            for i, x in enumerate(d[1]):
                rec(x, p + (i,))
        elif d[0] == 'm':
            for i, (k, v) in enumerate(d[1]):
                rec(k, p + (i, 0))
                rec(v, p + (i, 1))
    rec(doc, ())
    return out


def with_tag(d, tag):
    if d[0] == 's':
        return ('s', d[1], d[2], tag)
    return (d[0], d[1], tag)


def mutate(rng, doc, spec=None):
    """one single-point mutation; returns (doc, description)"""
    ps = all_paths(doc)
    r = rng.random()
    p = rng.choice(ps)
    target = get_at_path(doc, p)
    if r < 0.3:
        own = ['!' + c['name'] for c in (spec or [])]
        tag = rng.choice(own) if (own and rng.random() < 0.5) else rng.choice(TAGS)
        if own and target[0] != 'm' and rng.random() < 0.5:
            maps = [q for q in ps if get_at_path(doc, q)[0] == 'm']
            if maps:
                p = rng.choice(maps)
        return replace_at(doc, p, lambda d: with_tag(d, tag)), ('tag', p, tag)
    if r < 0.5:
        # wrong scalar
        new = scalar_for(rng, rng.choice([('str',), ('int',), ('float',), ('bool',), ('null',)]))
        if rng.random() < 0.15:
            # names that mean something to Python's attribute lookup (an enum member is looked up by name)
            new = S(rng.choice(['__doc__', '__module__', '__members__', 'mro', '__class__', 'name', 'value', '_value_',
                                '__init__', '__dict__']))
        return replace_at(doc, p, lambda d: new), ('scalar', p)
    if r < 0.6:
        new = rng.choice([('q', [], None), ('m', [], None), ('q', [S('z')], None)])
        return replace_at(doc, p, lambda d: new), ('kind', p)
    maps = [q for q in ps if get_at_path(doc, q)[0] == 'm']
    if not maps:
        return replace_at(doc, p, lambda d: S('zzz')), ('scalar', p)
    q = rng.choice(maps)
    m = get_at_path(doc, q)
    pairs = list(m[1])
    if r < 0.7 and pairs:
        i = rng.randrange(len(pairs))
        del pairs[i]
        desc = ('dropkey', q)
    elif r < 0.8:
        own = ['!' + c['name'] for c in (spec or [])] + ['!Unrelated']
        val = rng.choice([S('1'), S('1'), ('q', [('m', [(S('x'), S('2'))], rng.choice(own))], None),
                          ('m', [(S('x'), S('2'))], rng.choice(own)), ('s', 'red', False, rng.choice(own))])
        pairs.insert(rng.randint(0, len(pairs)),
                     (S(rng.choice(['bogus', 'nmae', 'extra9', '_yatiml_extra', 'self', 'extra1'])), val))
        desc = ('addkey', q)
    elif r < 0.87 and pairs:
        i = rng.randrange(len(pairs))
        pairs.insert(rng.randint(0, len(pairs)), (pairs[i][0], S('dup')))
        desc = ('dupkey', q)
    elif r < 0.92 and pairs:
        i = rng.randrange(len(pairs))
        k, v = pairs[i]
        if k[0] == 's':
            pairs[i] = (S(k[1][:-1] + 'x' if k[1] else 'x'), v)
        desc = ('misspell', q)
    elif r < 0.96:
        pairs.insert(0, (rng.choice([('q', [S('a')], None), ('m', [(S('a'), S('b'))], None), S('1'), S('true')]),
                         S('v')))
        desc = ('oddkey', q)
    else:
        pairs.insert(0, (S('<<'), ('m', [(S('merged'), S('1'))], None)))
        desc = ('merge', q)
    return replace_at(doc, q, lambda d: ('m', pairs, m[2])), desc


def get_at_path(doc, path):
    i = 0
    while i < len(path):
        if doc[0] == '&':
            doc = doc[2]
        if doc[0] == 'q':
            doc = doc[1][path[i]]
            i += 1
        else:
            k, v = doc[1][path[i]]
            doc = k if path[i + 1] == 0 else v
            i += 2
    return doc


PLAIN_SAFE = re.compile(r'^[A-Za-z0-9_./+-][A-Za-z0-9_./+:-]*( [A-Za-z0-9_./+-]+)*$')


def render(doc, style='flow'):
    """YAML text (flow style) of a document tree"""
    k = doc[0]
    if k == '&':
        return '&{} {}'.format(doc[1], render(doc[2]))
    if k == '*':
        return '*{}'.format(doc[1])
    tag = doc[3] if k == 's' else doc[2]
    pre = (tag + ' ') if tag else ''
    if k == 's':
        text = doc[1]
        if text == '<<' and not doc[2]:
            body = text          # a merge key
        elif doc[2] or not PLAIN_SAFE.match(text) or text.endswith(':') or ': ' in text:
            body = '"' + text.replace('\\', '\\\\').replace('"', '\\"').replace('\n', '\\n') + '"'
        else:
            body = text
        return (pre + body) if body or not pre else pre.rstrip() + ' ""' if doc[2] else pre.rstrip()
    if k == 'q':
        return pre + '[' + ', '.join(render(x) for x in doc[1]) + ']'
    parts = []
    for kk, v in doc[1]:
        ks = render(kk)
        if kk[0] == '*':
            parts.append(ks + ' : ' + render(v))
            continue
        if kk[0] != 's' or len(ks) > 100:
            ks = '? ' + ks
            parts.append(ks + ' : ' + render(v))
        else:
            parts.append(ks + ': ' + render(v))
    return pre + '{' + ', '.join(parts) + '}'


# ---------------------------------------------------------------------------------------------
# running the real code

MARK_RE = re.compile(r'line (\d+), column (\d+)')
QUOTED_RE = re.compile(r'"([^"\n]*)"')


def parse_error(msg):
    """(sorted marks (0-based), set of quoted names) of a RecognitionError message"""
    marks = sorted(set((int(a) - 1, int(b) - 1) for a, b in MARK_RE.findall(msg)))
    names = set()
    for line in msg.split('\n'):
        if line.lstrip().startswith('in "'):
            continue
        for q in QUOTED_RE.findall(line):
            names.add(q)
    return marks, names


class RealLoad:
    def __init__(self, model, doc_type, yatiml, yaml):
        self.model = model
        self.yaml = yaml
        self.yatiml = yatiml
        self.py_type = model.py_type(doc_type)
        self.load = yatiml.load_function(self.py_type, *model.registered)
        self.loader_cls = self.load.loader

    def compose(self, text):
        """the unprocessed node tree (YAML 1.2 tags resolved by the loader instance)"""
        inst = self.loader_cls(text)
        try:
            return self.yaml.SafeLoader.get_single_node(inst)
        finally:
            inst.dispose()

    def run(self, text):
        del self.model.log[:]
        try:
            v = self.load(text)
            return ('ok', v, list(self.model.log))
        except self.yatiml.RecognitionError as e:
            return ('rec', str(e), list(self.model.log))
        except self.yaml.YAMLError as e:
            return ('yaml', type(e).__name__, list(self.model.log))
        except RecursionError:
            return ('other', 'RecursionError', list(self.model.log))
        except Exception as e:  # noqa
            return ('other', type(e).__name__ + ': ' + str(e)[:200], list(self.model.log))

    def recognize(self, node, py_type):
        inst = self.loader_cls('')
        rec = inst._Loader__recognizer
        return rec.recognize(node, py_type)

    def process(self, text):
        inst = self.loader_cls(text)
        try:
            return inst.get_single_node()
        finally:
            inst.dispose()
