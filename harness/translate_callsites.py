"""Translator: every `yaml.load` / `yaml.dump` call of yatiml/loader.py and yatiml/dumper.py, per
generated function class and branch -> Gen/CallSites.lean.

For each `__call__` of LoadFunction / DumpsFunction / DumpFunction / DumpsJsonFunction /
DumpJsonFunction the AST is walked; every call `yaml.load(...)` / `yaml.dump(...)` is recorded with
the chain of enclosing `if` tests (negated for `else`), its positional arguments and its keyword
arguments as source text.  `self.loader` / `self.dumper` are resolved to the class passed to the
constructor at the `return XFunction(<class>)` site of the enclosing factory, so that
`Dumper=self.dumper` and `Dumper=UserDumper` compare equal when they denote the same class.
"""
import ast
import os

from common import GEN_DIR, REPO, lean_str, write_if_changed


class Untranslatable(Exception):
    pass


def src(node):
    return ast.unparse(node)


class Renamer(ast.NodeTransformer):
    """alpha-renaming, so that the generated table does not depend on how parameters, the `with`
    variable or the generated class happen to be called"""
    def __init__(self, mapping):
        self.mapping = mapping

    def visit_Name(self, node):
        if node.id in self.mapping:
            return ast.copy_location(ast.Name(id=self.mapping[node.id], ctx=node.ctx), node)
        return node

    def visit_arg(self, node):
        if node.arg in self.mapping:
            node.arg = self.mapping[node.arg]
        return node


def canonical(call, handed):
    import copy
    call = copy.deepcopy(call)
    mapping = {}       # parameter names are API (they can be passed by keyword): kept as they are
    for node in ast.walk(call):
        if isinstance(node, ast.With):
            for it in node.items:
                if isinstance(it.optional_vars, ast.Name):
                    mapping[it.optional_vars.id] = 'fh'
    if handed:
        mapping[handed] = 'CLS'
    return Renamer(mapping).visit(call)


class Subst(ast.NodeTransformer):
    """parameter := argument expression"""
    def __init__(self, mapping):
        self.mapping = mapping

    def visit_Name(self, node):
        if node.id in self.mapping:
            import copy
            new = copy.deepcopy(self.mapping[node.id])
            if isinstance(node.ctx, ast.Store):
                if not isinstance(new, ast.Name):
                    raise Untranslatable('a helper assigns to a parameter bound to ' + src(new))
                new.ctx = ast.Store()
            return ast.copy_location(new, node)
        return node


def is_contextmanager(fn):
    return any(src(d).split('.')[-1] == 'contextmanager' for d in fn.decorator_list)


def inline_helpers(stmts, funcs, depth=0):
    """private module-level helpers that a `__call__` delegates to are read as if their bodies stood in
    its place: `return helper(a, b)`, `helper(a, b)` and `with helper(a) as v: BODY` where helper is a
    generator-based context manager (every `yield E` stands for BODY with v := E)"""
    import copy
    if depth > 4:
        raise Untranslatable('helpers nested too deeply')
    out = []
    for st in stmts:
        call = None
        if isinstance(st, (ast.Return, ast.Expr)) and isinstance(st.value, ast.Call):
            call = st.value
            if isinstance(call.func, ast.Name) and call.func.id == 'cast' and len(call.args) == 2 \
                    and isinstance(call.args[1], ast.Call):
                call = call.args[1]
        if call is not None and isinstance(call.func, ast.Name) and call.func.id in funcs \
                and not call.keywords and not is_contextmanager(funcs[call.func.id]):
            fn = funcs[call.func.id]
            params = [a.arg for a in fn.args.args]
            if len(params) != len(call.args) or fn.args.vararg or fn.args.kwonlyargs:
                raise Untranslatable('call of helper ' + fn.name)
            body = [Subst(dict(zip(params, call.args))).visit(copy.deepcopy(b)) for b in fn.body]
            if isinstance(st, ast.Expr) and any(isinstance(n, ast.Return) and n.value is not None
                                                for b in body for n in ast.walk(b)):
                raise Untranslatable('value of helper ' + fn.name + ' dropped')
            out += inline_helpers(body, funcs, depth + 1)
            continue
        if isinstance(st, ast.With) and len(st.items) == 1 and isinstance(st.items[0].context_expr, ast.Call) \
                and isinstance(st.items[0].context_expr.func, ast.Name) \
                and st.items[0].context_expr.func.id in funcs \
                and is_contextmanager(funcs[st.items[0].context_expr.func.id]):
            call = st.items[0].context_expr
            fn = funcs[call.func.id]
            params = [a.arg for a in fn.args.args]
            var = st.items[0].optional_vars
            if len(params) != len(call.args) or call.keywords or (var is not None and not isinstance(var, ast.Name)):
                raise Untranslatable('context manager ' + fn.name)
            body = [Subst(dict(zip(params, call.args))).visit(copy.deepcopy(b)) for b in fn.body]
            for b in body:
                if any(isinstance(n, (ast.Try,)) for n in ast.walk(b)):
                    raise Untranslatable('try in context manager ' + fn.name)

            class Y(ast.NodeTransformer):
                def visit_Expr(self, node):
                    if isinstance(node.value, ast.Yield):
                        inner = [copy.deepcopy(x) for x in st.body]
                        if var is not None:
                            if node.value.value is None:
                                raise Untranslatable('bare yield in ' + fn.name)
                            inner = [Subst({var.id: node.value.value}).visit(x) for x in inner]
                        return inner
                    return node
            new = []
            for b in body:
                r = Y().visit(b)
                new += r if isinstance(r, list) else [r]
            out += inline_helpers(new, funcs, depth + 1)
            continue
        # recurse into compound statements
        st = copy.deepcopy(st)
        for field in ('body', 'orelse'):
            if isinstance(getattr(st, field, None), list) and not isinstance(st, (ast.FunctionDef, ast.ClassDef)):
                setattr(st, field, inline_helpers(getattr(st, field), funcs, depth))
        out.append(st)
    return out


def factory_sites(path):
    tree = ast.parse(open(path).read())
    funcs = {n.name: n for n in tree.body if isinstance(n, ast.FunctionDef)}
    mclasses = {n.name: n for n in tree.body if isinstance(n, ast.ClassDef)}
    out = []
    for fn in [n for n in tree.body if isinstance(n, ast.FunctionDef)]:
        classes = [n for n in fn.body if isinstance(n, ast.ClassDef)]
        ret = [n for n in fn.body if isinstance(n, ast.Return)]
        for cls in classes:
            call = [m for m in cls.body if isinstance(m, ast.FunctionDef) and m.name == '__call__']
            init = [m for m in cls.body if isinstance(m, ast.FunctionDef) and m.name == '__init__']
            if not call:
                continue
            if not init:
                # the constructor may live in a private module-level base class
                for b in cls.bases:
                    if isinstance(b, ast.Name) and b.id in mclasses:
                        init = [m for m in mclasses[b.id].body if isinstance(m, ast.FunctionDef) and m.name == '__init__']
                        if init:
                            break
            import copy as _copy
            call = [_copy.deepcopy(call[0])]
            call[0].body = inline_helpers(call[0].body, funcs)
            # self.<attr> = <param>  in __init__, and the argument at the return site
            alias = {}
            if init and ret and isinstance(ret[-1].value, ast.Call) and src(ret[-1].value.func) == cls.name:
                params = [a.arg for a in init[0].args.args][1:]
                actual = [src(a) for a in ret[-1].value.args]
                for st in init[0].body:
                    if isinstance(st, ast.Assign) and len(st.targets) == 1 and \
                            isinstance(st.targets[0], ast.Attribute) and src(st.targets[0].value) == 'self' \
                            and isinstance(st.value, ast.Name) and st.value.id in params:
                        alias['self.' + st.targets[0].attr] = actual[params.index(st.value.id)]
            handed = None
            if alias:
                vals = sorted(set(alias.values()))
                if len(vals) == 1 and vals[0].isidentifier():
                    handed = vals[0]
                    alias = {k: 'CLS' for k in alias}
            import copy

            def norm(st):
                st = Renamer({handed: 'CLS'} if handed else {}).visit(copy.deepcopy(st))
                if isinstance(st, ast.ClassDef):
                    # docstrings and `pass` in the class body say nothing
                    body = [b for b in st.body if not isinstance(b, ast.Pass)
                            and not (isinstance(b, ast.Expr) and isinstance(b.value, ast.Constant))]
                    st.body = body or [ast.Pass()]
                return src(st)
            setup = [norm(st) for st in fn.body
                     if not (isinstance(st, ast.Expr) and isinstance(st.value, ast.Constant))
                     and not (isinstance(st, ast.ClassDef) and st.name == cls.name)
                     and not isinstance(st, ast.Return)]
            # compared between factories as a collection (the order of independent statements is C11's business)
            setup = sorted(setup)
            out.append((fn.name, cls.name, canonical(call[0], handed), alias, setup))
    return out


YAML_CALLS = ('yaml.load', 'yaml.dump', 'yaml.load_all', 'yaml.dump_all', 'yaml.safe_load', 'yaml.safe_dump')


def yaml_call_of(st):
    """`yaml.X(...)`, `return yaml.X(...)`, `return cast(T, yaml.X(...))` -> (the call node, is_return)"""
    v = None
    ret = False
    if isinstance(st, ast.Expr):
        v = st.value
    elif isinstance(st, ast.Return):
        v = st.value
        ret = True
    if isinstance(v, ast.Call) and src(v.func) == 'cast' and len(v.args) == 2:
        v = v.args[1]
    if isinstance(v, ast.Call) and src(v.func) in YAML_CALLS:
        return v, ret
    return None, ret


def walk_calls(stmts, conds, alias, acc, others):
    """every leaf statement of a `__call__`: a yaml call site (-> acc) or something else (-> others)"""
    def pos(test):
        return 'not (' + src(test.operand) + ')' if isinstance(test, ast.UnaryOp) and isinstance(test.op, ast.Not) \
            else src(test)

    def neg(test):
        return src(test.operand) if isinstance(test, ast.UnaryOp) and isinstance(test.op, ast.Not) \
            else 'not (' + src(test) + ')'
    for i, st in enumerate(stmts):
        if isinstance(st, ast.Expr) and isinstance(st.value, ast.Constant):
            continue
        if isinstance(st, ast.Return) and st.value is None:
            continue            # plain control flow (see the early-return rule below)
        if isinstance(st, ast.If):
            body, orelse = list(st.body), list(st.orelse)
            if not orelse and body and isinstance(body[-1], ast.Return):
                # `if c: ...; return` followed by the rest  ==  `if c: ... else: <the rest>`
                walk_calls(body, conds + [pos(st.test)], alias, acc, others)
                walk_calls(stmts[i + 1:], conds + [neg(st.test)], alias, acc, others)
                return
            walk_calls(body, conds + [pos(st.test)], alias, acc, others)
            walk_calls(orelse, conds + [neg(st.test)], alias, acc, others)
        elif isinstance(st, ast.With):
            ctxs = ['with ' + ', '.join(src(i.context_expr) + (' as ' + src(i.optional_vars) if i.optional_vars else '')
                                          for i in st.items)]
            walk_calls(st.body, conds + ctxs, alias, acc, others)
        elif isinstance(st, (ast.For, ast.While, ast.Try)):
            raise Untranslatable('loop or try in a __call__: ' + src(st)[:60])
        else:
            node, is_ret = yaml_call_of(st)
            if node is not None:
                args = [alias.get(src(a), src(a)) for a in node.args]
                kwargs = [(k.arg, alias.get(src(k.value), src(k.value))) for k in node.keywords]
                if any(k.arg is None for k in node.keywords):
                    raise Untranslatable('**kwargs in a yaml call')
                acc.append((conds, src(node.func), args, kwargs, is_ret))
            else:
                for n in ast.walk(st):
                    if isinstance(n, ast.Call) and src(n.func) in YAML_CALLS:
                        raise Untranslatable('yaml call inside another statement: ' + src(st)[:60])
                others.append((conds, src(st)))


def generate():
    sites = []
    setups = []
    others = []
    for fname in ('loader.py', 'dumper.py'):
        for factory, cls, call, alias, setup in factory_sites(os.path.join(REPO, 'yatiml', fname)):
            setups.append((factory, setup))
            acc = []
            oth = []
            walk_calls(call.body, [], alias, acc, oth)
            for conds, text in oth:
                others.append((factory, conds, text))
            if not acc:
                raise Untranslatable('no yaml call found in {}.{}.__call__'.format(factory, cls))
            params = [a.arg for a in call.args.args][1:] + [a.arg for a in call.args.kwonlyargs]
            # the order of the branches of a `__call__` says nothing: sites in a canonical order
            for conds, callee, args, kwargs, is_ret in sorted(acc, key=lambda a: (a[0], a[1], a[2])):
                sites.append((factory, cls, params, conds, callee, args, kwargs, is_ret))
    out = ['-- GENERATED by harness/translate_callsites.py from yatiml/loader.py and yatiml/dumper.py; do not edit.',
           'import YatimlModel.Model.CallSites',
           'namespace YatimlModel.Gen',
           'open YatimlModel',
           'def callSites : List CallSite := [']
    ents = []
    for factory, cls, params, conds, callee, args, kwargs, is_ret in sites:
        ents.append('  {{ factory := {}, cls := {}, params := [{}], branch := [{}], callee := {}, '
                    'args := [{}], kwargs := [{}], returned := {} }}'.format(
                        lean_str(factory), lean_str(cls), ', '.join(lean_str(p) for p in params),
                        ', '.join(lean_str(c) for c in conds), lean_str(callee),
                        ', '.join(lean_str(a) for a in args),
                        ', '.join('({}, {})'.format(lean_str(k), lean_str(v)) for k, v in kwargs),
                        'true' if is_ret else 'false'))
    out.append(',\n'.join(ents))
    out.append(']')
    out.append('/-- the statements of each factory that build and configure its Loader / Dumper class -/')
    out.append('def factorySetup : List (String × List String) := [')
    out.append(',\n'.join('  ({}, [{}])'.format(lean_str(f), ', '.join(lean_str(x) for x in st)) for f, st in setups))
    out.append(']')
    out.append('/-- every other leaf statement of a `__call__`, with the branch it sits in -/')
    out.append('def otherStatements : List (String × List String × String) := [')
    out.append(',\n'.join('  ({}, [{}], {})'.format(lean_str(f), ', '.join(lean_str(c) for c in conds), lean_str(t))
                          for f, conds, t in others))
    out.append(']')
    out.append('end YatimlModel.Gen')
    text = '\n'.join(out) + '\n'
    return ['CallSites'] if write_if_changed(GEN_DIR + '/CallSites.lean', text) else []


if __name__ == '__main__':
    print(generate())
