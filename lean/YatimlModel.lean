-- Root of the `YatimlModel` library (model, generated tables, specs, lemmas, property theorems).
import YatimlModel.Model.Regex
import YatimlModel.Model.Resolver
import YatimlModel.Lemmas.RegexRep
import YatimlModel.Lemmas.RegexDecide
import YatimlModel.Gen.LoaderResolvers
import YatimlModel.Gen.DumperResolvers
import YatimlModel.Spec.Yaml12
