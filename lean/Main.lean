import YatimlModel.Model.Wire
import YatimlModel.Model.Resolver
import YatimlModel.Gen.LoaderResolvers
import YatimlModel.Gen.DumperResolvers
import YatimlModel.Driver.JsonCmd
import YatimlModel.Driver.NodeCmd
import YatimlModel.Driver.LoadCmd
import YatimlModel.Driver.DumpCmd
import YatimlModel.Driver.RegCmd
/-!
The model driver: one request per line on stdin, one answer per line on stdout.
-/
open YatimlModel

def handleSexp (line : String) : String :=
  match Wire.parseLine line with
  | some (.atom "jtree" :: args) => Driver.cmdJtree args
  | some (.atom "jstep" :: args) => Driver.cmdJstep args
  | some (.atom "jstr" :: args) => Driver.cmdJstr args
  | some (.atom "jparse" :: args) => Driver.cmdJparse args
  | some (.atom "jproject" :: args) => Driver.cmdJproject args
  | some (.atom "nodeops" :: args) => Driver.cmdNodeOps args
  | some (.atom "recognize" :: args) => Driver.cmdRecognize args
  | some (.atom "process" :: args) => Driver.cmdProcess args
  | some (.atom "load" :: args) => Driver.cmdLoad args
  | some (.atom "loaddoc" :: args) => Driver.cmdLoadDoc args
  | some (.atom "docshape" :: args) => Driver.cmdDocShape args
  | some (.atom "reqops" :: args) => Driver.cmdReqOps args
  | some (.atom "represent" :: args) => Driver.cmdRepresent args
  | some (.atom "regshape" :: args) => Driver.cmdRegShape args
  | some _ => "bad-op"
  | none => "bad-syntax"

def handle (line : String) : String :=
  match line.splitOn " " with
  | ["resolve", which, h] =>
    match Wire.unhexCodes h with
    | some cs =>
      let tbl := if which == "L" then Gen.loaderTable else Gen.dumperTable
      (resolve tbl cs).toString
    | none => "bad-hex"
  | _ => handleSexp line

partial def loop (h : IO.FS.Stream) (out : IO.FS.Stream) : IO Unit := do
  let line ← h.getLine
  if line.isEmpty then return ()
  let l := if line.endsWith "\n" then (line.dropEnd 1).toString else line
  out.putStrLn (handle l)
  loop h out

def main : IO Unit := do
  let stdin ← IO.getStdin
  let stdout ← IO.getStdout
  loop stdin stdout
