import YatimlModel.Model.Recognize
/-!
# C16 — `UnknownNode.require_*` accept exactly the nodes they describe

One `↔` per helper between "returns normally" (`runRecOp … = .ok none`) and the documented condition.
"Never modify the node" is structural: the model's helpers return no node (recognition is pure since the
enum retagging was moved out of the recogniser); the real code is checked for it on every run.
-/
namespace YatimlModel.C16
open YatimlModel NodeOps

variable (ext : Ext) (rec : Node → Ty → RecRes)

theorem C16_require_mapping (n : Node) :
    runRecOp ext rec n .requireMapping = .ok none ↔ n.isMapNode = true := by
  cases h : n.isMapNode <;> simp [runRecOp, h]

theorem C16_require_sequence (n : Node) :
    runRecOp ext rec n .requireSequence = .ok none ↔ n.isSeqNode = true := by
  cases h : n.isSeqNode <;> simp [runRecOp, h]

/-- `require_scalar()` without types: any scalar node -/
theorem C16_require_scalar (n : Node) :
    runRecOp ext rec n (.requireScalar []) = .ok none ↔ n.isScalarNode = true := by
  cases h : n.isScalarNode <;> simp [runRecOp, reqScalar, h]

/-- `require_scalar(t)`: a scalar node whose tag is the tag of `t` -/
theorem C16_require_scalar_typed (n : Node) (t : TypArg) (tag : String) (ht : scalarTagOf t = some tag) :
    runRecOp ext rec n (.requireScalar [t]) = .ok none ↔ ∃ v m, n = .scalar tag v m := by
  have hv : ∀ tg : String, isScalar (.scalar tg "" ⟨0, 0⟩) t = .ok (tg == tag) := by
    intro tg
    cases t <;> simp_all [isScalar, scalarTagOf]
  cases n with
  | scalar tg v m =>
    have hs : isScalar (.scalar tg v m) t = .ok (tg == tag) := by
      cases t <;> simp_all [isScalar, scalarTagOf]
    simp only [runRecOp, reqScalar, List.foldl_cons, List.foldl_nil, hs]
    by_cases he : tg = tag
    · subst he; simp
    · have : (tg == tag) = false := by simpa using he
      simp [this, he]
  | seq tg xs m => simp [runRecOp, reqScalar, isScalar]
  | map tg ps m => simp [runRecOp, reqScalar, isScalar]

/-- `require_attribute(a)`: a mapping with a key `a` -/
theorem C16_require_attribute (n : Node) (a : String) :
    runRecOp ext rec n (.requireAttribute a none) = .ok none ↔
      n.isMapNode = true ∧ valuesOf n.pairs a ≠ [] := by
  cases n with
  | scalar t v m => simp [runRecOp, reqAttribute, Node.isMapNode]
  | seq t xs m => simp [runRecOp, reqAttribute, Node.isMapNode]
  | map t ps m =>
    simp only [runRecOp, reqAttribute, Node.isMapNode, Node.pairs, true_and]
    cases h : valuesOf ps.toList a <;> simp

/-- `require_attribute(a, T)`: a mapping with a key `a` whose (first) value is recognisable as `T` by
the loader's own recogniser (`rec` *is* `recognize`) -/
theorem C16_require_attribute_typed (n : Node) (a : String) (T : Ty)
    (hrec : ∀ x, ∃ ts ls, rec x T = .ok (ts, ls)) :
    runRecOp ext rec n (.requireAttribute a (some T)) = .ok none ↔
      n.isMapNode = true ∧ ∃ v rest ts ls, valuesOf n.pairs a = v :: rest ∧ rec v T = .ok (ts, ls) ∧ ts ≠ [] := by
  cases n with
  | scalar t v m => simp [runRecOp, reqAttribute, Node.isMapNode]
  | seq t xs m => simp [runRecOp, reqAttribute, Node.isMapNode]
  | map t ps m =>
    simp only [runRecOp, reqAttribute, Node.isMapNode, Node.pairs, true_and]
    cases h : valuesOf ps.toList a with
    | nil => simp
    | cons v rest =>
      obtain ⟨ts, ls, hr⟩ := hrec v
      simp only [hr]
      cases ts with
      | nil =>
        simp only [List.length_nil, beq_self_eq_true, if_true]
        constructor
        · intro h'; cases h'
        · rintro ⟨v', rest', ts', ls', he, hr', hne⟩
          simp only [List.cons.injEq] at he
          rw [← he.1, hr] at hr'
          simp only [Except.ok.injEq, Prod.mk.injEq] at hr'
          exact (hne hr'.1.symm).elim
      | cons t' ts' =>
        simp only [List.length_cons, Nat.add_one_ne_zero, beq_iff_eq, if_false, true_iff]
        exact ⟨v, rest, t' :: ts', ls, rfl, hr, by simp⟩

/-! ### `require_attribute_value(_not)` look at every string-keyed occurrence, in order -/

/-- the value nodes of the occurrences of key `a` (string-tagged keys only), in document order -/
def occurrences (ps : List (Node × Node)) (a : String) : List Node :=
  (ps.filter (fun p => p.1.tag == tStr && p.1.keyIs a)).map (·.2)

/-- the verdict of `require_attribute_value` on the list of comparison results -/
def posOk : List (Option Bool) → Bool → Bool
  | [], found => found
  | some true :: r, _ => posOk r true
  | _ :: _, _ => false

/-- the verdict of `require_attribute_value_not`: a value of another type ends the search positively -/
def negOk : List (Option Bool) → Bool → Bool
  | [], found => found
  | none :: _, _ => true
  | some true :: _, _ => false
  | some false :: r, _ => negOk r true

def cmp (v : Node) (w : PyScalar) : Option Bool :=
  match scalarEquals ext v w with
  | .ok r => r
  | .error _ => none

theorem scalarEquals_ok (v : Node) (w : PyScalar) : ∃ r, scalarEquals ext v w = .ok r := by
  unfold scalarEquals
  repeat' split
  all_goals exact ⟨_, rfl⟩

theorem loop_pos (a : String) (w : PyScalar) : ∀ (ps : List (Node × Node)) (found : Bool),
    (reqAttrValueLoop ext a w false ps found = .ok none) ↔
      posOk ((occurrences ps a).map (fun v => cmp ext v w)) found = true := by
  intro ps
  induction ps with
  | nil => intro found; cases found <;> simp [reqAttrValueLoop, occurrences, posOk]
  | cons p ps ih =>
    intro found
    obtain ⟨k, v⟩ := p
    unfold reqAttrValueLoop
    by_cases hk : (k.tag == tStr && k.keyIs a) = true
    · obtain ⟨r, hr⟩ := scalarEquals_ok ext v w
      have hc : cmp ext v w = r := by simp [cmp, hr]
      simp only [hk, if_true, occurrences, List.filter_cons, List.map_cons, hr, hc]
      cases r with
      | none => simp [posOk]
      | some b =>
        cases b
        · simp [posOk]
        · simpa [posOk, occurrences] using ih true
    · have hk' : (k.tag == tStr && k.keyIs a) = false := by simpa using hk
      simp only [hk', Bool.false_eq_true, if_false, occurrences, List.filter_cons]
      simpa [occurrences] using ih found

theorem loop_neg (a : String) (w : PyScalar) : ∀ (ps : List (Node × Node)) (found : Bool),
    (reqAttrValueLoop ext a w true ps found = .ok none) ↔
      negOk ((occurrences ps a).map (fun v => cmp ext v w)) found = true := by
  intro ps
  induction ps with
  | nil => intro found; cases found <;> simp [reqAttrValueLoop, occurrences, negOk]
  | cons p ps ih =>
    intro found
    obtain ⟨k, v⟩ := p
    unfold reqAttrValueLoop
    by_cases hk : (k.tag == tStr && k.keyIs a) = true
    · obtain ⟨r, hr⟩ := scalarEquals_ok ext v w
      have hc : cmp ext v w = r := by simp [cmp, hr]
      simp only [hk, if_true, occurrences, List.filter_cons, List.map_cons, hr, hc]
      cases r with
      | none => simp [negOk]
      | some b =>
        cases b
        · simpa [negOk, occurrences] using ih true
        · simp [negOk]
    · have hk' : (k.tag == tStr && k.keyIs a) = false := by simpa using hk
      simp only [hk', Bool.false_eq_true, if_false, occurrences, List.filter_cons]
      simpa [occurrences] using ih found

/-- `require_attribute_value(a, w)`: a mapping in which key `a` occurs and every occurrence is a scalar
of `w`'s type that equals `w` -/
theorem C16_require_attribute_value (n : Node) (a : String) (w : PyScalar) :
    runRecOp ext rec n (.requireAttributeValue a w) = .ok none ↔
      n.isMapNode = true ∧ posOk ((occurrences n.pairs a).map (fun v => cmp ext v w)) false = true := by
  cases n with
  | scalar t v m => simp [runRecOp, reqAttrValue, Node.isMapNode]
  | seq t xs m => simp [runRecOp, reqAttrValue, Node.isMapNode]
  | map t ps m =>
    simp only [runRecOp, reqAttrValue, Node.isMapNode, Node.pairs, true_and]
    exact loop_pos ext a w ps.toList false

/-- `require_attribute_value_not(a, w)`: a mapping in which key `a` occurs and no occurrence equals `w`
(a value of another type counts as different) -/
theorem C16_require_attribute_value_not (n : Node) (a : String) (w : PyScalar) :
    runRecOp ext rec n (.requireAttributeValueNot a w) = .ok none ↔
      n.isMapNode = true ∧ negOk ((occurrences n.pairs a).map (fun v => cmp ext v w)) false = true := by
  cases n with
  | scalar t v m => simp [runRecOp, reqAttrValue, Node.isMapNode]
  | seq t xs m => simp [runRecOp, reqAttrValue, Node.isMapNode]
  | map t ps m =>
    simp only [runRecOp, reqAttrValue, Node.isMapNode, Node.pairs, true_and]
    exact loop_neg ext a w ps.toList false

end YatimlModel.C16
