import YatimlModel.Model.NodeOps
/-!
# C14 — `yatiml.Node` accessors behave like an ordered map and a typed scalar

Refinement of the mapping accessors to operations on an association list
(`List (String × Node)`, the simplest possible ordered dictionary), for mappings
whose keys are string scalars; the laws that need distinct keys say so.
-/
namespace YatimlModel.C14
open YatimlModel YatimlModel.NodeOps

/-! ## the specification: an ordered dictionary -/

abbrev OD := List (String × Node)

def OD.has (d : OD) (a : String) : Bool := d.any (fun e => e.1 == a)
def OD.get (d : OD) (a : String) : Option Node := d.lookup a
def OD.set : OD → String → Node → OD
  | [], a, v => [(a, v)]
  | (k, x) :: r, a, v => if k == a then (k, v) :: r else (k, x) :: OD.set r a v
def OD.remove : OD → String → OD
  | [], _ => []
  | (k, x) :: r, a => if k == a then r else (k, x) :: OD.remove r a
def OD.rename : OD → String → String → OD
  | [], _, _ => []
  | (k, x) :: r, a, b => if k == a then (b, x) :: r else (k, x) :: OD.rename r a b
def OD.keys (d : OD) : List String := d.map (·.1)

/-! ## abstraction -/

def keyOf : Node → String
  | .scalar _ v _ => v
  | _ => ""

/-- all keys are scalar nodes (what "string keys" means at node level) -/
def StrKeys (ps : List (Node × Node)) : Prop := ∀ p ∈ ps, p.1.isScalarNode = true

def absP (ps : List (Node × Node)) : OD := ps.map (fun p => (keyOf p.1, p.2))

theorem keyIs_eq (k : Node) (a : String) (h : k.isScalarNode = true) : k.keyIs a = (keyOf k == a) := by
  cases k <;> simp_all [Node.keyIs, keyOf, Node.isScalarNode]

theorem StrKeys_cons {p : Node × Node} {ps : List (Node × Node)} (h : StrKeys (p :: ps)) :
    p.1.isScalarNode = true ∧ StrKeys ps :=
  ⟨h p List.mem_cons_self, fun q hq => h q (List.mem_cons_of_mem _ hq)⟩

/-- **has_attribute** is ordered-dict membership -/
theorem C14_has_attribute (ps : List (Node × Node)) (a : String) (h : StrKeys ps) :
    hasKey ps a = (absP ps).has a := by
  induction ps with
  | nil => rfl
  | cons p ps ih =>
    obtain ⟨h1, h2⟩ := StrKeys_cons h
    simp only [hasKey, List.any_cons, absP, List.map_cons, OD.has] at *
    rw [keyIs_eq _ _ h1, ih h2]

theorem valuesOf_nil_of_not_mem (ps : List (Node × Node)) (a : String) (h : StrKeys ps)
    (hn : a ∉ (absP ps).keys) : valuesOf ps a = [] := by
  induction ps with
  | nil => rfl
  | cons p ps ih =>
    obtain ⟨h1, h2⟩ := StrKeys_cons h
    simp only [absP, OD.keys, List.map_cons, List.mem_cons, not_or] at hn
    have hk : p.1.keyIs a = false := by
      rw [keyIs_eq _ _ h1]; simpa using fun e => hn.1 e.symm
    have := ih h2 (by simpa [absP, OD.keys] using hn.2)
    simp only [valuesOf, List.filter_cons, hk] at *
    simpa using this

/-- **get_attribute** returns the dictionary's value, or raises SeasoningError when the key is
absent (distinct keys: never "found multiple times") -/
theorem C14_get_attribute (t : String) (ps : List (Node × Node)) (m : Mark) (a : String)
    (h : StrKeys ps) (hd : (absP ps).keys.Nodup) :
    getAttribute (.map t (Pairs.ofList ps) m) a =
      match (absP ps).get a with
      | some v => .ok v
      | none => .error .seasoning := by
  simp only [getAttribute, Pairs.toList_ofList]
  induction ps with
  | nil => rfl
  | cons p ps ih =>
    obtain ⟨h1, h2⟩ := StrKeys_cons h
    simp only [absP, OD.keys, List.map_cons, List.nodup_cons] at hd
    have ih' := ih h2 (by simpa [absP, OD.keys] using hd.2)
    simp only [valuesOf, List.filter_cons, absP, List.map_cons, OD.get, List.lookup_cons] at *
    rw [keyIs_eq _ _ h1]
    by_cases hk : keyOf p.1 = a
    · subst hk
      have hnil := valuesOf_nil_of_not_mem ps (keyOf p.1) h2 (by simpa [absP, OD.keys] using hd.1)
      simp only [valuesOf] at hnil
      simp [hnil]
    · have hk' : (keyOf p.1 == a) = false := by simpa using hk
      have hk'' : (a == keyOf p.1) = false := by simpa using fun e => hk e.symm
      simp only [hk', hk'']
      simpa using ih'

/-- **set_attribute**: an existing key keeps its position, a new key is appended -/
theorem C14_set_attribute (ps : List (Node × Node)) (a : String) (v : Node) (h : StrKeys ps) :
    absP (setFirst ps a v) = (absP ps).set a v := by
  induction ps with
  | nil => simp [setFirst, absP, OD.set, keyOf]
  | cons p ps ih =>
    obtain ⟨h1, h2⟩ := StrKeys_cons h
    obtain ⟨k, x⟩ := p
    simp only [setFirst, absP, List.map_cons, OD.set]
    rw [keyIs_eq _ _ h1]
    split <;> simp_all [absP]

theorem setFirst_StrKeys (ps : List (Node × Node)) (a : String) (v : Node) (h : StrKeys ps) :
    StrKeys (setFirst ps a v) := by
  induction ps with
  | nil => intro p hp; simp [setFirst] at hp; subst hp; rfl
  | cons p ps ih =>
    obtain ⟨h1, h2⟩ := StrKeys_cons h
    obtain ⟨k, x⟩ := p
    simp only [setFirst]
    split
    · intro q hq
      rcases List.mem_cons.mp hq with e | e
      · subst e; exact h1
      · exact h2 q e
    · intro q hq
      rcases List.mem_cons.mp hq with e | e
      · subst e; exact h1
      · exact ih h2 q e

/-- **remove_attribute** -/
theorem C14_remove_attribute (ps : List (Node × Node)) (a : String) (h : StrKeys ps) :
    absP (removeFirst ps a) = (absP ps).remove a := by
  induction ps with
  | nil => rfl
  | cons p ps ih =>
    obtain ⟨h1, h2⟩ := StrKeys_cons h
    obtain ⟨k, x⟩ := p
    simp only [removeFirst, absP, List.map_cons, OD.remove]
    rw [keyIs_eq _ _ h1]
    split <;> simp_all [absP]

/-- **rename_attribute** -/
theorem C14_rename_attribute (ps : List (Node × Node)) (a b : String) (h : StrKeys ps) :
    absP (renameFirst ps a b) = (absP ps).rename a b := by
  induction ps with
  | nil => rfl
  | cons p ps ih =>
    obtain ⟨h1, h2⟩ := StrKeys_cons h
    obtain ⟨k, x⟩ := p
    simp only [renameFirst, absP, List.map_cons, OD.rename]
    rw [keyIs_eq _ _ h1]
    split
    · cases k <;> simp_all [renameKey, keyOf, Node.isScalarNode]
    · simp_all [absP]

/-! ## distinct keys are preserved -/

theorem OD.keys_set (d : OD) (a : String) (v : Node) :
    (d.set a v).keys = if a ∈ d.keys then d.keys else d.keys ++ [a] := by
  induction d with
  | nil => simp [OD.set, OD.keys]
  | cons e r ih =>
    obtain ⟨k, x⟩ := e
    simp only [OD.set, OD.keys, List.map_cons, List.mem_cons] at *
    by_cases hk : k = a
    · subst hk; simp
    · have hk' : (k == a) = false := by simpa using hk
      have hne : ¬ a = k := fun e => hk e.symm
      simp only [hk', hne, false_or, List.map_cons, Bool.false_eq_true, if_false]
      rw [ih]
      by_cases hm : a ∈ List.map (fun x => x.fst) r <;> simp [hm]

theorem OD.keys_remove_sublist (d : OD) (a : String) : List.Sublist (d.remove a).keys d.keys := by
  induction d with
  | nil => exact List.Sublist.slnil
  | cons e r ih =>
    obtain ⟨k, x⟩ := e
    simp only [OD.remove, OD.keys, List.map_cons] at *
    split
    · exact List.sublist_cons_self _ _
    · exact List.Sublist.cons₂ _ ih

theorem OD.keys_rename (d : OD) (a b : String) :
    (d.rename a b).keys.Perm (if a ∈ d.keys then b :: (d.keys.erase a) else d.keys) := by
  induction d with
  | nil => simp [OD.rename, OD.keys]
  | cons e r ih =>
    obtain ⟨k, x⟩ := e
    simp only [OD.rename, OD.keys, List.map_cons, List.mem_cons] at *
    by_cases hk : k = a
    · subst hk; simp
    · have hk' : (k == a) = false := by simpa using hk
      have hne : ¬ a = k := fun e => hk e.symm
      simp only [hk', hne, false_or, List.map_cons, Bool.false_eq_true, if_false]
      by_cases hm : a ∈ List.map (fun x => x.fst) r
      · simp only [hm, if_true] at ih ⊢
        rw [List.erase_cons_tail (by simpa using hk)]
        exact (List.Perm.cons k ih).trans (List.Perm.swap b k _)
      · simp only [hm, if_false] at ih ⊢
        exact List.Perm.cons k ih

/-- set/remove keep the keys distinct; rename does when the new name is not already another key
(the one documented way to leave the ordered-map regime) -/
theorem C14_distinct_preserved (d : OD) (hd : d.keys.Nodup) (a b : String) (v : Node) :
    (d.set a v).keys.Nodup ∧ (d.remove a).keys.Nodup ∧
    ((b ∉ d.keys ∨ b = a) → (d.rename a b).keys.Nodup) := by
  refine ⟨?_, ?_, ?_⟩
  · rw [OD.keys_set]
    split
    · exact hd
    · rename_i hn
      refine List.nodup_append.mpr ⟨hd, by simp, ?_⟩
      intro x hx y hy
      simp only [List.mem_cons, List.not_mem_nil, or_false] at hy
      subst hy
      intro e
      subst e
      exact hn hx
  · exact List.Nodup.sublist (OD.keys_remove_sublist d a) hd
  · intro hb
    have hp := OD.keys_rename d a b
    rw [hp.nodup_iff]
    split
    · rename_i ha
      rw [List.nodup_cons]
      refine ⟨?_, List.Nodup.sublist List.erase_sublist hd⟩
      rcases hb with hb | hb
      · exact fun h => hb (List.mem_of_mem_erase h)
      · subst hb; exact fun h => (List.Nodup.mem_erase_iff hd).mp h |>.1 rfl
    · exact hd

/-! ## operation sequences -/

inductive Op
  | has (a : String) | get (a : String) | set (a : String) (v : Node)
  | remove (a : String) | rename (a b : String)

inductive Res | bool (b : Bool) | node (n : Node) | missing | unit
  deriving DecidableEq

/-- one accessor call on the real representation (pair list of a mapping node) -/
def stepImpl (t : String) (m : Mark) (ps : List (Node × Node)) : Op → List (Node × Node) × Res
  | .has a => (ps, .bool (hasKey ps a))
  | .get a => (ps, match getAttribute (.map t (Pairs.ofList ps) m) a with
                   | .ok v => .node v | .error _ => .missing)
  | .set a v => (setFirst ps a v, .unit)
  | .remove a => (removeFirst ps a, .unit)
  | .rename a b => (renameFirst ps a b, .unit)

def stepSpec (d : OD) : Op → OD × Res
  | .has a => (d, .bool (d.has a))
  | .get a => (d, match d.get a with | some v => .node v | none => .missing)
  | .set a v => (d.set a v, .unit)
  | .remove a => (d.remove a, .unit)
  | .rename a b => (d.rename a b, .unit)

def runImpl (t : String) (m : Mark) : List (Node × Node) → List Op → List (Node × Node) × List Res
  | ps, [] => (ps, [])
  | ps, o :: os =>
    let r := stepImpl t m ps o
    let rr := runImpl t m r.1 os
    (rr.1, r.2 :: rr.2)
def runSpec : OD → List Op → OD × List Res
  | d, [] => (d, [])
  | d, o :: os =>
    let r := stepSpec d o
    let rr := runSpec r.1 os
    (rr.1, r.2 :: rr.2)

/-- a sequence stays inside the ordered-map regime if no rename targets another existing key -/
def OkSeq : OD → List Op → Prop
  | _, [] => True
  | d, o :: os =>
    (match o with | .rename a b => b ∉ d.keys ∨ b = a | _ => True) ∧ OkSeq (stepSpec d o).1 os

theorem renameFirst_StrKeys (ps : List (Node × Node)) (a b : String) (h : StrKeys ps) :
    StrKeys (renameFirst ps a b) := by
  induction ps with
  | nil => exact h
  | cons p ps ih =>
    obtain ⟨h1, h2⟩ := StrKeys_cons h
    obtain ⟨k, x⟩ := p
    simp only [renameFirst]
    split
    · intro q hq
      rcases List.mem_cons.mp hq with e | e
      · subst e; cases k <;> simp_all [renameKey, Node.isScalarNode]
      · exact h2 q e
    · intro q hq
      rcases List.mem_cons.mp hq with e | e
      · subst e; exact h1
      · exact ih h2 q e

theorem removeFirst_StrKeys (ps : List (Node × Node)) (a : String) (h : StrKeys ps) :
    StrKeys (removeFirst ps a) := by
  induction ps with
  | nil => exact h
  | cons p ps ih =>
    obtain ⟨h1, h2⟩ := StrKeys_cons h
    obtain ⟨k, x⟩ := p
    simp only [removeFirst]
    split
    · exact h2
    · intro q hq
      rcases List.mem_cons.mp hq with e | e
      · subst e; exact h1
      · exact ih h2 q e

/-- **Refinement.**  Any sequence of has/get/set/remove/rename calls on a mapping with distinct string
keys returns what the same calls on an ordered dictionary return and leaves the mapping equal to that
dictionary — for sequences of every length. -/
theorem C14_ops_refine_odict (t : String) (m : Mark) (ops : List Op) :
    ∀ (ps : List (Node × Node)), StrKeys ps → (absP ps).keys.Nodup → OkSeq (absP ps) ops →
      absP (runImpl t m ps ops).1 = (runSpec (absP ps) ops).1 ∧
      (runImpl t m ps ops).2 = (runSpec (absP ps) ops).2 := by
  induction ops with
  | nil => intro ps _ _ _; exact ⟨rfl, rfl⟩
  | cons o os ih =>
    intro ps hs hd hok
    have hstep : absP (stepImpl t m ps o).1 = (stepSpec (absP ps) o).1 ∧
        (stepImpl t m ps o).2 = (stepSpec (absP ps) o).2 ∧ StrKeys (stepImpl t m ps o).1 := by
      cases o with
      | has a => exact ⟨rfl, by simp [stepImpl, stepSpec, C14_has_attribute ps a hs], hs⟩
      | get a =>
        refine ⟨rfl, ?_, hs⟩
        simp only [stepImpl, stepSpec, C14_get_attribute t ps m a hs hd]
        cases (absP ps).get a <;> rfl
      | set a v => exact ⟨C14_set_attribute ps a v hs, rfl, setFirst_StrKeys ps a v hs⟩
      | remove a => exact ⟨C14_remove_attribute ps a hs, rfl, removeFirst_StrKeys ps a hs⟩
      | rename a b => exact ⟨C14_rename_attribute ps a b hs, rfl, renameFirst_StrKeys ps a b hs⟩
    obtain ⟨h1, h2, h3⟩ := hstep
    have hd' : (absP (stepImpl t m ps o).1).keys.Nodup := by
      rw [h1]
      have := C14_distinct_preserved (absP ps) hd
      cases o with
      | has a => exact hd
      | get a => exact hd
      | set a v => exact (this a a v).1
      | remove a => exact (this a a default).2.1
      | rename a b => exact (this a b default).2.2 hok.1
    have hok' : OkSeq (absP (stepImpl t m ps o).1) os := by rw [h1]; exact hok.2
    obtain ⟨i1, i2⟩ := ih _ h3 hd' hok'
    simp only [runImpl, runSpec]
    rw [h1] at i1 i2
    exact ⟨i1, by rw [h2, i2]⟩

/-! ## scalars -/

/-- **Classification.**  Exactly one of is_scalar / is_mapping / is_sequence holds of every node. -/
theorem C14_classify (n : Node) :
    (isScalar n .anyScalar = .ok true ∧ isMapping n = false ∧ isSequence n = false) ∨
    (isScalar n .anyScalar = .ok false ∧ isMapping n = true ∧ isSequence n = false) ∨
    (isScalar n .anyScalar = .ok false ∧ isMapping n = false ∧ isSequence n = true) := by
  cases n <;> simp [isScalar, isMapping, isSequence, Node.isMapNode, Node.isSeqNode]

def typOf : PyScalar → TypArg
  | .str _ => .str | .int _ => .int | .float _ _ => .float | .bool _ => .bool | .none => .none_

/-- what the external float constructor and the integer parser must satisfy on the texts
`set_value` writes (`repr(x)`, `str(i)`); checked on every run by the correspondence harness -/
def ReadsBack (ext : Ext) : PyScalar → Prop
  | .int i => constructInt (textOfScalar (.int i)) = some i
  | .float r a => ext.yamlFloat r = some (r, a)
  | _ => True

/-- **set_value then get_value.**  On a node with a core tag, `set_value(v)` followed by
`get_value()` returns `v`, and `is_scalar(type(v))` holds. -/
theorem C14_set_get (ext : Ext) (n : Node) (v : PyScalar) (hcore : hasPrefix corePrefix n.tag = true)
    (hrb : ReadsBack ext v) :
    getValue ext (setValue n v) = .ok v ∧ isScalar (setValue n v) (typOf v) = .ok true := by
  cases v with
  | str s => simp [setValue, hcore, getValue, tagOfScalar, textOfScalar, isScalar, typOf, scalarTagOf]
  | int i =>
    simp only [ReadsBack] at hrb
    simp only [setValue, hcore, if_true, getValue, tagOfScalar, isScalar, typOf, scalarTagOf, hrb]
    simp [tInt, tStr]
  | float r a =>
    simp only [ReadsBack] at hrb
    simp [setValue, hcore, getValue, tagOfScalar, textOfScalar, isScalar, typOf, scalarTagOf, hrb,
      tInt, tStr, tFloat]
  | bool b =>
    cases b <;> simp [setValue, hcore, getValue, tagOfScalar, textOfScalar, isScalar, typOf,
      scalarTagOf, tInt, tStr, tFloat, tBool, constructBool, asciiLowerStr]
  | none =>
    simp [setValue, hcore, getValue, tagOfScalar, textOfScalar, isScalar, typOf, scalarTagOf,
      tInt, tStr, tFloat, tBool, tNull]

/-- what PyYAML's safe constructor builds for a scalar node with one of the five core tags
(shared with the loader model: this *is* the function the loader's construction uses) -/
def constructCore (ext : Ext) (tag value : String) : Option PyScalar :=
  if tag == tStr then some (.str value)
  else if tag == tInt then (constructInt value).map PyScalar.int
  else if tag == tFloat then (ext.yamlFloat value).map (fun r => PyScalar.float r.1 r.2)
  else if tag == tBool then (constructBool value).map PyScalar.bool
  else if tag == tNull then some .none
  else none

/-- **get_value is what a load would construct** -/
theorem C14_get_value_is_load (ext : Ext) (tag value : String) (m : Mark) (v : PyScalar)
    (h : constructCore ext tag value = some v) :
    getValue ext (.scalar tag value m) = .ok v := by
  unfold constructCore at h
  unfold getValue
  split at h
  · simp_all
  · split at h
    · cases hc : constructInt value <;> simp_all
    · split at h
      · cases hc : ext.yamlFloat value <;> simp_all
      · split at h
        · cases hc : constructBool value <;> simp_all
        · split at h <;> simp_all

/-! ## remove_attributes_with_default_values -/

def removable (ext : Ext) (defaults : List (String × PyDefault)) (p : Node × Node) : Bool :=
  match p.1 with
  | .scalar _ k _ =>
    (match defaults.lookup k with
     | some d => matchesDefault ext p.2 d
     | none => false)
  | _ => false

/-- **Exactness.**  The attributes that remain are, in their original order, exactly those that are not
(defaulted and equal to their default). -/
theorem C14_remove_defaults_exact (ext : Ext) (t : String) (ps : List (Node × Node)) (m : Mark)
    (defaults : List (String × PyDefault)) :
    removeDefaults ext (.map t (Pairs.ofList ps) m) defaults =
      .ok (.map t (Pairs.ofList (ps.filter (fun p => !removable ext defaults p))) m) := by
  simp only [removeDefaults, Pairs.toList_ofList]
  congr 3
  apply List.filter_congr
  intro p _
  obtain ⟨k, v⟩ := p
  cases k <;> simp only [removable, Bool.not_false]
  cases List.lookup _ defaults <;> rfl

/-- **Totality.**  On a mapping it never fails, whatever the values and defaults are. -/
theorem C14_remove_defaults_total (ext : Ext) (t : String) (ps : Pairs) (m : Mark)
    (defaults : List (String × PyDefault)) :
    ∃ n', removeDefaults ext (.map t ps m) defaults = .ok n' := by
  exact ⟨_, rfl⟩

/-! ## non-vacuity -/

def k (s : String) : Node := .scalar tStr s ⟨1, 0⟩
def iv (s : String) : Node := .scalar tInt s ⟨1, 3⟩
def demo : List (Node × Node) := [(k "a", iv "1"), (k "b", iv "0x1F"), (k "c", iv "3")]

example : StrKeys demo := by intro p hp; simp [demo] at hp; rcases hp with h | h | h <;> subst h <;> rfl
example : (absP demo).keys.Nodup := by decide
example : OkSeq (absP demo) [.rename "a" "z", .set "q" (iv "9"), .remove "b", .get "c"] := by
  simp [OkSeq, stepSpec, absP, demo, OD.keys, OD.rename, OD.set, OD.remove, keyOf, k]
example : (runSpec (absP demo) [.rename "a" "z", .set "q" (iv "9"), .remove "b", .has "b"]).1.keys
    = ["z", "c", "q"] := by decide
example : constructInt "0x1F" = some 31 ∧ constructInt "017" = some 15 ∧ constructInt "1_000" = some 1000
    ∧ constructInt "1:30" = some 90 ∧ constructInt "-0b101" = some (-5) ∧ constructInt "08" = none := by
  decide
example : ReadsBack ⟨fun _ => none, fun _ => none, fun _ => none⟩ (.int (-1234567890123)) := by
  simp only [ReadsBack, textOfScalar]; decide

end YatimlModel.C14
