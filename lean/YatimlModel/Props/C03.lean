import YatimlModel.Lemmas.RecSound
import YatimlModel.Model.Process
import YatimlModel.Lemmas.RecPerm
import YatimlModel.Lemmas.LoadPerm
/-!
# C03 — polymorphic positions resolve to the unique most-derived match, never a guess
-/
namespace YatimlModel.C03
open YatimlModel

theorem admits_cls_inv (env : Env) (c : String) (t : Ty) (h : Admits env (.cls c) t) :
    ∃ d, t = .cls d ∧ Descends env c d ∧ Concrete env d := by
  cases h with
  | self _ h1 _ => exact (h1 c rfl).elim
  | cls hd hc => exact ⟨_, rfl, hd, hc⟩

/-- **Candidates.**  Where class `c` is expected, every recognised type is a class that is registered,
not abstract, and `c` itself or reachable from `c` through registered direct-subclass edges — for every
document, every tag in it and every custom recogniser. -/
theorem C03_candidates (env : Env) (fuel : Nat) (n : Node) (c : String) (ts : List Ty) (ls : List Leaf)
    (h : recognize env fuel n (.cls c) = .ok (ts, ls)) :
    ∀ t ∈ ts, ∃ d, t = .cls d ∧ Descends env c d ∧ Concrete env d := by
  intro t ht
  exact admits_cls_inv env c t (recognize_admits env fuel n (.cls c) ts ls h t ht)

/-- abstract classes are never recognised (hence never instantiated) -/
theorem C03_abstract_never (env : Env) (fuel : Nat) (n : Node) (c : String) (ts : List Ty) (ls : List Leaf)
    (h : recognize env fuel n (.cls c) = .ok (ts, ls)) (d : ClassDef) (hd : env.find d.name = some d)
    (habs : d.abstract = true) : Ty.cls d.name ∉ ts := by
  intro hmem
  obtain ⟨e, he, _, dd, hfind, hconc⟩ := C03_candidates env fuel n c ts ls h _ hmem
  cases he
  rw [hd] at hfind
  cases hfind
  rw [habs] at hconc
  cases hconc

/-- unregistered classes are never considered -/
theorem C03_unregistered_never (env : Env) (fuel : Nat) (n : Node) (c : String) (ts : List Ty)
    (ls : List Leaf) (h : recognize env fuel n (.cls c) = .ok (ts, ls)) (d : String)
    (hd : env.find d = none) : Ty.cls d ∉ ts := by
  intro hmem
  obtain ⟨e, he, _, dd, hfind, _⟩ := C03_candidates env fuel n c ts ls h _ hmem
  cases he
  rw [hd] at hfind
  cases hfind

/-- a Union position only ever yields what one of its members yields -/
theorem C03_union_member (env : Env) (fuel : Nat) (n : Node) (ms : Tys) (ts : List Ty) (ls : List Leaf)
    (h : recognize env fuel n (.union ms) = .ok (ts, ls)) :
    ∀ t ∈ ts, ∃ m ∈ ms.toList, Admits env m t := by
  intro t ht
  have := recognize_admits env fuel n (.union ms) ts ls h t ht
  cases this with
  | self _ _ h2 => exact (h2 ms rfl).elim
  | unionMem hm ha => exact ⟨_, hm, ha⟩

/-- **Never a guess.**  If recognition does not single out exactly one type, processing the node fails
with a RecognitionError (carrying the leaves of the recognition error). -/
theorem C03_ambiguity_fails (env : Env) (tbl : List Entry) (fuel : Nat) (n : Node) (T : Ty)
    (ts : List Ty) (ls : List Leaf) (h : recognize env (fuel + 1) n T = .ok (ts, ls))
    (hne : ts.length ≠ 1) : processNode env tbl (fuel + 1) n T = .error (.recognition ls) := by
  simp only [processNode, h]
  match ts, hne with
  | [], _ => rfl
  | [_], hne => exact (hne rfl).elim
  | _ :: _ :: _, _ => rfl

/-- **An explicit tag picks among several candidates**, and only among them. -/
theorem C03_tag_picks (env : Env) (n : Node) (top : Bool) (ts : List Ty) (causes : List (List Leaf))
    (d : ClassDef) (hmany : ts.length > 1) (htag : env.byTag n.tag = some d)
    (hin : ts.contains (.cls d.name) = true) :
    finishClasses env n top ts causes = recOk (.cls d.name) := by
  have h0 : (ts.length == 0) = false := by
    cases ts <;> simp_all
  have hin' : Ty.cls d.name ∈ ts := by simpa using hin
  simp [finishClasses, h0, hmany, htag, hin']

/-- several candidates and no tag naming one of them: all of them are returned, so the load fails
(`C03_ambiguity_fails`) -/
theorem C03_no_tag_stays_ambiguous (env : Env) (n : Node) (top : Bool) (ts : List Ty)
    (causes : List (List Leaf)) (hmany : ts.length > 1) (htag : env.byTag n.tag = none) :
    ∃ ls, finishClasses env n top ts causes = .ok (ts, ls) := by
  have h0 : (ts.length == 0) = false := by
    cases ts <;> simp_all
  refine ⟨leavesOf ⟨[n.mark], []⟩ causes, ?_⟩
  simp [finishClasses, h0, hmany, htag]

/-- **A conflicting or unknown tag makes the load fail**: one candidate, but the node carries a
non-core tag that does not name it. -/
theorem C03_bad_tag_fails (env : Env) (n : Node) (top : Bool) (t : Ty) (causes : List (List Leaf))
    (hcore : hasPrefix "tag:yaml.org,2002" n.tag = false)
    (hbad : ∀ d, env.byTag n.tag = some d → t ≠ .cls d.name) :
    finishClasses env n top [t] causes = recFail [n.mark] := by
  simp only [finishClasses, List.length_cons, List.length_nil, Nat.zero_add, Nat.reduceBEq,
    Bool.false_eq_true, if_false, Nat.lt_irrefl, hcore, Bool.not_false, if_true]
  cases hb : env.byTag n.tag with
  | none => rfl
  | some d =>
    have := hbad d hb
    have hc : ¬ (Ty.cls d.name = t) := fun e => this e.symm
    simp [hc]

/-! ### order independence -/

/-- **Registration order.**  Two class tables holding the same classes (distinct names) in a different
order recognise the same *set* of types for every node and type, and fail fatally together.  (The class
table is consulted by order only in `directSubclasses`; every later stage — savorize, retagging, the
constructors, `isinstance` — looks classes up by name: `EnvPerm.find_eq`, `isRegistered_eq`, `byTag_eq`.) -/
theorem C03_registration_order (env env' : Env) (h : EnvPerm env env') (fuel : Nat) (n : Node) (T : Ty) :
    RRel (recognize env fuel n T) (recognize env' fuel n T) :=
  recognizeReq_perm env env' h fuel n (.ty T)

/-- hence: if one order singles out a type, every order singles out that type; and if one order does
not (no type, or several), no order does -/
theorem C03_registration_order_single (env env' : Env) (h : EnvPerm env env') (fuel : Nat) (n : Node) (T R : Ty)
    (ls : List Leaf) (hr : recognize env fuel n T = .ok ([R], ls)) :
    ∃ ls', recognize env' fuel n T = .ok ([R], ls') :=
  rrel_singleton (C03_registration_order env env' h fuel n T)
    (recognizeReq_nodup env fuel n (.ty T)) (recognizeReq_nodup env' fuel n (.ty T)) R ls hr

/-- **The outcome of a load does not depend on the registration order**: with the same classes in
another order the load gives the same value, the same constructor calls, the same savorize trace and
the same processed tree — or fails in both cases.  (When it fails, the error leaves may come in another
order; with untamed custom recognisers raising foreign exceptions, which foreign exception surfaces may
differ too.) -/
theorem C03_load_registration_order (env env' : Env) (h : EnvPerm env env') (tbl : List Entry) (fuel : Nat)
    (n : Node) (T : Ty) :
    (∃ f f', loadNode env tbl fuel n T = .error f ∧ loadNode env' tbl fuel n T = .error f') ∨
    loadNode env tbl fuel n T = loadNode env' tbl fuel n T :=
  loadNode_perm env env' h tbl fuel n T

/-- **Order of Union members.** -/
theorem C03_union_member_order (env : Env) (fuel : Nat) (n : Node) (ms ms' : Tys)
    (hp : ms.toList.Perm ms'.toList) :
    RRel (recognize env (fuel + 1) n (.union ms)) (recognize env (fuel + 1) n (.union ms')) :=
  recognizeReq_union_perm env fuel n ms ms' hp

theorem C03_union_member_order_single (env : Env) (fuel : Nat) (n : Node) (ms ms' : Tys)
    (hp : ms.toList.Perm ms'.toList) (R : Ty) (ls : List Leaf)
    (hr : recognize env (fuel + 1) n (.union ms) = .ok ([R], ls)) :
    ∃ ls', recognize env (fuel + 1) n (.union ms') = .ok ([R], ls') :=
  rrel_singleton (C03_union_member_order env fuel n ms ms' hp)
    (recognizeReq_nodup env (fuel + 1) n (.ty (.union ms))) (recognizeReq_nodup env (fuel + 1) n (.ty (.union ms'))) R ls hr

/-- the premises are satisfiable: a table of two classes and its reversal -/
example (ext : Ext) :
    EnvPerm ⟨[⟨"A", [], [], .plain, false, [], [], none, none, none, fun _ => false⟩,
              ⟨"B", ["A"], ["A"], .plain, false, [], [], none, none, none, fun _ => false⟩], ext⟩
            ⟨[⟨"B", ["A"], ["A"], .plain, false, [], [], none, none, none, fun _ => false⟩,
              ⟨"A", [], [], .plain, false, [], [], none, none, none, fun _ => false⟩], ext⟩ :=
  ⟨List.Perm.swap _ _ _, by simp, rfl⟩

end YatimlModel.C03
