import YatimlModel.Lemmas.JsonRefine
import YatimlModel.Spec.JsonCanon
import YatimlModel.Lemmas.JsonStringLemmas
import YatimlModel.Lemmas.RegexDecide
/-!
# C07 — JSON dumps are valid JSON with the same data under every formatting option

Structural part, for every tree and every configuration (no size bound).  The
scalar texts (`json.dumps`, `str.lower`, verbatim numbers) are parameters of the
model (`TextFns`): every theorem holds for all of them; that `json.dumps`
returns an RFC 8259 string token is CPython's contract (trusted, exercised by the
harness with `json.loads`), that the verbatim numbers are RFC 8259 numbers is
`C07_numbers_are_json` below.
-/
namespace YatimlModel.C07
open YatimlModel.Json

/-- how `Dumper.__init__` sets `_kv_sep` -/
def WfCfg (cfg : Cfg) : Prop := cfg.kvsep = if cfg.indented then ": " else ":"

/-- **Refinement.**  Feeding the machine the events of a whole document, from the initial state,
never raises, returns to the initial stack and writes exactly what the recursive renderer writes. -/
theorem run_prefix (cfg : Cfg) : run cfg init [Ev.other, Ev.other] = some (init, []) := by
  simp [run, emit, init, sepOf, nextOf]

theorem run_suffix (cfg : Cfg) : run cfg init [Ev.docEnd, Ev.other] = some (init, endl cfg 0) := by
  simp [run, emit, init, sepOf, nextOf]

theorem C07_machine_refines_renderer (cfg : Cfg) (t : JT) :
    run cfg init (evDoc t) = some (init, renderDoc cfg t) := by
  have h := run_T cfg t JS.none [] 0
  have e : evDoc t = [Ev.other, Ev.other] ++ (evT t ++ [Ev.docEnd, Ev.other]) := by
    simp [evDoc]
  have h' : run cfg init (evT t) = some (init, rT cfg 0 t) := by
    simpa [init, sepOf, nextOf] using h
  rw [e, run_append, run_prefix]
  simp only
  rw [run_append, h']
  simp only [run_suffix]
  simp [renderDoc]

theorem strip_append (a b : List Chunk) : strip (a ++ b) = strip a ++ strip b := by
  induction a with
  | nil => rfl
  | cons c cs ih => cases c <;> simp [strip, ih]

theorem strip_endl (cfg : Cfg) (n : Nat) : strip (endl cfg n) = [] := by
  unfold endl; split <;> rfl

theorem strip_kvsep (cfg : Cfg) (h : WfCfg cfg) : strip [Chunk.punct cfg.kvsep] = [Tok.p ":"] := by
  unfold WfCfg at h
  rw [h]
  cases cfg.indented <;> simp [strip]

mutual
theorem strip_rT (cfg : Cfg) (h : WfCfg cfg) : ∀ (t : JT) (ind : Nat),
    strip (rT cfg ind t) = cT cfg.fns t
  | .scalar k v, ind => by simp [rT, cT, strip]
  | .arr xs, ind => by
    simp only [rT, cT, strip_append, strip_endl, strip_rL cfg h xs]
    simp [strip]
  | .obj kvs, ind => by
    simp only [rT, cT, strip_append, strip_endl, strip_rK cfg h kvs]
    simp [strip]
theorem strip_rL (cfg : Cfg) (h : WfCfg cfg) : ∀ (xs : JL) (ind : Nat) (first : Bool),
    strip (rL cfg ind first xs) = cL cfg.fns first xs
  | .nil, ind, first => by simp [rL, cL, strip]
  | .cons x xs, ind, first => by
    simp only [rL, cL, strip_append, strip_rT cfg h x, strip_rL cfg h xs]
    cases first <;> simp [strip, strip_endl]
theorem strip_rK (cfg : Cfg) (h : WfCfg cfg) : ∀ (kvs : JKL) (ind : Nat) (first : Bool),
    strip (rK cfg ind first kvs) = cK cfg.fns first kvs
  | .nil, ind, first => by simp [rK, cK, strip]
  | .cons k v rest, ind, first => by
    simp only [rK, cK, strip_append, strip_rT cfg h k, strip_rT cfg h v, strip_rK cfg h rest,
      strip_kvsep cfg h]
    cases first <;> simp [strip, strip_endl]
end

/-- **Valid JSON, same data under every option.**  What the machine writes for a document is, after
erasing insignificant whitespace, the canonical RFC 8259 token stream of the tree — whatever
`indent` is. -/
theorem C07_emit_is_canonical_json (cfg : Cfg) (h : WfCfg cfg) (t : JT) :
    ∃ out, run cfg init (evDoc t) = some (init, out) ∧ strip out = cT cfg.fns t := by
  refine ⟨renderDoc cfg t, C07_machine_refines_renderer cfg t, ?_⟩
  simp [renderDoc, strip_append, strip_endl, strip_rT cfg h]

/-- two configurations that render scalars alike (same `ensure_ascii`) write the same tokens -/
theorem C07_same_data_all_indents (c1 c2 : Cfg) (h1 : WfCfg c1) (h2 : WfCfg c2)
    (hf : c1.fns = c2.fns) (t : JT) :
    strip (renderDoc c1 t) = strip (renderDoc c2 t) := by
  simp [renderDoc, strip_append, strip_endl, strip_rT c1 h1, strip_rT c2 h2, hf]

/-! ### compact output: no whitespace chunk at all, `:` as separator -/

def noWs : List Chunk → Bool
  | [] => true
  | .nl _ :: _ => false
  | .punct s :: cs => s != ": " && noWs cs
  | .scal _ :: cs => noWs cs

theorem noWs_append (a b : List Chunk) : noWs (a ++ b) = (noWs a && noWs b) := by
  induction a with
  | nil => simp [noWs]
  | cons c cs ih => cases c <;> simp [noWs, ih, Bool.and_assoc]

mutual
theorem noWs_rT (cfg : Cfg) (hi : cfg.indented = false) (hk : cfg.kvsep = ":") : ∀ (t : JT) (ind : Nat),
    noWs (rT cfg ind t) = true
  | .scalar k v, ind => by simp [rT, noWs]
  | .arr xs, ind => by simp [rT, noWs_append, endl, hi, noWs, noWs_rL cfg hi hk xs]
  | .obj kvs, ind => by simp [rT, noWs_append, endl, hi, noWs, noWs_rK cfg hi hk kvs]
theorem noWs_rL (cfg : Cfg) (hi : cfg.indented = false) (hk : cfg.kvsep = ":") :
    ∀ (xs : JL) (ind : Nat) (first : Bool), noWs (rL cfg ind first xs) = true
  | .nil, ind, first => by simp [rL, noWs]
  | .cons x xs, ind, first => by
    cases first <;> simp [rL, noWs_append, endl, hi, noWs, noWs_rT cfg hi hk x, noWs_rL cfg hi hk xs]
theorem noWs_rK (cfg : Cfg) (hi : cfg.indented = false) (hk : cfg.kvsep = ":") :
    ∀ (kvs : JKL) (ind : Nat) (first : Bool), noWs (rK cfg ind first kvs) = true
  | .nil, ind, first => by simp [rK, noWs]
  | .cons k v rest, ind, first => by
    cases first <;> simp [rK, noWs_append, endl, hi, hk, noWs, noWs_rT cfg hi hk k,
      noWs_rT cfg hi hk v, noWs_rK cfg hi hk rest]
end

/-- **Compact default.**  With `indent=None` the machine writes no whitespace outside scalars. -/
theorem C07_compact (cfg : Cfg) (h : WfCfg cfg) (hi : cfg.indented = false) (t : JT) :
    noWs (renderDoc cfg t) = true := by
  have hk : cfg.kvsep = ":" := by unfold WfCfg at h; simpa [hi] using h
  simp [renderDoc, endl, hi, noWs_rT cfg hi hk]

/-! ### indentation shape: every line break is followed by `depth * best_indent` spaces -/

def allMul (b : Nat) (l : List Nat) : Prop := ∀ n ∈ l, ∃ k, n = k * b

theorem nlIndents_append (a b : List Chunk) : nlIndents (a ++ b) = nlIndents a ++ nlIndents b := by
  induction a with
  | nil => rfl
  | cons c cs ih => cases c <;> simp [nlIndents, ih]

theorem nlIndents_endl (cfg : Cfg) (n : Nat) : ∀ m ∈ nlIndents (endl cfg n), m = n := by
  unfold endl; split <;> simp [nlIndents]

theorem allMul_append {b : Nat} {x y : List Nat} (hx : allMul b x) (hy : allMul b y) :
    allMul b (x ++ y) := by
  intro n hn
  rcases List.mem_append.mp hn with h | h
  · exact hx n h
  · exact hy n h

theorem allMul_endl (cfg : Cfg) (d : Nat) : allMul cfg.best (nlIndents (endl cfg (d * cfg.best))) := by
  intro n hn
  exact ⟨d, nlIndents_endl cfg _ n hn⟩

theorem allMul_nil (b : Nat) : allMul b [] := by intro n hn; cases hn

mutual
theorem indents_rT (cfg : Cfg) : ∀ (t : JT) (d : Nat),
    allMul cfg.best (nlIndents (rT cfg (d * cfg.best) t))
  | .scalar k v, d => by simp [rT, nlIndents, allMul_nil]
  | .arr xs, d => by
    have e : d * cfg.best + cfg.best = (d + 1) * cfg.best := by rw [Nat.add_mul, Nat.one_mul]
    simp only [rT, nlIndents_append, e]
    refine allMul_append (allMul_append (allMul_append (allMul_append ?_ (allMul_endl cfg _))
      (indents_rL cfg xs (d + 1) true)) (allMul_endl cfg _)) ?_ <;> simp [nlIndents, allMul_nil]
  | .obj kvs, d => by
    have e : d * cfg.best + cfg.best = (d + 1) * cfg.best := by rw [Nat.add_mul, Nat.one_mul]
    simp only [rT, nlIndents_append, e]
    refine allMul_append (allMul_append (allMul_append (allMul_append ?_ (allMul_endl cfg _))
      (indents_rK cfg kvs (d + 1) true)) (allMul_endl cfg _)) ?_ <;> simp [nlIndents, allMul_nil]
theorem indents_rL (cfg : Cfg) : ∀ (xs : JL) (d : Nat) (first : Bool),
    allMul cfg.best (nlIndents (rL cfg (d * cfg.best) first xs))
  | .nil, d, first => by simp [rL, nlIndents, allMul_nil]
  | .cons x xs, d, first => by
    simp only [rL, nlIndents_append]
    refine allMul_append (allMul_append ?_ (indents_rT cfg x d)) (indents_rL cfg xs d false)
    cases first
    · simp only [Bool.false_eq_true, if_false, nlIndents]; exact allMul_endl cfg d
    · simp [nlIndents, allMul_nil]
theorem indents_rK (cfg : Cfg) : ∀ (kvs : JKL) (d : Nat) (first : Bool),
    allMul cfg.best (nlIndents (rK cfg (d * cfg.best) first kvs))
  | .nil, d, first => by simp [rK, nlIndents, allMul_nil]
  | .cons k v rest, d, first => by
    simp only [rK, nlIndents_append]
    refine allMul_append (allMul_append (allMul_append (allMul_append ?_ (indents_rT cfg k d)) ?_)
      (indents_rT cfg v d)) (indents_rK cfg rest d false)
    · cases first
      · simp only [Bool.false_eq_true, if_false, nlIndents]; exact allMul_endl cfg d
      · simp [nlIndents, allMul_nil]
    · simp [nlIndents, allMul_nil]
end

/-- **Indent shape.**  Every line break the machine writes is followed by a whole multiple of
`best_indent` spaces (the nesting depth of the position). -/
theorem C07_indent_shape (cfg : Cfg) (t : JT) :
    allMul cfg.best (nlIndents (renderDoc cfg t)) := by
  have h := indents_rT cfg t 0
  simp only [Nat.zero_mul] at h
  simp only [renderDoc, nlIndents_append]
  refine allMul_append h ?_
  have := allMul_endl cfg 0
  simpa using this

/-- aliases are refused, never written -/
theorem C07_alias_raises (cfg : Cfg) (st : St) : emit cfg st Ev.alias = none := rfl

/-! ### scalar tokens -/

/-- **ASCII-only default.**  `json.dumps(s, ensure_ascii=True)` (as modelled and compared with
CPython on every run) writes printable ASCII only, for every string. -/
theorem C07_dumps_ascii (s : List Nat) :
    (JsonString.dumps true s).all JsonString.isAsciiPrintable = true :=
  JsonString.dumps_ascii s

/-- the modelled `json.dumps` always returns an RFC 8259 string token, whatever the content
(quotes, backslashes, control characters, non-BMP characters, lone surrogates) and mode -/
theorem C07_dumps_valid_string (a : Bool) (s : List Nat) :
    JsonString.validJsonString (JsonString.dumps a s) = true :=
  JsonString.dumps_valid a s

section numbers
open YatimlModel.Re

def digit19 : Re := rng '1' '9'
def digit09 : Re := rng '0' '9'
def intPart : Re := alt (ch '0') (cat digit19 (star digit09))
def minus : Re := opt (ch '-')
/-- `str(int)` -/
def pyIntStr : Re := cat minus intPart
/-- PyYAML's `represent_float` of a finite float: `repr(x).lower()`, with `.0` inserted before
the exponent when there is no fraction -/
def reprFloat : Re :=
  cat minus (cat intPart (cat (ch '.') (cat (plus digit09)
    (opt (cat (ch 'e') (cat (set [('+'.toNat, '+'.toNat), ('-'.toNat, '-'.toNat)]) (plus digit09)))))))
/-- RFC 8259 section 6 -/
def jsonNumber : Re :=
  cat minus (cat intPart (cat (opt (cat (ch '.') (plus digit09)))
    (opt (cat (set [('E'.toNat, 'E'.toNat), ('e'.toNat, 'e'.toNat)])
      (cat (opt (set [('+'.toNat, '+'.toNat), ('-'.toNat, '-'.toNat)])) (plus digit09))))))

def numProb : Prob :=
  { tbls := [], specs := [alt pyIntStr reprFloat, jsonNumber],
    good := fun _ bits => match bits with | [a, b] => !a || b | _ => false }

set_option maxRecDepth 100000 in
theorem numProb_ok : numProb.check numProb.bounds = true := by decide +kernel

/-- the number texts `emit_json` writes verbatim are RFC 8259 numbers -/
theorem C07_numbers_are_json (s : List Nat) (h : rmatch (alt pyIntStr reprFloat) s = true) :
    rmatch jsonNumber s = true := by
  have := Prob.check_sound numProb _ numProb_ok s
  simp only [numProb, List.map_cons, List.map_nil, h] at this
  simpa using this
end numbers

/-! ### non-vacuity: a concrete indented document -/

def idFns : TextFns := { dumps := fun s => "\"" ++ s ++ "\"", lower := fun s => s }
def cfg2 : Cfg := { indented := true, best := 2, kvsep := ": ", fns := idFns }
def sample : JT :=
  .obj (.cons (.scalar .str "a") (.arr (.cons (.scalar .other "1") (.cons (.scalar .null "") .nil)))
       (.cons (.scalar .str "b") (.obj .nil) .nil))

example : WfCfg cfg2 := rfl
example : textOf "\n" (renderDoc cfg2 sample)
    = "{\n  \"a\": [\n    1,\n    null\n  ],\n  \"b\": {\n    \n  }\n}\n" := by decide
example : (run cfg2 init (evDoc sample)).map (fun r => textOf "\n" r.2)
    = some "{\n  \"a\": [\n    1,\n    null\n  ],\n  \"b\": {\n    \n  }\n}\n" := by decide
end YatimlModel.C07
