import YatimlModel.Props.C07Parse
import YatimlModel.Spec.JsonProjection
import YatimlModel.Lemmas.IntNumber
/-!
# C07 end to end — the text `dumps_json` writes for a value parses to the value's JSON projection

The chain, all inside the model:

    value ──represent──► node tree ──serializer (ofNode / evDoc)──► events ──emit_json──► text
    value ──jsonOf (the JSON projection, stated on its own)──► JSON value ◄──parseJson── text

`jsonOf` is the property's "JSON projection of the object (the YAML projection with dates as ISO
strings)": `None`, booleans and numbers as such, strings, paths, enum members (by name),
string-likes and dates as strings, lists as arrays, dicts as objects in order, a user object as the
object of its constructor parameters in declaration order followed by its extra attributes.  It is
`none` outside C07's domain (bytes, keys that are not strings).

`C07_dumps_json_is_projection`: for every value in the domain whose classes have no
`_yatiml_sweeten`, every indent, `ensure_ascii` mode and line break: if representing succeeds, the
emitter machine fed with the document's events writes a text that the RFC 8259 reference parser reads
as exactly `jsonOf value`.
-/
namespace YatimlModel.C07
open YatimlModel YatimlModel.Json YatimlModel.JsonParse

/-! ### hypotheses -/

/-- no registered class has a `_yatiml_sweeten` (own or inherited) -/
def NoSweeten (env : DumpEnv) : Prop :=
  ∀ d ∈ env.registered, d.sweetenOwn = none ∧ d.sweetenMro = none

/-- `str.lower` on the two texts `represent_bool` writes -/
def LowerOk (f : TextFns) : Prop := f.lower "true" = "true" ∧ f.lower "false" = "false"

/-- every float in the value is written as a number text (`repr(float)` of a finite float is one:
`C07_number_texts_wf`); for integers this is a theorem (`int_numText`), not a hypothesis -/
def NumsOk : Nat → PyVal → Prop
  | 0, _ => True
  | fuel + 1, v =>
    match v with
    | .scalar (.float r _) => NumText (codes (floatText r))
    | .list xs => ∀ x ∈ xs.toList, NumsOk fuel x
    | .dict kvs => ∀ e ∈ kvs.toList, NumsOk fuel e.2
    | .obj _ kw => ∀ e ∈ attributesOf kw.toList, NumsOk fuel e.2
    | _ => True

/-! ### sweetening without hooks is the identity -/

theorem find_mem (env : DumpEnv) (c : String) (d : DumpClass) (h : env.find c = some d) :
    d ∈ env.registered := by
  unfold DumpEnv.find at h
  exact List.mem_of_find?_eq_some h

theorem sweeten_foldl_id (env : DumpEnv) (fuel : Nat) (n : Node)
    (ih : ∀ (n : Node) (d : DumpClass), d ∈ env.registered → ∀ r, sweeten env fuel n d = .ok r → r = (n, [])) :
    ∀ (bs : List DumpClass), (∀ b ∈ bs, b ∈ env.registered) → ∀ r,
      bs.foldl (fun (acc : Except DumpErr (Node × List String)) b =>
        match acc with
        | .error e => .error e
        | .ok (n', tr) =>
          match sweeten env fuel n' b with
          | .error e => .error e
          | .ok (n'', tr') => .ok (n'', tr ++ tr')) (.ok (n, [])) = .ok r → r = (n, []) := by
  intro bs
  -- generalise over an accumulator that is either an error or the untouched node
  suffices H : ∀ (bs : List DumpClass), (∀ b ∈ bs, b ∈ env.registered) →
      ∀ (acc : Except DumpErr (Node × List String)), (∀ r, acc = .ok r → r = (n, [])) → ∀ r,
      bs.foldl (fun (acc : Except DumpErr (Node × List String)) b =>
        match acc with
        | .error e => .error e
        | .ok (n', tr) =>
          match sweeten env fuel n' b with
          | .error e => .error e
          | .ok (n'', tr') => .ok (n'', tr ++ tr')) acc = .ok r → r = (n, []) by
    intro hb r hr
    exact H bs hb (.ok (n, [])) (fun r h => by cases h; rfl) r hr
  intro bs
  induction bs with
  | nil => intro _ acc hacc r hr; exact hacc r hr
  | cons b bs ihb =>
    intro hb acc hacc r hr
    simp only [List.foldl_cons] at hr
    refine ihb (fun x hx => hb x (by simp [hx])) _ ?_ r hr
    intro r' hr'
    cases acc with
    | error e => simp at hr'
    | ok p =>
      obtain ⟨n', tr⟩ := p
      have := hacc (n', tr) rfl
      cases this
      simp only at hr'
      split at hr'
      · cases hr'
      · rename_i n'' tr' hsw
        have := ih n b (hb b (by simp)) _ hsw
        cases this
        cases hr'; rfl

theorem sweeten_id (env : DumpEnv) (hns : NoSweeten env) :
    ∀ (fuel : Nat) (n : Node) (d : DumpClass), d ∈ env.registered →
      ∀ r, sweeten env fuel n d = .ok r → r = (n, [])
  | 0, _, _, _, r, h => by simp [sweeten] at h
  | fuel + 1, n, d, hd, r, h => by
    unfold sweeten at h
    simp only at h
    split at h
    · cases h
    · rename_i n' tr hfold
      have hbases : ∀ b ∈ d.bases.filterMap (fun b => env.find b), b ∈ env.registered := by
        intro b hb
        obtain ⟨nm, _, hnm⟩ := List.mem_filterMap.mp hb
        exact find_mem env nm b hnm
      have := sweeten_foldl_id env fuel n (sweeten_id env hns fuel) _ hbases _ hfold
      cases this
      rw [(hns d hd).1] at h
      simp only at h
      cases h; rfl

/-! ### the represented tree of a value denotes the value's projection -/

theorem skOfTag_str : skOfTag tStr = .str := by decide
theorem skOfTag_null : skOfTag tNull = .null := by decide
theorem skOfTag_bool : skOfTag tBool = .bool := by decide
theorem skOfTag_int : skOfTag tInt = .other := by decide
theorem skOfTag_float : skOfTag tFloat = .other := by decide
theorem skOfTag_ts : skOfTag tTimestamp = .timestamp := by decide

theorem ofNodes_ofList (ns : List Node) :
    ofNodes (Nodes.ofList ns) = ns.foldr (fun x acc => JL.cons (ofNode x) acc) JL.nil := by
  induction ns with
  | nil => simp [Nodes.ofList, ofNodes]
  | cons x xs ih => simp [Nodes.ofList, ofNodes, ih]

theorem ofPairs_ofList (ps : List (Node × Node)) :
    ofPairs (Pairs.ofList ps) = ps.foldr (fun p acc => JKL.cons (ofNode p.1) (ofNode p.2) acc) JKL.nil := by
  induction ps with
  | nil => simp [Pairs.ofList, ofPairs]
  | cons p ps ih => obtain ⟨k, v⟩ := p; simp [Pairs.ofList, ofPairs, ih]

/-- what a represented key looks like, for the key kinds `keyText` admits -/
theorem key_node (env : DumpEnv) (hns : NoSweeten env) (fuel : Nat) (k : PyVal) (o : RepOut) (kc : List Nat)
    (hr : represent env fuel k = .ok o) (hk : keyText k = some kc) :
    ∃ s, ofNode o.node = JT.scalar SK.str s ∧ codes s = kc := by
  cases fuel with
  | zero => simp [represent] at hr
  | succ fuel =>
    cases k with
    | scalar s =>
      cases s with
      | str s =>
        simp only [represent, representScalar] at hr
        cases hr
        simp only [keyText, Option.some.injEq] at hk
        exact ⟨s, by simp [ofNode, skOfTag_str], hk⟩
      | int _ => simp [keyText] at hk
      | float _ _ => simp [keyText] at hk
      | bool _ => simp [keyText] at hk
      | none => simp [keyText] at hk
    | path s =>
      simp only [represent] at hr
      cases hr
      simp only [keyText, Option.some.injEq] at hk
      exact ⟨s, by simp [ofNode, skOfTag_str], hk⟩
    | enumMember c nm =>
      simp only [represent] at hr
      split at hr
      · cases hr
      · rename_i d hd
        rw [(hns d (find_mem env c d hd)).2] at hr
        simp only at hr
        cases hr
        simp only [keyText, Option.some.injEq] at hk
        exact ⟨nm, by simp [ofNode, skOfTag_str], hk⟩
    | userStr c s =>
      simp only [represent] at hr
      split at hr
      · cases hr
      · rename_i d hd
        rw [(hns d (find_mem env c d hd)).2] at hr
        simp only at hr
        cases hr
        simp only [keyText, Option.some.injEq] at hk
        exact ⟨s, by simp [ofNode, skOfTag_str], hk⟩
    | date _ => simp [keyText] at hk
    | bytes _ => simp [keyText] at hk
    | list _ => simp [keyText] at hk
    | dict _ => simp [keyText] at hk
    | obj _ _ => simp [keyText] at hk

section proj
variable (env : DumpEnv) (f : TextFns)

/-- what the induction carries for one fuel value -/
def Proj (fuel : Nat) : Prop := ∀ (v : PyVal) (o : RepOut) (jv : JV),
  represent env fuel v = .ok o → jsonOf fuel v = some jv → NumsOk fuel v →
  toJV f (ofNode o.node) = jv ∧ WfT f (ofNode o.node)

theorem proj_items (fuel : Nat) (ih : Proj env f fuel) :
    ∀ (xs : List PyVal) (ns : List Node) (tr : List String) (js : JVs),
      repItems (represent env fuel) xs = .ok (ns, tr) → jsonItems (jsonOf fuel) xs = some js →
      (∀ x ∈ xs, NumsOk fuel x) →
      toJVs f (ofNodes (Nodes.ofList ns)) = js ∧ WfL f (ofNodes (Nodes.ofList ns))
  | [], ns, tr, js, hr, hj, _ => by
    simp only [repItems] at hr
    cases hr
    simp only [jsonItems] at hj
    cases hj
    simp [Nodes.ofList, ofNodes, toJVs, WfL]
  | x :: xs, ns, tr, js, hr, hj, hn => by
    simp only [repItems] at hr
    split at hr
    · cases hr
    · rename_i o ho
      split at hr
      · cases hr
      · rename_i ns' tr' hrest
        cases hr
        simp only [jsonItems] at hj
        split at hj
        · rename_i a b ha hb
          cases hj
          obtain ⟨h1, h2⟩ := ih x o a ho ha (hn x (by simp))
          obtain ⟨h3, h4⟩ := proj_items fuel ih xs ns' tr' b hrest hb (fun y hy => hn y (by simp [hy]))
          simp [Nodes.ofList, ofNodes, toJVs, WfL, h1, h2, h3, h4]
        · cases hj

theorem proj_pairs (hns : NoSweeten env) (fuel : Nat) (ih : Proj env f fuel) :
    ∀ (kvs : List (PyVal × PyVal)) (ps : List (Node × Node)) (tr : List String) (js : JKVs),
      repPairs (represent env fuel) kvs = .ok (ps, tr) → jsonPairs (jsonOf fuel) kvs = some js →
      (∀ e ∈ kvs, NumsOk fuel e.2) →
      toJKVs f (ofPairs (Pairs.ofList ps)) = js ∧ WfK f (ofPairs (Pairs.ofList ps))
  | [], ps, tr, js, hr, hj, _ => by
    simp only [repPairs] at hr
    cases hr
    simp only [jsonPairs] at hj
    cases hj
    simp [Pairs.ofList, ofPairs, toJKVs, WfK]
  | (k, v) :: r, ps, tr, js, hr, hj, hn => by
    simp only [repPairs] at hr
    split at hr
    · cases hr
    · rename_i ko hko
      split at hr
      · cases hr
      · rename_i vo hvo
        split at hr
        · cases hr
        · rename_i ps' tr' hrest
          cases hr
          simp only [jsonPairs] at hj
          split at hj
          · rename_i a b c ha hb hc
            cases hj
            obtain ⟨s, hs1, hs2⟩ := key_node env hns fuel k ko a hko ha
            obtain ⟨h1, h2⟩ := ih v vo b hvo hb (hn (k, v) (by simp))
            obtain ⟨h3, h4⟩ := proj_pairs hns fuel ih r ps' tr' c hrest hc (fun e he => hn e (by simp [he]))
            simp only [Pairs.ofList, ofPairs, toJKVs, WfK, hs1, keyOf, hs2, h1, h3, h2, h4, and_self,
              and_true, true_and]
            exact ⟨s, rfl⟩
          · cases hj

theorem proj_all (hns : NoSweeten env) (hl : LowerOk f) : ∀ fuel, Proj env f fuel
  | 0 => by intro v o jv hr; simp [represent] at hr
  | fuel + 1 => by
    have ih := proj_all hns hl fuel
    intro v o jv hr hj hn
    cases v with
    | scalar s =>
      simp only [represent] at hr
      cases hr
      cases s with
      | none =>
        simp only [jsonOf] at hj; cases hj
        simp [representScalar, ofNode, skOfTag_null, toJV, scalarJV, WfT, WfScalar]
      | bool b =>
        simp only [jsonOf] at hj; cases hj
        cases b <;> simp [representScalar, ofNode, skOfTag_bool, toJV, scalarJV, WfT, WfScalar, hl.1, hl.2]
      | int i =>
        simp only [jsonOf] at hj; cases hj
        exact ⟨by simp [representScalar, ofNode, skOfTag_int, toJV, scalarJV],
               by simpa [representScalar, ofNode, skOfTag_int, WfT, WfScalar] using int_numText i⟩
      | float r a =>
        simp only [jsonOf] at hj; cases hj
        simp only [NumsOk] at hn
        exact ⟨by simp [representScalar, ofNode, skOfTag_float, toJV, scalarJV],
               by simpa [representScalar, ofNode, skOfTag_float, WfT, WfScalar] using hn⟩
      | str s =>
        simp only [jsonOf] at hj; cases hj
        simp [representScalar, ofNode, skOfTag_str, toJV, scalarJV, WfT, WfScalar]
    | date r =>
      simp only [represent] at hr; cases hr
      simp only [jsonOf] at hj; cases hj
      simp [ofNode, skOfTag_ts, toJV, scalarJV, WfT, WfScalar]
    | bytes r => simp [jsonOf] at hj
    | path s =>
      simp only [represent] at hr; cases hr
      simp only [jsonOf] at hj; cases hj
      simp [ofNode, skOfTag_str, toJV, scalarJV, WfT, WfScalar]
    | enumMember c nm =>
      simp only [represent] at hr
      split at hr
      · cases hr
      · rename_i d hd
        rw [(hns d (find_mem env c d hd)).2] at hr
        simp only at hr
        cases hr
        simp only [jsonOf] at hj; cases hj
        simp [ofNode, skOfTag_str, toJV, scalarJV, WfT, WfScalar]
    | userStr c s =>
      simp only [represent] at hr
      split at hr
      · cases hr
      · rename_i d hd
        rw [(hns d (find_mem env c d hd)).2] at hr
        simp only at hr
        cases hr
        simp only [jsonOf] at hj; cases hj
        simp [ofNode, skOfTag_str, toJV, scalarJV, WfT, WfScalar]
    | list xs =>
      simp only [represent] at hr
      split at hr
      · cases hr
      · rename_i ns tr hitems
        cases hr
        simp only [jsonOf, Option.map_eq_some_iff] at hj
        obtain ⟨js, hjs, rfl⟩ := hj
        simp only [NumsOk] at hn
        obtain ⟨h1, h2⟩ := proj_items env f fuel ih xs.toList ns tr js hitems hjs hn
        simp [ofNode, toJV, WfT, h1, h2]
    | dict kvs =>
      simp only [represent] at hr
      split at hr
      · cases hr
      · rename_i ps tr hpairs
        cases hr
        simp only [jsonOf, Option.map_eq_some_iff] at hj
        obtain ⟨js, hjs, rfl⟩ := hj
        simp only [NumsOk] at hn
        obtain ⟨h1, h2⟩ := proj_pairs env f hns fuel ih kvs.toList ps tr js hpairs hjs hn
        simp [ofNode, toJV, WfT, h1, h2]
    | obj c kw =>
      simp only [represent] at hr
      split at hr
      · cases hr
      · rename_i d hd
        split at hr
        · cases hr
        · rename_i ps tr hpairs
          split at hr
          · cases hr
          · rename_i n tr' hsw
            cases hr
            have := sweeten_id env hns _ _ d (find_mem env c d hd) _ hsw
            cases this
            simp only [jsonOf, Option.map_eq_some_iff] at hj
            obtain ⟨js, hjs, rfl⟩ := hj
            simp only [NumsOk] at hn
            obtain ⟨h1, h2⟩ := proj_pairs env f hns fuel ih _ ps tr js hpairs hjs hn
            simp [ofNode, toJV, WfT, h1, h2]

end proj

/-- **`dumps_json` writes the JSON projection.**  For every value of C07's domain (`jsonOf` defined:
no bytes, string-like keys) whose classes have no `_yatiml_sweeten`, for every indent setting,
`ensure_ascii` mode and line break: if the value can be represented, the emitter machine — fed the
events of the represented tree — writes a text that the RFC 8259 reference parser reads as exactly the
value's JSON projection. -/
theorem C07_dumps_json_is_projection (env : DumpEnv) (cfg : Cfg) (a : Bool) (lb : String)
    (hns : NoSweeten env) (hl : LowerOk cfg.fns) (hd : DumpsIs cfg.fns a)
    (hk : JsonParse.WfCfg cfg) (hlb : AllWs (codes lb))
    (fuel : Nat) (v : PyVal) (o : RepOut) (jv : JV)
    (hr : represent env fuel v = .ok o) (hj : jsonOf fuel v = some jv) (hn : NumsOk fuel v) :
    ∃ out, run cfg init (evDoc (ofNode o.node)) = some (init, out) ∧
      parseJson (codes (textOf lb out)) = some jv := by
  obtain ⟨h1, h2⟩ := proj_all env cfg.fns hns hl fuel v o jv hr hj hn
  obtain ⟨out, ho, hp⟩ := C07_emitted_text_is_json cfg a lb hd hk hlb (ofNode o.node) h2
  exact ⟨out, ho, by rw [hp, h1]⟩

end YatimlModel.C07

/-! ### non-vacuity: a concrete class model and value meeting every hypothesis -/
namespace YatimlModel.C07
open YatimlModel YatimlModel.Json YatimlModel.JsonParse

def envE : DumpEnv :=
  { registered := [⟨"Point", [], .plain, none, none⟩, ⟨"Color", [], .enum ["red"], none, none⟩],
    builtinRepresenters := [] }

def valE : PyVal :=
  .obj "Point" (PyKVs.ofList [
    (.scalar (.str "x"), .scalar (.int (-3))),
    (.scalar (.str "tags"), .list (PyVals.ofList [.scalar (.str "a\"b"), .enumMember "Color" "red",
        .scalar .none, .scalar (.bool true)])),
    (.scalar (.str "_yatiml_extra"), .dict (PyKVs.ofList [(.scalar (.str "k"), .date "2020-01-02")]))])

example : NoSweeten envE := by
  intro d hd
  simp only [envE, List.mem_cons, List.not_mem_nil, or_false] at hd
  rcases hd with rfl | rfl <;> exact ⟨rfl, rfl⟩

example : (represent envE 4 valE).toOption.isSome = true := by decide +kernel
example : (jsonOf 4 valE).isSome = true := by decide +kernel
example : NumText (codes (toString (-3 : Int))) := int_numText (-3)

end YatimlModel.C07

namespace YatimlModel.C07
/-- `str(i)` of **every** integer is a JSON number text (no hypothesis, no bound): what `represent_int`
writes and `emit_json` copies verbatim is an RFC 8259 number -/
theorem C07_int_texts_are_numbers (i : Int) (f : YatimlModel.Json.TextFns) :
    YatimlModel.JsonParse.WfScalar f .other (toString i) :=
  YatimlModel.JsonParse.int_numText i
end YatimlModel.C07
