import YatimlModel.Lemmas.RecSound
import YatimlModel.Lemmas.RecNoHook
import YatimlModel.Model.Load
/-!
# C08 — bad input is reported only as RecognitionError or a YAML error

In the model every Python operation that can raise is an explicit failure site.
`LoadErr.other` is what an escaping exception of any other type becomes; the
theorems show it is unreachable from the construction phase altogether, and from
`__process_node` unless a custom *recogniser* raises something else than
RecognitionError or the type model contains a dict with non-string keys (both
outside the property: it speaks of constructors, string-likes and savorizers).
-/
namespace YatimlModel.C08
open YatimlModel NodeOps

def NotOther (e : LoadErr) : Prop := ∀ s, e ≠ .other s

theorem errAt_notOther (m : Mark) (k : List String) : NotOther (errAt m k) := by
  intro s; simp [errAt]

/-! ## construction -/

theorem consItems_notOther (cons : Node → ConsRes)
    (hc : ∀ x e cs, cons x = .error (e, cs) → NotOther e) :
    ∀ (xs : List Node) (calls : List Call) e cs, consItems cons xs calls = .error (e, cs) → NotOther e := by
  intro xs
  induction xs with
  | nil => intro calls e cs h; simp [consItems] at h
  | cons x xs ih =>
    intro calls e cs h
    unfold consItems at h
    split at h
    · rename_i e' cs' hx
      simp only [Except.error.injEq, Prod.mk.injEq] at h
      rw [← h.1]; exact hc x e' cs' hx
    · split at h
      · rename_i err herr
        obtain ⟨e', cs'⟩ := err
        simp only [Except.error.injEq, Prod.mk.injEq] at h
        rw [← h.1]
        exact ih _ e' cs' herr
      · cases h

theorem consPairs_notOther (cons : Node → ConsRes)
    (hc : ∀ x e cs, cons x = .error (e, cs) → NotOther e) :
    ∀ (ps : List (Node × Node)) (acc : List (PyVal × PyVal)) (calls : List Call) e cs,
      consPairs cons ps acc calls = .error (e, cs) → NotOther e := by
  intro ps
  induction ps with
  | nil => intro acc calls e cs h; simp [consPairs] at h
  | cons p ps ih =>
    intro acc calls e cs h
    obtain ⟨k, v⟩ := p
    unfold consPairs at h
    split at h
    · rename_i e' cs' hx
      simp only [Except.error.injEq, Prod.mk.injEq] at h
      rw [← h.1]; exact hc k e' cs' hx
    · split at h
      · simp only [Except.error.injEq, Prod.mk.injEq] at h
        rw [← h.1]; intro s; simp
      · split at h
        · rename_i e' cs' hx
          simp only [Except.error.injEq, Prod.mk.injEq] at h
          rw [← h.1]; exact hc v e' cs' hx
        · exact ih _ _ e cs h

theorem constructScalarCore_notOther (ext : Ext) (t v : String) (m : Mark) (e : LoadErr)
    (h : constructScalarCore ext t v m = .error e) : NotOther e := by
  unfold constructScalarCore at h
  repeat' split at h
  all_goals
    cases h <;> first | exact errAt_notOther _ _ | (intro s; simp)

theorem checkAttributes_notOther (env : Env) (d : ClassDef) (n : Node) (ps : List (Node × Node))
    (mapping : List (PyVal × PyVal)) (e : LoadErr) (h : checkAttributes env d n ps mapping = some e) :
    NotOther e := by
  unfold checkAttributes at h
  dsimp only at h
  split at h
  · rename_i e' hm
    cases h
    obtain ⟨p, _, hp⟩ := List.exists_of_findSome?_eq_some hm
    split at hp
    · split at hp
      · cases hp; exact errAt_notOther _ _
      · cases hp
    · split at hp
      · cases hp
      · cases hp; exact errAt_notOther _ _
  · obtain ⟨x, _, hx⟩ := List.exists_of_findSome?_eq_some h
    repeat' split at hx
    all_goals first
      | (cases hx; exact errAt_notOther _ _)
      | cases hx

def Tame (e : LoadErr) : Prop := e = .fuel ∨ NotOther e

theorem tame_of_notOther {e : LoadErr} (h : NotOther e) : Tame e := Or.inr h
theorem notOther_or_fuel {e : LoadErr} (h : Tame e) : ∀ s, e ≠ .other s := by
  intro s
  rcases h with h | h
  · rw [h]; simp
  · exact h s

/-- a variant of the callback lemmas for "tame" errors (fuel exhaustion allowed) -/
theorem consItems_tame (cons : Node → ConsRes)
    (hc : ∀ x e cs, cons x = .error (e, cs) → Tame e) :
    ∀ (xs : List Node) (calls : List Call) e cs, consItems cons xs calls = .error (e, cs) → Tame e := by
  intro xs
  induction xs with
  | nil => intro calls e cs h; simp [consItems] at h
  | cons x xs ih =>
    intro calls e cs h
    unfold consItems at h
    split at h
    · rename_i e' cs' hx
      simp only [Except.error.injEq, Prod.mk.injEq] at h
      rw [← h.1]; exact hc x e' cs' hx
    · split at h
      · rename_i err herr
        obtain ⟨e', cs'⟩ := err
        simp only [Except.error.injEq, Prod.mk.injEq] at h
        rw [← h.1]
        exact ih _ e' cs' herr
      · cases h

theorem consPairs_tame (cons : Node → ConsRes)
    (hc : ∀ x e cs, cons x = .error (e, cs) → Tame e) :
    ∀ (ps : List (Node × Node)) (acc : List (PyVal × PyVal)) (calls : List Call) e cs,
      consPairs cons ps acc calls = .error (e, cs) → Tame e := by
  intro ps
  induction ps with
  | nil => intro acc calls e cs h; simp [consPairs] at h
  | cons p ps ih =>
    intro acc calls e cs h
    obtain ⟨k, v⟩ := p
    unfold consPairs at h
    split at h
    · rename_i e' cs' hx
      simp only [Except.error.injEq, Prod.mk.injEq] at h
      rw [← h.1]; exact hc k e' cs' hx
    · split at h
      · simp only [Except.error.injEq, Prod.mk.injEq] at h
        rw [← h.1]; exact Or.inr (by intro s; simp)
      · split at h
        · rename_i e' cs' hx
          simp only [Except.error.injEq, Prod.mk.injEq] at h
          rw [← h.1]; exact hc v e' cs' hx
        · exact ih _ _ e cs h

/-- **Construction never lets another exception type escape**: whatever the processed tree looks like
(any tags, any shapes), whatever `__init__` and string-like constructors do. -/
theorem construct_tame (env : Env) (tbl : List Entry) :
    ∀ (fuel : Nat) (n : Node) (e : LoadErr) (cs : List Call),
      construct env tbl fuel n = .error (e, cs) → Tame e := by
  intro fuel
  induction fuel with
  | zero => intro n e cs h; simp [construct] at h; exact Or.inl h.1.symm
  | succ fuel ih =>
    intro n e cs h
    have hI := consItems_tame (construct env tbl fuel) (fun x e cs hx => ih x e cs hx)
    have hP := consPairs_tame (construct env tbl fuel) (fun x e cs hx => ih x e cs hx)
    unfold construct at h
    dsimp only at h
    repeat' split at h
    all_goals
      cases h <;> first
        | (apply hP; assumption)
        | (apply hI; assumption)
        | (apply tame_of_notOther; apply checkAttributes_notOther; assumption)
        | (apply tame_of_notOther; apply constructScalarCore_notOther; assumption)
        | exact tame_of_notOther (errAt_notOther _ _)
        | (refine Or.inr ?_; intro s; simp; done)

theorem C08_construct_no_other (env : Env) (tbl : List Entry) (fuel : Nat) (n : Node) (e : LoadErr)
    (cs : List Call) (h : construct env tbl fuel n = .error (e, cs)) : ∀ s, e ≠ .other s :=
  notOther_or_fuel (construct_tame env tbl fuel n e cs h)

/-! ## processing -/

/-- tame, or the RuntimeError yatiml raises for a dict type with non-string keys (an unsupported
class model, not a property of the input) -/
def TameP (e : LoadErr) : Prop := Tame e ∨ e = .other "RuntimeError"

theorem isRegistered_of_find (env : Env) (c : String) (d : ClassDef) (h : env.find c = some d) :
    env.isRegistered c = true := by
  unfold Env.find at h
  simp only [Env.isRegistered, List.any_eq_true]
  exact ⟨d, List.mem_of_find?_eq_some h, by simpa using List.find?_some h⟩

theorem admits_taggable (env : Env) (T R : Ty) (h : Admits env T R) :
    R = .any ∨ (typeToTag env R).isSome = true := by
  induction h with
  | self T h1 h2 =>
    cases T <;> simp_all [typeToTag, scalarTag]
  | unionMem _ _ ih => exact ih
  | cls _ hc =>
    obtain ⟨dd, hf, _⟩ := hc
    right
    simp [typeToTag, isRegistered_of_find env _ dd hf]
  | seqItem _ _ => right; simp [typeToTag]
  | mapKey _ _ => right; simp [typeToTag]
  | mapVal _ _ => right; simp [typeToTag]

theorem procItems_tame (proc : Node → Ty → ProcRes) (T : Ty)
    (hp : ∀ x e, proc x T = .error e → TameP e) :
    ∀ (xs : List Node) e, procItems proc T xs = .error e → TameP e := by
  intro xs
  induction xs with
  | nil => intro e h; simp [procItems] at h
  | cons x xs ih =>
    intro e h
    unfold procItems at h
    split at h
    · cases h; exact hp x _ (by assumption)
    · split at h
      · cases h; exact ih _ (by assumption)
      · cases h

theorem procPairs_tame (proc : Node → Ty → ProcRes) (K V : Ty)
    (hk : ∀ x e, proc x K = .error e → TameP e) (hv : ∀ x e, proc x V = .error e → TameP e) :
    ∀ (ps : List (Node × Node)) e, procPairs proc K V ps = .error e → TameP e := by
  intro ps
  induction ps with
  | nil => intro e h; simp [procPairs] at h
  | cons p ps ih =>
    intro e h
    obtain ⟨k, v⟩ := p
    unfold procPairs at h
    split at h
    · cases h; exact hk k _ (by assumption)
    · split at h
      · cases h; exact hv v _ (by assumption)
      · split at h
        · cases h; exact ih _ (by assumption)
        · cases h

theorem procAttrs_tame (proc : Node → Ty → ProcRes)
    (hp : ∀ x U e, proc x U = .error e → TameP e) :
    ∀ (params : List Param) (n : Node) e, procAttrs proc n params = .error e → TameP e := by
  intro params
  induction params with
  | nil => intro n e h; simp [procAttrs] at h
  | cons p ps ih =>
    intro n e h
    unfold procAttrs at h
    repeat' split at h
    all_goals
      first
        | exact ih _ _ h
        | (cases h <;> first
            | exact Or.inl (tame_of_notOther (errAt_notOther _ _))
            | (apply hp; assumption)
            | (apply ih; assumption))

theorem savStep_tame (env : Env) (fuel : Nat) (n : Node) (R : Ty) (e : LoadErr)
    (h : savStep env fuel n R = .error e) : TameP e := by
  unfold savStep at h
  repeat' split at h
  all_goals cases h <;> exact Or.inl (tame_of_notOther (errAt_notOther _ _))

theorem subStep_tame (env : Env) (proc : Node → Ty → ProcRes)
    (hp : ∀ x U e, proc x U = .error e → TameP e) (R : Ty) (n2 : Node) (e : LoadErr)
    (h : subStep env proc R n2 = .error e) : TameP e := by
  have hI := fun U => procItems_tame proc U (fun x e hx => hp x U e hx)
  have hP := fun K V => procPairs_tame proc K V (fun x e hx => hp x K e hx) (fun x e hx => hp x V e hx)
  have hA := procAttrs_tame proc hp
  unfold subStep at h
  repeat' split at h
  all_goals
    first
      | (apply hA; assumption)
      | (cases h <;> first
          | exact Or.inl (tame_of_notOther (errAt_notOther _ _))
          | (apply hI; assumption)
          | (apply hP; assumption))

theorem tagStep_tame (env : Env) (tbl : List Entry) (T R : Ty) (hadm : Admits env T R) (n3 : Node)
    (tr : List String) (e : LoadErr) (h : tagStep env tbl R n3 tr = .error e) : TameP e := by
  unfold tagStep at h
  split at h
  · cases h
  · rename_i hany
    rcases admits_taggable env T R hadm with h1 | h1
    · simp [h1] at hany
    · split at h
      · cases h
      · rename_i hnone
        rw [hnone] at h1
        cases h1

/-- **Processing never lets another exception type escape** — whatever the savorize functions do
(including raising arbitrary exceptions and replacing the node), whatever tags, duplicate or non-scalar
keys the document has — unless a custom recogniser itself raises something else than RecognitionError. -/
theorem process_tame (env : Env) (tbl : List Entry) (ht : HooksTame env) :
    ∀ (fuel : Nat) (n : Node) (T : Ty) (e : LoadErr), processNode env tbl fuel n T = .error e → TameP e := by
  intro fuel
  induction fuel with
  | zero => intro n T e h; simp [processNode] at h; exact Or.inl (Or.inl h.symm)
  | succ fuel ih =>
    intro n T e h
    unfold processNode at h
    split at h
    · rename_i f hf
      cases h
      have := recognize_noHook env ht (fuel + 1) n T
      cases f <;> simp_all [fatalToErr, TameP, Tame, NotOther, errAt]
    · rename_i ts leaves hr
      split at h
      · rename_i R
        have hadm := recognize_admits env (fuel + 1) n T [R] leaves hr R (by simp)
        split at h
        · cases h; exact savStep_tame env _ n R _ (by assumption)
        · split at h
          · cases h; exact subStep_tame env _ (fun x U e hx => ih x U e hx) R _ _ (by assumption)
          · exact tagStep_tame env tbl T R hadm _ _ e h
      · cases h
        exact Or.inl (Or.inr (by intro s; simp))

/-- **Processing.**  With custom recognisers that raise nothing but RecognitionError, the only "other"
exception `__process_node` can raise is the RuntimeError for a dict type with non-string keys. -/
theorem C08_process_no_other (env : Env) (tbl : List Entry) (ht : HooksTame env) (fuel : Nat)
    (n : Node) (T : Ty) (e : LoadErr) (h : processNode env tbl fuel n T = .error e) :
    ∀ s, e = .other s → s = "RuntimeError" := by
  intro s hs
  rcases process_tame env tbl ht fuel n T e h with h1 | h1
  · exact (notOther_or_fuel h1 s hs).elim
  · rw [h1] at hs; cases hs; rfl

/-- **C08.**  A load either returns or fails with a RecognitionError or a YAML error (or, in the model
only, by running out of fuel): no other exception type escapes — for every class model whose custom
recognisers raise nothing but RecognitionError and whose dict types have string keys, every document
tree, and every savorize / `__init__` / string-like behaviour. -/
theorem C08_load_no_other (env : Env) (tbl : List Entry) (ht : HooksTame env) (fuel : Nat)
    (n : Node) (T : Ty) (f : LoadFail) (h : loadNode env tbl fuel n T = .error f) :
    ∀ s, f.err = .other s → s = "RuntimeError" := by
  unfold loadNode at h
  split at h
  · cases h
    exact C08_process_no_other env tbl ht fuel n T _ (by assumption)
  · split at h
    · cases h
      intro s hs
      exact (C08_construct_no_other env tbl fuel _ _ _ (by assumption) s hs).elim
    · cases h

/-! ### non-vacuity: a model with a raising savorizer and a raising `__init__` is tame -/

def demoEnv : Env :=
  { registered := [{ name := "A", bases := [], ancestors := ["object"], kind := .plain, abstract := false,
                     params := [⟨"x", .int, true, true⟩], argNames := ["x"], extraTy := none,
                     recognize := some [.requireMapping, .requireAttribute "x" (some .int)],
                     savorize := some [.raiseOther], initRaises := fun _ => true }],
    ext := ⟨fun _ => none, fun _ => none, fun _ => none⟩ }

example : HooksTame demoEnv := by
  intro d hd prog hp op hop
  simp only [demoEnv, List.mem_cons, List.not_mem_nil, or_false] at hd
  subst hd
  simp only [Option.some.injEq] at hp
  subst hp
  simp only [List.mem_cons, List.not_mem_nil, or_false] at hop
  rcases hop with rfl | rfl <;> exact trivial

end YatimlModel.C08
