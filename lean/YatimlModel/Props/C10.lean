import YatimlModel.Model.Process
import YatimlModel.Model.Represent
/-!
# C10 — seasoning and recognition hooks run once, own class only, bases first
-/
namespace YatimlModel.C10
open YatimlModel NodeOps

/-- the savorize hooks the documented rule runs for class `d`: those of its registered direct bases
(recursively, in `__bases__` order), then its own if it defines one in its body -/
def chain (env : Env) : Nat → ClassDef → List String
  | 0, _ => []
  | fuel + 1, d =>
    ((d.bases.filterMap (fun b => env.find b)).flatMap (chain env fuel))
      ++ (match d.savorize with | some _ => [d.name] | none => [])

theorem foldl_trace (env : Env) (fuel : Nat)
    (ih : ∀ n d n' tr, savorize env fuel n d = .ok (n', tr) → tr = chain env fuel d) :
    ∀ (bases : List ClassDef) (n0 : Node) (t0 : List String) (n' : Node) (tr : List String),
      bases.foldl (fun (acc : Except SavErr (Node × List String)) b =>
        match acc with
        | .error e => .error e
        | .ok (n', tr) =>
          match savorize env fuel n' b with
          | .error e => .error e
          | .ok (n'', tr') => .ok (n'', tr ++ tr')) (.ok (n0, t0)) = .ok (n', tr) →
      tr = t0 ++ bases.flatMap (chain env fuel) := by
  intro bases
  induction bases with
  | nil => intro n0 t0 n' tr h; simp at h; simp [h.2]
  | cons b bs ihb =>
    intro n0 t0 n' tr h
    simp only [List.foldl_cons] at h
    cases hs : savorize env fuel n0 b with
    | error e =>
      rw [hs] at h
      have : ∀ (l : List ClassDef), l.foldl (fun (acc : Except SavErr (Node × List String)) b =>
          match acc with
          | .error e => .error e
          | .ok (n', tr) =>
            match savorize env fuel n' b with
            | .error e => .error e
            | .ok (n'', tr') => .ok (n'', tr ++ tr')) (.error e) = .error e := by
        intro l; induction l with
        | nil => rfl
        | cons x xs ihx => simpa using ihx
      rw [this] at h
      cases h
    | ok r =>
      obtain ⟨n1, t1⟩ := r
      rw [hs] at h
      have h1 := ih n0 b n1 t1 hs
      have := ihb n1 (t0 ++ t1) n' tr h
      rw [this, h1]
      simp [List.append_assoc]

/-- **Each once, bases first, own class only.**  When savorizing a node as class `d` succeeds, the hooks
that ran are exactly the chain of `d` — every `_yatiml_savorize` defined in the body of a registered base
(bases first) and of `d` itself, each once, and no other class's — whatever the hooks do to the node. -/
theorem C10_savorize_chain (env : Env) : ∀ (fuel : Nat) (n : Node) (d : ClassDef) (n' : Node)
    (tr : List String), savorize env fuel n d = .ok (n', tr) → tr = chain env fuel d := by
  intro fuel
  induction fuel with
  | zero => intro n d n' tr h; simp [savorize] at h
  | succ fuel ih =>
    intro n d n' tr h
    unfold savorize at h
    dsimp only at h
    split at h
    · cases h
    · rename_i n1 t1 hb
      have hb' := foldl_trace env fuel ih _ n [] n1 t1 hb
      simp only [List.nil_append] at hb'
      split at h
      · rename_i hs
        simp only [Except.ok.injEq, Prod.mk.injEq] at h
        rw [← h.2, hb']
        simp [chain, hs]
      · rename_i prog hs
        split at h
        · cases h
        · simp only [Except.ok.injEq, Prod.mk.injEq] at h
          rw [← h.2, hb']
          simp [chain, hs]

/-- a class that defines a savorize function runs it last (after its bases') -/
theorem C10_savorize_own_last (env : Env) (fuel : Nat) (d : ClassDef) (prog : List SavOp)
    (h : d.savorize = some prog) : (chain env (fuel + 1) d).getLast? = some d.name := by
  simp [chain, h]

/-- no definition in the class body, no call for that class -/
theorem C10_savorize_no_hook_no_call (env : Env) (fuel : Nat) (d : ClassDef) (h : d.savorize = none)
    (hb : d.bases.filterMap (fun b => env.find b) = []) : chain env (fuel + 1) d = [] := by
  simp [chain, h, hb]

/-- **A SeasoningError (or any other exception) raised while savorizing surfaces as a
RecognitionError** citing the node. -/
theorem C10_seasoning_error_is_recognition_error (env : Env) (fuel : Nat) (n : Node) (R : Ty)
    (e : LoadErr) (h : savStep env fuel n R = .error e) : ∃ m, e = .recognition [⟨[m], []⟩] := by
  unfold savStep at h
  repeat' split at h
  all_goals first
    | (cases h; done)
    | (cases h; exact ⟨_, rfl⟩)

/-- **After recognition, before the attribute type check.**  Savorizing is applied to the type that
recognition singled out; the attribute values are processed afterwards on the savorized node, and the
constructor's checks come later still (they are part of construction). -/
theorem C10_savorize_after_recognition (env : Env) (tbl : List Entry) (fuel : Nat) (n : Node) (T : Ty)
    (o : ProcOut) (h : processNode env tbl (fuel + 1) n T = .ok o) :
    ∃ R ls n2 tr n3 tr', recognize env (fuel + 1) n T = .ok ([R], ls) ∧
      savStep env (fuel + 1) n R = .ok (n2, tr) ∧
      subStep env (processNode env tbl fuel) R n2 = .ok (n3, tr') ∧
      o.trace = tr ++ tr' := by
  unfold processNode at h
  split at h
  · cases h
  · rename_i ts ls hr
    split at h
    · rename_i R
      split at h
      · cases h
      · rename_i n2 tr hs
        split at h
        · cases h
        · rename_i n3 tr' hsub
          refine ⟨R, ls, n2, tr, n3, tr', hr, hs, hsub, ?_⟩
          unfold tagStep at h
          split at h
          · cases h; rfl
          · split at h
            · cases h; rfl
            · cases h
    · cases h

/-- **`_yatiml_recognize` is consulted only for the class that defines it**: recognising one class
depends on nothing of the class model but that class's own definition (and the external scalar
functions). -/
theorem C10_recognize_own_dict_only (env env' : Env) (hext : env.ext = env'.ext)
    (rec : Node → Ty → RecRes) (n : Node) (d : ClassDef) :
    recUserClass env rec n d = recUserClass env' rec n d := by
  unfold recUserClass
  rw [hext]

/-! ### the dump side: `_yatiml_sweeten` -/

/-- the sweeten hooks the documented rule runs for class `d` when dumping -/
def sweetChain (env : DumpEnv) : Nat → DumpClass → List String
  | 0, _ => []
  | fuel + 1, d =>
    ((d.bases.filterMap (fun b => env.find b)).flatMap (sweetChain env fuel))
      ++ (match d.sweetenOwn with | some _ => [d.name] | none => [])

theorem sweeten_foldl_trace (env : DumpEnv) (fuel : Nat)
    (ih : ∀ n d n' tr, sweeten env fuel n d = .ok (n', tr) → tr = sweetChain env fuel d) :
    ∀ (bases : List DumpClass) (n0 : Node) (t0 : List String) (n' : Node) (tr : List String),
      bases.foldl (fun (acc : Except DumpErr (Node × List String)) b =>
        match acc with
        | .error e => .error e
        | .ok (n', tr) =>
          match sweeten env fuel n' b with
          | .error e => .error e
          | .ok (n'', tr') => .ok (n'', tr ++ tr')) (.ok (n0, t0)) = .ok (n', tr) →
      tr = t0 ++ bases.flatMap (sweetChain env fuel) := by
  intro bases
  induction bases with
  | nil => intro n0 t0 n' tr h; simp at h; simp [h.2]
  | cons b bs ihb =>
    intro n0 t0 n' tr h
    simp only [List.foldl_cons] at h
    cases hs : sweeten env fuel n0 b with
    | error e =>
      rw [hs] at h
      have : ∀ (l : List DumpClass), l.foldl (fun (acc : Except DumpErr (Node × List String)) b =>
          match acc with
          | .error e => .error e
          | .ok (n', tr) =>
            match sweeten env fuel n' b with
            | .error e => .error e
            | .ok (n'', tr') => .ok (n'', tr ++ tr')) (.error e) = .error e := by
        intro l; induction l with
        | nil => rfl
        | cons x xs ihx => simpa using ihx
      rw [this] at h
      cases h
    | ok r =>
      obtain ⟨n1, t1⟩ := r
      rw [hs] at h
      have h1 := ih n0 b n1 t1 hs
      have := ihb n1 (t0 ++ t1) n' tr h
      rw [this, h1]
      simp [List.append_assoc]

/-- **Sweeten: each once, bases first, own class only.**  When sweetening the node of an object of
class `d` succeeds, the hooks that ran are exactly the chain of `d`: every `_yatiml_sweeten` defined in
the body of a base that has a representer (bases first) and of `d` itself, each once — whatever the hooks
do to the node.  (For plain classes; the enum / string-like representers are the known finding F14.) -/
theorem C10_sweeten_chain (env : DumpEnv) : ∀ (fuel : Nat) (n : Node) (d : DumpClass) (n' : Node)
    (tr : List String), sweeten env fuel n d = .ok (n', tr) → tr = sweetChain env fuel d := by
  intro fuel
  induction fuel with
  | zero => intro n d n' tr h; simp [sweeten] at h
  | succ fuel ih =>
    intro n d n' tr h
    unfold sweeten at h
    dsimp only at h
    split at h
    · cases h
    · rename_i n1 t1 hb
      have hb' := sweeten_foldl_trace env fuel ih _ n [] n1 t1 hb
      simp only [List.nil_append] at hb'
      split at h
      · rename_i hs
        simp only [Except.ok.injEq, Prod.mk.injEq] at h
        rw [← h.2, hb']
        simp [sweetChain, hs]
      · rename_i prog hs
        split at h
        · cases h
        · simp only [Except.ok.injEq, Prod.mk.injEq] at h
          rw [← h.2, hb']
          simp [sweetChain, hs]

end YatimlModel.C10
