import YatimlModel.Gen.Registry
import YatimlModel.Lemmas.RegistryHistory
/-!
# C11 — load and dump functions are stateless, isolated, and leave PyYAML untouched

The programs (`Gen.Registry.progs`) are regenerated on every run from yatiml's factories, `Loader.__init__`
/ `Dumper.__init__` with the methods they call, PyYAML's `add_*` class methods, and the live class
hierarchy with its class-level registries.  `progs_checked` runs the checker on them in the kernel; the
history theorems are proved for *every* set of programs the checker accepts (`Lemmas/RegistryHistory`),
so they re-apply to whatever the translator produces next time.

What the theorems say, for every history of creating functions (of any kind, over any number of
classes) and calling them (any number of loop iterations inside), in any order:
* the base heap — PyYAML's and yatiml's own classes and their registries, which is what
  `yaml.safe_load` / `yaml.safe_dump` and every later function start from — is never written;
* the heap region of every function is exactly what its factory builds in a history of its own, and no
  call changes it: a call therefore runs in the same state whatever happened before;
* no program leaves the modelled fragment or writes to a user class (`err`).
Threads: each call works on its own level-2 objects and reads levels 0 and 1, which nothing writes
after creation; the interleaving of calls is a history in this model, the GIL-level atomicity of the
individual reads is CPython's.
-/
namespace YatimlModel.C11
open YatimlModel.Reg YatimlModel.Gen.Registry

/-- the translator expressed every statement, and nothing else in the package writes shared state -/
theorem translation_complete : untranslated = [] ∧ censusOutside = [] := by decide

/-- the checker accepts the regenerated programs (kernel evaluation) -/
theorem progs_checked : progs.check = true := by decide +kernel

/-- **No history changes the base.** -/
theorem C11_base_untouched (ops : List Op) (hv : ∀ op ∈ ops, opValid progs op) :
    (progs.run progs.world0 ops).base = progs.base ∧ (progs.run progs.world0 ops).bad = false := by
  have h := run_inv progs progs_checked ops progs.world0 [] (inv0 progs) hv
  exact ⟨h.base, h.bad⟩

/-- **Isolation and statelessness.**  After any history the functions that exist are exactly the
functions their `create` operations give in isolation, in order: nothing another function's creation or
any call (successful or not) did is visible in them. -/
theorem C11_isolated (ops : List Op) (hv : ∀ op ∈ ops, opValid progs op) :
    (progs.run progs.world0 ops).fns = (creates ops).map progs.isolated := by
  have h := run_inv progs progs_checked ops progs.world0 [] (inv0 progs) hv
  simpa using h.fns

/-- **A call runs in the same state whatever came before**: the state a call of function `k` starts
from after history `ops` is the state it starts from right after an isolated creation. -/
theorem C11_call_state (ops : List Op) (hv : ∀ op ∈ ops, opValid progs op) (k : Nat) (c : Name × List Nat)
    (hk : (creates ops)[k]? = some c) :
    ∃ f, (progs.run progs.world0 ops).fns[k]? = some f ∧
      progs.callSt (progs.run progs.world0 ops).base f = progs.callSt progs.base (progs.isolated c) := by
  refine ⟨progs.isolated c, ?_, ?_⟩
  · rw [C11_isolated ops hv, List.getElem?_map, hk]; rfl
  · rw [(C11_base_untouched ops hv).1]

/-- a call leaves its function as it was, in every history -/
theorem C11_call_is_noop_on_world (ops : List Op) (hv : ∀ op ∈ ops, opValid progs op) (k : Nat) (ds : List Nat) :
    progs.run progs.world0 (ops ++ [Op.call k ds]) = progs.run progs.world0 ops := by
  have h1 := run_inv progs progs_checked ops progs.world0 [] (inv0 progs) hv
  have hv2 : ∀ op ∈ ops ++ [Op.call k ds], opValid progs op := by
    intro op hop
    rcases List.mem_append.mp hop with h | h
    · exact hv op h
    · simp at h; subst h; trivial
  have h2 := run_inv progs progs_checked (ops ++ [Op.call k ds]) progs.world0 [] (inv0 progs) hv2
  have hc : creates (ops ++ [Op.call k ds]) = creates ops := by
    rw [creates_append]; simp [creates]
  have e1 : (progs.run progs.world0 (ops ++ [Op.call k ds])).base = (progs.run progs.world0 ops).base := by
    rw [h2.base, h1.base]
  have e2 : (progs.run progs.world0 (ops ++ [Op.call k ds])).fns = (progs.run progs.world0 ops).fns := by
    rw [h2.fns, h1.fns, hc]
  have e3 : (progs.run progs.world0 (ops ++ [Op.call k ds])).bad = (progs.run progs.world0 ops).bad := by
    rw [h2.bad, h1.bad]
  cases hw : progs.run progs.world0 (ops ++ [Op.call k ds])
  cases hw' : progs.run progs.world0 ops
  simp_all

/-- non-vacuity: a history with two load functions over different numbers of classes, a dumps function
and calls in between is valid, and its functions differ from each other -/
example : ∀ op ∈ [Op.create (kinds.headD 0) [2], Op.call 0 [3, 3], Op.create (kinds.headD 0) [0],
      Op.create (kinds.getLastD 0) [1], Op.call 2 [13], Op.call 0 [3, 3]],
    opValid progs op := by
  intro op h
  simp only [List.mem_cons, List.not_mem_nil, or_false] at h
  rcases h with h | h | h | h | h | h <;> subst h <;> simp [opValid, progs, kinds]

end YatimlModel.C11
