import YatimlModel.Lemmas.PlainData
import YatimlModel.Lemmas.RecSound
import YatimlModel.Model.Load
import YatimlModel.Gen.LoaderResolvers
import YatimlModel.Lemmas.Reach
/-!
# C04 — a document cannot cause construction of objects the type model does not call for
-/
namespace YatimlModel.C04
open YatimlModel NodeOps

/-- the regenerated loader table only produces core tags -/
theorem loaderTable_core : TableCore Gen.loaderTable := by
  intro e he
  simp only [Gen.loaderTable] at he
  revert e
  decide

/-- **Any positions.**  Whatever tags a node and everything beneath it carry — `!Registered`,
`!!python/object/apply:…`, anything — when it is processed at a position typed `Any` the tree handed to
construction has core tags only … -/
theorem C04_any_processed_core (env : Env) (tbl : List Entry) (htbl : TableCore tbl) (fuel : Nat)
    (n : Node) (o : ProcOut) (h : processNode env tbl (fuel + 1) n .any = .ok o) : AllCore o.node := by
  simp only [processNode, recognize, recognizeReq, recOk, savStep, subStep, tagStep] at h
  simp only [beq_self_eq_true, if_true, Except.ok.injEq] at h
  rw [← h]
  exact stripTags_allCore tbl htbl n

/-- … and such a tree constructs to plain data (dicts, lists, built-in scalars) without a single
user-constructor call, or fails. -/
theorem C04_any_plain (env : Env) (tbl : List Entry) (htbl : TableCore tbl) (fuel fuel' : Nat)
    (n : Node) (o : ProcOut) (h : processNode env tbl (fuel + 1) n .any = .ok o) :
    QuietPlain (construct env tbl fuel' o.node) :=
  construct_quiet env tbl fuel' o.node (C04_any_processed_core env tbl htbl fuel n o h)

/-- the same for whatever `strip_tags` is applied to: untyped parameters (processed as `Any`) and the
values of extra attributes, which the class constructor strips before constructing them -/
theorem C04_stripped_plain (env : Env) (tbl : List Entry) (htbl : TableCore tbl) (fuel : Nat) (n : Node) :
    QuietPlain (construct env tbl fuel (stripTags tbl n)) :=
  construct_quiet env tbl fuel _ (stripTags_allCore tbl htbl n)

/-- a `!!python/…` tag (or any other core-prefixed tag PyYAML's SafeConstructor has no constructor for)
on a scalar is kept by `strip_tags` and makes the load fail with a YAML error: nothing is imported or
called -/
theorem C04_python_tags_fail (env : Env) (tbl : List Entry) (fuel : Nat) (t v : String) (m : Mark)
    (hcore : hasPrefix corePrefix t = true)
    (hunk : t ≠ tStr ∧ t ≠ tInt ∧ t ≠ tFloat ∧ t ≠ tBool ∧ t ≠ tNull ∧ t ≠ tTimestamp ∧
            t ≠ "tag:yaml.org,2002:binary") :
    construct env tbl (fuel + 1) (.scalar t v m) = .error (.yaml "ConstructorError", []) := by
  obtain ⟨h1, h2, h3, h4, h5, h6, h7⟩ := hunk
  simp [construct, Node.tag, byTag_core env t hcore, core_ne_path t hcore, constructScalarCore,
    h1, h2, h3, h4, h5, h6, h7]

/-- **Constructors run only for registered classes named by a node's tag.**  Every call in the log is
for a class of the model (the model has no other way to create an object: "nothing named by the
document is ever imported or called" is structural). -/
def CallsRegistered (env : Env) (cs : List Call) : Prop := ∀ c ∈ cs, env.isRegistered c.cls = true

theorem byTag_registered (env : Env) (t : String) (d : ClassDef) (h : env.byTag t = some d) :
    env.isRegistered d.name = true := by
  unfold Env.byTag at h
  split at h
  · have hn := find_name env _ d h
    unfold Env.find at h
    simp only [Env.isRegistered, List.any_eq_true]
    exact ⟨d, List.mem_of_find?_eq_some h, by simp⟩
  · cases h

/-- **Only what the type calls for.**  Whatever the document contains — tags of any kind at any node,
unknown keys, arbitrary nesting below `Any`, untyped or `_yatiml_extra` positions — every user constructor
a load runs (at any depth, also when the load fails afterwards) belongs to a class *reachable* from the
declared type: a class the type names, a registered class derived from it, or (recursively) a class
reachable from the parameter types of such a class (`Reach`).  Hypotheses: the resolver table has core tags
only (`loaderTable_core`), `EnvWF` (checked on the real classes of every generated model), the names
`__init__` accepts are its parameters, and dict key types are `str` or a class. -/
theorem C04_calls_within_reach (env : Env) (tbl : List Entry) (htbl : TableCore tbl) (hwf : EnvWF env)
    (hargs : ArgsAreParams env)
    (hparamsOk : ∀ c d, env.find c = some d → ∀ p ∈ d.params, DictKeysOk p.ty)
    (fuel : Nat) (n : Node) (T : Ty) (hT : DictKeysOk T) :
    ∀ c ∈ allCalls (loadNode env tbl fuel n T), Reach env T c.cls :=
  loadNode_calls_reach env tbl htbl hwf hargs hparamsOk fuel n T hT

/-- `Any` reaches nothing: below `Any` no constructor runs -/
theorem C04_any_reaches_nothing (env : Env) (e : String) : ¬ Reach env .any e := by
  intro h; cases h

end YatimlModel.C04
