import YatimlModel.Model.Transforms
/-!
# C15 — structural seasoning transforms: no-ops when not applicable, inverse pairs

(first part: applicability; the inverse laws are in the second half of the file)
-/
namespace YatimlModel.C15
open YatimlModel YatimlModel.NodeOps

/-! ## not applicable ⇒ the node is left unchanged, nothing is raised -/

theorem attrFor_missing (t : String) (ps : Pairs) (m : Mark) (attr : String)
    (h : hasKey ps.toList attr = false) : attrFor (.map t ps m) attr = .ok none := by
  simp [attrFor, hasAttribute, h]

/-- **Missing attribute.**  All four transforms return the node unchanged. -/
theorem C15_noop_missing (t : String) (ps : Pairs) (m : Mark) (attr ka : String) (va : Option String)
    (strict : Bool) (h : hasKey ps.toList attr = false) :
    seqAttributeToMap (.map t ps m) attr ka va strict = .ok (.map t ps m) ∧
    mapAttributeToSeq (.map t ps m) attr ka va = .ok (.map t ps m) ∧
    indexAttributeToMap (.map t ps m) attr ka va = .ok (.map t ps m) ∧
    mapAttributeToIndex (.map t ps m) attr ka va = .ok (.map t ps m) := by
  simp [seqAttributeToMap, mapAttributeToSeq, indexAttributeToMap, mapAttributeToIndex,
    attrFor_missing t ps m attr h]

theorem attrFor_unique (t : String) (ps : Pairs) (m : Mark) (attr : String) (v : Node)
    (h : valuesOf ps.toList attr = [v]) : attrFor (.map t ps m) attr = .ok (some v) := by
  have hk : hasKey ps.toList attr = true := by
    simp only [valuesOf] at h
    simp only [hasKey, List.any_eq_true]
    cases hf : ps.toList.filter (fun p => p.1.keyIs attr) with
    | nil => simp [hf] at h
    | cons p r =>
      have : p ∈ ps.toList.filter (fun p => p.1.keyIs attr) := by rw [hf]; exact List.mem_cons_self
      exact ⟨p, (List.mem_filter.mp this).1, (List.mem_filter.mp this).2⟩
  simp [attrFor, hasAttribute, hk, getAttribute, h]

/-- **Wrong kind.**  If the attribute does not hold a sequence (for `seq_attribute_to_map`) or a
mapping (for the other three), the node is returned unchanged. -/
theorem C15_noop_wrong_kind (t : String) (ps : Pairs) (m : Mark) (attr ka : String)
    (va : Option String) (strict : Bool) (v : Node) (h : valuesOf ps.toList attr = [v]) :
    (v.isSeqNode = false → seqAttributeToMap (.map t ps m) attr ka va strict = .ok (.map t ps m)) ∧
    (v.isMapNode = false →
      mapAttributeToSeq (.map t ps m) attr ka va = .ok (.map t ps m) ∧
      indexAttributeToMap (.map t ps m) attr ka va = .ok (.map t ps m) ∧
      mapAttributeToIndex (.map t ps m) attr ka va = .ok (.map t ps m)) := by
  have ha := attrFor_unique t ps m attr v h
  constructor
  · intro hv
    cases v <;> simp_all [seqAttributeToMap, Node.isSeqNode]
  · intro hv
    cases v <;> simp_all [mapAttributeToSeq, indexAttributeToMap, mapAttributeToIndex, Node.isMapNode]

/-- a mapping of something that is not all mappings: `index_attribute_to_map` does nothing, and so
does `map_attribute_to_seq` without a value attribute -/
theorem C15_noop_not_all_mappings (t : String) (ps : Pairs) (m : Mark) (attr ka : String)
    (va : Option String) (t' : String) (qs : Pairs) (m' : Mark)
    (h : valuesOf ps.toList attr = [.map t' qs m'])
    (hbad : qs.toList.any (fun p => !p.2.isMapNode) = true) :
    indexAttributeToMap (.map t ps m) attr ka va = .ok (.map t ps m) ∧
    mapAttributeToSeq (.map t ps m) attr ka none = .ok (.map t ps m) := by
  have ha := attrFor_unique t ps m attr _ h
  simp [indexAttributeToMap, mapAttributeToSeq, ha, hbad]

/-- a sequence with an item that is not a mapping (the items before it being well-formed):
`seq_attribute_to_map` does nothing -/
theorem checkSeqItems_noop_of_nonmap (ka : String) (strict : Bool) (x : Node) (rest : List Node)
    (seen : List String) (hx : x.isMapNode = false) :
    checkSeqItems ka strict (x :: rest) seen = .noop := by
  cases x <;> simp_all [checkSeqItems, Node.isMapNode]

/-! ## duplicate keys -/

/-- a well-formed item: a mapping in which the key attribute occurs once, holding a string scalar -/
def ItemKey (ka : String) (item : Node) (kv : String) : Prop :=
  ∃ t ps m m', item = .map t ps m ∧ valuesOf ps.toList ka = [.scalar tStr kv m']

theorem checkSeqItems_step (ka : String) (strict : Bool) (item : Node) (kv : String)
    (rest : List Node) (seen : List String) (h : ItemKey ka item kv) :
    checkSeqItems ka strict (item :: rest) seen =
      if seen.contains kv then (if strict then .err else .noop)
      else checkSeqItems ka strict rest (kv :: seen) := by
  obtain ⟨t, ps, m, m', rfl, hv⟩ := h
  simp [checkSeqItems, hv]

/-- **Duplicate keys.**  Two well-formed items with the same key: SeasoningError in strict mode,
nothing happens otherwise. -/
theorem C15_duplicate_keys (ka : String) (strict : Bool) (a b : Node) (kv : String)
    (rest : List Node) (ha : ItemKey ka a kv) (hb : ItemKey ka b kv) :
    checkSeqItems ka strict (a :: b :: rest) [] = if strict then .err else .noop := by
  rw [checkSeqItems_step ka strict a kv _ _ ha]
  simp only [List.contains_nil, Bool.false_eq_true, if_false]
  rw [checkSeqItems_step ka strict b kv _ _ hb]
  simp

/-! ## dashes and underscores -/

theorem replaceChar_inverse (a b : Char) (s : String) (h : b ∉ s.toList) :
    replaceChar b a (replaceChar a b s) = s := by
  simp only [replaceChar, String.toList_ofList, List.map_map]
  have : s.toList.map ((fun c => if c == b then a else c) ∘ (fun c => if c == a then b else c)) = s.toList := by
    conv => rhs; rw [← List.map_id s.toList]
    apply List.map_congr_left
    intro c hc
    simp only [Function.comp, id]
    by_cases h1 : c = a
    · simp [h1]
    · have h2 : c ≠ b := fun e => h (e ▸ hc)
      simp [h1, h2]
  rw [this, String.ofList_toList]

/-- **dashes_to_unders ∘ unders_to_dashes** (and the converse) is the identity on a key free of the
target character -/
theorem C15_dash_under_inverse (s : String) :
    ('-' ∉ s.toList → replaceChar '-' '_' (replaceChar '_' '-' s) = s) ∧
    ('_' ∉ s.toList → replaceChar '_' '-' (replaceChar '-' '_' s) = s) :=
  ⟨replaceChar_inverse '_' '-' s, replaceChar_inverse '-' '_' s⟩

/-! ## inverse pairs -/

theorem setFirst_absent (ps : List (Node × Node)) (a : String) (v : Node) (h : hasKey ps a = false) :
    setFirst ps a v = ps ++ [(Node.scalar tStr a Mark.generated, v)] := by
  induction ps with
  | nil => rfl
  | cons p rest ih =>
    obtain ⟨k, x⟩ := p
    simp only [hasKey, List.any_cons, Bool.or_eq_false_iff] at h
    simp only [setFirst, h.1, Bool.false_eq_true, if_false, List.cons_append]
    rw [ih (by simpa [hasKey] using h.2)]

theorem valuesOf_removeFirst (ps : List (Node × Node)) (a : String) :
    valuesOf (removeFirst ps a) a = (valuesOf ps a).tail := by
  induction ps with
  | nil => rfl
  | cons p rest ih =>
    obtain ⟨k, x⟩ := p
    by_cases hk : k.keyIs a = true
    · simp [removeFirst, valuesOf, hk]
    · have hk' : k.keyIs a = false := by simpa using hk
      simp only [removeFirst, hk', Bool.false_eq_true, if_false]
      have : valuesOf ((k, x) :: removeFirst rest a) a = valuesOf (removeFirst rest a) a := by
        simp [valuesOf, hk']
      rw [this, ih]
      simp [valuesOf, hk']

theorem hasKey_of_valuesOf_nil (ps : List (Node × Node)) (a : String) (h : valuesOf ps a = []) :
    hasKey ps a = false := by
  cases hk : hasKey ps a with
  | false => rfl
  | true =>
    simp only [hasKey, List.any_eq_true] at hk
    obtain ⟨p, hp, hpk⟩ := hk
    have : p.2 ∈ valuesOf ps a := by
      simp only [valuesOf, List.mem_map, List.mem_filter]
      exact ⟨p, ⟨hp, hpk⟩, rfl⟩
    rw [h] at this; cases this

/-- the remaining pairs of a well-formed item no longer hold the key attribute -/
theorem rest_has_no_key (ps : List (Node × Node)) (ka : String) (v : Node) (h : valuesOf ps ka = [v]) :
    hasKey (removeFirst ps ka) ka = false := by
  apply hasKey_of_valuesOf_nil
  rw [valuesOf_removeFirst, h]; rfl

/-- **seq → map → seq, long form.**  A well-formed item (a mapping whose key attribute occurs once and
holds a string) that is *not* reduced to the short form comes back as the same mapping with the key
attribute moved to the end: the original data up to the position of the key attribute. -/
theorem C15_seq_map_item_long (ka : String) (va : Option String) (t : String) (ps : Pairs) (m mk : Mark)
    (kv : String) (hkey : valuesOf ps.toList ka = [.scalar tStr kv mk])
    (hlong : ∀ va' k v, va = some va' → removeFirst ps.toList ka = [(k, v)] → k.keyIs va' = false) :
    mapItemToSeq ka va (seqItemToPair ka va (.map t ps m)) =
      some (.map t (Pairs.ofList (removeFirst ps.toList ka ++
        [(Node.scalar tStr ka Mark.generated, Node.scalar tStr kv Mark.generated)])) m) := by
  have hpair : seqItemToPair ka va (.map t ps m) =
      (.scalar tStr kv mk, .map t (Pairs.ofList (removeFirst ps.toList ka)) m) := by
    simp only [seqItemToPair, hkey, List.headD_cons]
    split
    · rename_i _ vaS k v hrest
      have := hlong vaS k v rfl hrest
      simp [this]
    · rfl
  rw [hpair]
  simp only [mapItemToSeq, keyText, Pairs.toList_ofList]
  rw [setFirst_absent _ _ _ (rest_has_no_key ps.toList ka _ hkey)]

/-- **seq → map → seq, short form.**  When the value attribute is the sole remaining key and does not
itself hold a mapping, the item is reduced to `key: value` and comes back as the two-attribute mapping. -/
theorem C15_seq_map_item_short (ka va' : String) (t : String) (ps : Pairs) (m mk : Mark) (kv : String)
    (k v : Node) (hkey : valuesOf ps.toList ka = [.scalar tStr kv mk])
    (hrest : removeFirst ps.toList ka = [(k, v)]) (hk : k.keyIs va' = true) (hv : v.isMapNode = false) :
    seqItemToPair ka (some va') (.map t ps m) = (.scalar tStr kv mk, v) ∧
    mapItemToSeq ka (some va') (.scalar tStr kv mk, v) =
      some (.map tMap (Pairs.ofList [(Node.scalar tStr va' Mark.generated, v),
                                     (Node.scalar tStr ka Mark.generated, Node.scalar tStr kv Mark.generated)]) mk) := by
  have hne : (va' == ka) = false := by
    have hno := rest_has_no_key ps.toList ka _ hkey
    rw [hrest] at hno
    simp only [hasKey, List.any_cons, List.any_nil, Bool.or_false] at hno
    cases k with
    | scalar _ kt _ =>
      simp only [Node.keyIs] at hk hno
      have : kt = va' := by simpa using hk
      subst this
      simpa using hno
    | seq _ _ _ => simp [Node.keyIs] at hk
    | map _ _ _ => simp [Node.keyIs] at hk
  constructor
  · simp [seqItemToPair, hkey, hrest, hk]
  · cases v with
    | map _ _ _ => simp [Node.isMapNode] at hv
    | scalar vt vv vm =>
      simp [mapItemToSeq, keyText, setFirst, Node.keyIs, hne, Node.mark]
    | seq vt vx vm =>
      simp [mapItemToSeq, keyText, setFirst, Node.keyIs, hne, Node.mark]

/-- **index → map → index.**  For an entry whose inner key attribute is the outer key (an *index*): the
long form comes back with the key attribute (now holding the outer key node) at the end. -/
theorem C15_index_item_long (ka : String) (va : Option String) (k0 : Node) (t : String) (ps : Pairs) (m : Mark)
    (hlong : ∀ va' k v, va = some va' → ps.toList.filter (fun q => !q.1.keyIs ka) = [(k, v)] → k.keyIs va' = false) :
    unindexItem ka va (indexItem ka va (k0, .map t ps m)) =
      (k0, .map t (Pairs.ofList (ps.toList.filter (fun q => !q.1.keyIs ka) ++
        [(Node.scalar tStr ka k0.mark, k0)])) m) := by
  have hpair : indexItem ka va (k0, .map t ps m) =
      (k0, .map t (Pairs.ofList (ps.toList.filter (fun q => !q.1.keyIs ka))) m) := by
    simp only [indexItem]
    split
    · rename_i _ vaS k v hrest
      have := hlong vaS k v rfl hrest
      simp [this]
    · rfl
  rw [hpair]
  simp [unindexItem, Pairs.toList_ofList]

/-- index → map → index, short form (the value attribute is the sole other key and holds no mapping) -/
theorem C15_index_item_short (ka va' : String) (k0 : Node) (t : String) (ps : Pairs) (m : Mark) (k v : Node)
    (hrest : ps.toList.filter (fun q => !q.1.keyIs ka) = [(k, v)]) (hk : k.keyIs va' = true)
    (hv : v.isMapNode = false) :
    indexItem ka (some va') (k0, .map t ps m) = (k0, v) ∧
    unindexItem ka (some va') (k0, v) =
      (k0, .map tMap (Pairs.ofList [(Node.scalar tStr va' v.mark, v), (Node.scalar tStr ka k0.mark, k0)]) v.mark) := by
  constructor
  · simp [indexItem, hrest, hk]
  · cases v with
    | map _ _ _ => simp [Node.isMapNode] at hv
    | scalar _ _ _ => simp [unindexItem]
    | seq _ _ _ => simp [unindexItem]

theorem mapM_map_pointwise {α β γ : Type} (f : α → β) (g : β → Option γ) (h : α → γ) :
    ∀ (l : List α), (∀ x ∈ l, g (f x) = some (h x)) → (l.map f).mapM g = some (l.map h) := by
  intro l
  induction l with
  | nil => intro _; rfl
  | cons x rest ih =>
    intro hx
    have h1 := hx x List.mem_cons_self
    have h2 := ih (fun y hy => hx y (List.mem_cons_of_mem _ hy))
    simp only [List.map_cons, List.mapM_cons, h1, h2]
    rfl

/-- **seq → map → seq on the whole attribute value**: if every item comes back as `h item` (by the two
item theorems above: the same mapping with the key attribute moved to the end, or the two-attribute
mapping for a short-form item), the list of pairs `seq_attribute_to_map` builds is turned by
`map_attribute_to_seq` into exactly the list of those items, in order. -/
theorem C15_seq_map_seq_items (ka : String) (va : Option String) (h : Node → Node) (items : List Node)
    (hitems : ∀ item ∈ items, mapItemToSeq ka va (seqItemToPair ka va item) = some (h item)) :
    (items.map (seqItemToPair ka va)).mapM (mapItemToSeq ka va) = some (items.map h) :=
  mapM_map_pointwise _ _ h items hitems

/-- index → map → index on the whole attribute value, entry by entry and in order -/
theorem C15_index_map_index_items (ka : String) (va : Option String) (h : Node × Node → Node × Node)
    (ps : List (Node × Node)) (hps : ∀ p ∈ ps, unindexItem ka va (indexItem ka va p) = h p) :
    (ps.map (indexItem ka va)).map (unindexItem ka va) = ps.map h := by
  rw [List.map_map]
  exact List.map_congr_left hps

end YatimlModel.C15
