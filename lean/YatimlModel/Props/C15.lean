import YatimlModel.Model.Transforms
/-!
# C15 — structural seasoning transforms: no-ops when not applicable, inverse pairs

(first part: applicability; the inverse laws are in the second half of the file)
-/
namespace YatimlModel.C15
open YatimlModel YatimlModel.NodeOps

/-! ## not applicable ⇒ the node is left unchanged, nothing is raised -/

theorem attrFor_missing (t : String) (ps : Pairs) (m : Mark) (attr : String)
    (h : hasKey ps.toList attr = false) : attrFor (.map t ps m) attr = .ok none := by
  simp [attrFor, hasAttribute, h]

/-- **Missing attribute.**  All four transforms return the node unchanged. -/
theorem C15_noop_missing (t : String) (ps : Pairs) (m : Mark) (attr ka : String) (va : Option String)
    (strict : Bool) (h : hasKey ps.toList attr = false) :
    seqAttributeToMap (.map t ps m) attr ka va strict = .ok (.map t ps m) ∧
    mapAttributeToSeq (.map t ps m) attr ka va = .ok (.map t ps m) ∧
    indexAttributeToMap (.map t ps m) attr ka va = .ok (.map t ps m) ∧
    mapAttributeToIndex (.map t ps m) attr ka va = .ok (.map t ps m) := by
  simp [seqAttributeToMap, mapAttributeToSeq, indexAttributeToMap, mapAttributeToIndex,
    attrFor_missing t ps m attr h]

theorem attrFor_unique (t : String) (ps : Pairs) (m : Mark) (attr : String) (v : Node)
    (h : valuesOf ps.toList attr = [v]) : attrFor (.map t ps m) attr = .ok (some v) := by
  have hk : hasKey ps.toList attr = true := by
    simp only [valuesOf] at h
    simp only [hasKey, List.any_eq_true]
    cases hf : ps.toList.filter (fun p => p.1.keyIs attr) with
    | nil => simp [hf] at h
    | cons p r =>
      have : p ∈ ps.toList.filter (fun p => p.1.keyIs attr) := by rw [hf]; exact List.mem_cons_self
      exact ⟨p, (List.mem_filter.mp this).1, (List.mem_filter.mp this).2⟩
  simp [attrFor, hasAttribute, hk, getAttribute, h]

/-- **Wrong kind.**  If the attribute does not hold a sequence (for `seq_attribute_to_map`) or a
mapping (for the other three), the node is returned unchanged. -/
theorem C15_noop_wrong_kind (t : String) (ps : Pairs) (m : Mark) (attr ka : String)
    (va : Option String) (strict : Bool) (v : Node) (h : valuesOf ps.toList attr = [v]) :
    (v.isSeqNode = false → seqAttributeToMap (.map t ps m) attr ka va strict = .ok (.map t ps m)) ∧
    (v.isMapNode = false →
      mapAttributeToSeq (.map t ps m) attr ka va = .ok (.map t ps m) ∧
      indexAttributeToMap (.map t ps m) attr ka va = .ok (.map t ps m) ∧
      mapAttributeToIndex (.map t ps m) attr ka va = .ok (.map t ps m)) := by
  have ha := attrFor_unique t ps m attr v h
  constructor
  · intro hv
    cases v <;> simp_all [seqAttributeToMap, Node.isSeqNode]
  · intro hv
    cases v <;> simp_all [mapAttributeToSeq, indexAttributeToMap, mapAttributeToIndex, Node.isMapNode]

/-- a mapping of something that is not all mappings: `index_attribute_to_map` does nothing, and so
does `map_attribute_to_seq` without a value attribute -/
theorem C15_noop_not_all_mappings (t : String) (ps : Pairs) (m : Mark) (attr ka : String)
    (va : Option String) (t' : String) (qs : Pairs) (m' : Mark)
    (h : valuesOf ps.toList attr = [.map t' qs m'])
    (hbad : qs.toList.any (fun p => !p.2.isMapNode) = true) :
    indexAttributeToMap (.map t ps m) attr ka va = .ok (.map t ps m) ∧
    mapAttributeToSeq (.map t ps m) attr ka none = .ok (.map t ps m) := by
  have ha := attrFor_unique t ps m attr _ h
  simp [indexAttributeToMap, mapAttributeToSeq, ha, hbad]

/-- a sequence with an item that is not a mapping (the items before it being well-formed):
`seq_attribute_to_map` does nothing -/
theorem checkSeqItems_noop_of_nonmap (ka : String) (strict : Bool) (x : Node) (rest : List Node)
    (seen : List String) (hx : x.isMapNode = false) :
    checkSeqItems ka strict (x :: rest) seen = .noop := by
  cases x <;> simp_all [checkSeqItems, Node.isMapNode]

/-! ## duplicate keys -/

/-- a well-formed item: a mapping in which the key attribute occurs once, holding a string scalar -/
def ItemKey (ka : String) (item : Node) (kv : String) : Prop :=
  ∃ t ps m m', item = .map t ps m ∧ valuesOf ps.toList ka = [.scalar tStr kv m']

theorem checkSeqItems_step (ka : String) (strict : Bool) (item : Node) (kv : String)
    (rest : List Node) (seen : List String) (h : ItemKey ka item kv) :
    checkSeqItems ka strict (item :: rest) seen =
      if seen.contains kv then (if strict then .err else .noop)
      else checkSeqItems ka strict rest (kv :: seen) := by
  obtain ⟨t, ps, m, m', rfl, hv⟩ := h
  simp [checkSeqItems, hv]

/-- **Duplicate keys.**  Two well-formed items with the same key: SeasoningError in strict mode,
nothing happens otherwise. -/
theorem C15_duplicate_keys (ka : String) (strict : Bool) (a b : Node) (kv : String)
    (rest : List Node) (ha : ItemKey ka a kv) (hb : ItemKey ka b kv) :
    checkSeqItems ka strict (a :: b :: rest) [] = if strict then .err else .noop := by
  rw [checkSeqItems_step ka strict a kv _ _ ha]
  simp only [List.contains_nil, Bool.false_eq_true, if_false]
  rw [checkSeqItems_step ka strict b kv _ _ hb]
  simp

/-! ## dashes and underscores -/

theorem replaceChar_inverse (a b : Char) (s : String) (h : b ∉ s.toList) :
    replaceChar b a (replaceChar a b s) = s := by
  simp only [replaceChar, String.toList_ofList, List.map_map]
  have : s.toList.map ((fun c => if c == b then a else c) ∘ (fun c => if c == a then b else c)) = s.toList := by
    conv => rhs; rw [← List.map_id s.toList]
    apply List.map_congr_left
    intro c hc
    simp only [Function.comp, id]
    by_cases h1 : c = a
    · simp [h1]
    · have h2 : c ≠ b := fun e => h (e ▸ hc)
      simp [h1, h2]
  rw [this, String.ofList_toList]

/-- **dashes_to_unders ∘ unders_to_dashes** (and the converse) is the identity on a key free of the
target character -/
theorem C15_dash_under_inverse (s : String) :
    ('-' ∉ s.toList → replaceChar '-' '_' (replaceChar '_' '-' s) = s) ∧
    ('_' ∉ s.toList → replaceChar '_' '-' (replaceChar '-' '_' s) = s) :=
  ⟨replaceChar_inverse '_' '-' s, replaceChar_inverse '-' '_' s⟩

end YatimlModel.C15
