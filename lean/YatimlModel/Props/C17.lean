import YatimlModel.Props.C08
import YatimlModel.Props.C03
import YatimlModel.Lemmas.RecPositioned
/-!
# C17 — recognition errors point at the offending place

The model's `LoadErr.recognition` carries, per leaf of the error tree, the positions and the key names
the message cites (the message text itself is not modelled).  The theorems pin down what each failure
site cites; the correspondence run compares the cited position *sets* (and that the named keys occur)
with the real message on every failing case.
-/
namespace YatimlModel.C17
open YatimlModel NodeOps

/-- every error raised through `errAt` cites exactly one position -/
theorem C17_errAt_one_position (m : Mark) (keys : List String) :
    errAt m keys = .recognition [⟨[m], keys⟩] := rfl

/-- a built-in scalar type that does not match cites the node itself -/
theorem C17_scalar_mismatch_cites_node (n : Node) (T : Ty) (tag : String) (ts : List Ty) (ls : List Leaf)
    (h : recScalar n T tag = .ok (ts, ls)) (hfail : ts = []) : ls = [⟨[n.mark], []⟩] := by
  unfold recScalar at h
  split at h
  · split at h
    · simp [recOk] at h; rw [← h.1] at hfail; cases hfail
    · simp [recFail] at h; exact h.2.symm
  · simp [recFail] at h; exact h.2.symm

/-- **A missing required key is named**, with the position of the mapping it is missing from. -/
theorem C17_missing_key_named (rec : Node → Ty → RecRes) (n : Node) (ps : List (Node × Node)) (p : Param)
    (hreq : p.required = true) (h1 : hasKey ps p.name = false) (h2 : hasKey ps (dashed p.name) = false) :
    recAttr rec n ps p = .ok (some [⟨[n.mark], [p.name]⟩]) := by
  simp [recAttr, tryAttrName, h1, h2, hreq]

/-- **An unknown key is named**, with the position of the key. -/
theorem C17_unknown_key_named (env : Env) (d : ClassDef) (n : Node) (ps : List (Node × Node))
    (k : String) (v : PyVal) (hnone : ∀ p ∈ d.params, dictGet [(.scalar (.str k), v)] p.name = none)
    (hopt : ∀ p ∈ d.params, p.required = false)
    (hk : d.argNames.contains k = false) (hs : (k != "self") = true) (hx : d.takesExtra = false) :
    checkAttributes env d n ps [(.scalar (.str k), v)] = some (errAt (firstKeyMark ps k n.mark) [k]) := by
  unfold checkAttributes
  have hk' : k ∉ d.argNames := by simpa using hk
  have hs' : ¬ k = "self" := by simpa using hs
  dsimp only
  split
  · rename_i e he
    obtain ⟨p, hp, hpe⟩ := List.exists_of_findSome?_eq_some he
    simp [hnone p hp, hopt p hp] at hpe
  · simp [hk', hs', hx]

/-- **An attribute of the wrong type** cites the position of the value and names the attribute. -/
theorem C17_wrong_attribute_type_cites_value (env : Env) (d : ClassDef) (n : Node)
    (ps : List (Node × Node)) (p : Param) (v : PyVal)
    (hparams : d.params = [p]) (hann : p.annotated = true)
    (hbad : typeMatches env v p.ty = false) :
    ∃ m, checkAttributes env d n ps [(.scalar (.str p.name), v)] = some (errAt m [p.name]) := by
  unfold checkAttributes
  simp only [hparams, List.findSome?_cons, List.findSome?_nil]
  have hg : dictGet [(PyVal.scalar (PyScalar.str p.name), v)] p.name = some v := by
    simp [dictGet, keyEq, numKey]
  simp only [hg, hbad]
  exact ⟨n.mark, by simp⟩

/-- every recognition error the construction phase reports cites a position -/
theorem C17_construct_errors_positioned (env : Env) (d : ClassDef) (n : Node) (ps : List (Node × Node))
    (mapping : List (PyVal × PyVal)) (e : LoadErr) (h : checkAttributes env d n ps mapping = some e) :
    ∃ m keys, e = .recognition [⟨[m], keys⟩] := by
  unfold checkAttributes at h
  dsimp only at h
  split at h
  · rename_i e' hm
    cases h
    obtain ⟨p, _, hp⟩ := List.exists_of_findSome?_eq_some hm
    repeat' split at hp
    all_goals first
      | (cases hp; exact ⟨_, _, rfl⟩)
      | cases hp
  · obtain ⟨x, _, hx⟩ := List.exists_of_findSome?_eq_some h
    repeat' split at hx
    all_goals first
      | (cases hx; exact ⟨_, _, rfl⟩)
      | cases hx

/-- **Every recognition failure cites a position.**  For every class model (custom recognisers
included), node, type and fuel: when recognition does not single out exactly one type, the error it
returns has at least one leaf and every leaf cites at least one position. -/
theorem C17_recognition_failure_positioned (env : Env) (fuel : Nat) (n : Node) (T : Ty) (ts : List Ty)
    (ls : List Leaf) (h : recognize env fuel n T = .ok (ts, ls)) (hne : ts.length ≠ 1) :
    ls ≠ [] ∧ ∀ l ∈ ls, l.marks ≠ [] := by
  have := recognizeReq_pos env fuel n (.ty T)
  unfold recognize at h
  rw [h] at this
  exact this hne

/-- hence the RecognitionError with which processing a node refuses an unrecognised or ambiguous node
cites a position in every leaf -/
theorem C17_unrecognised_node_error_positioned (env : Env) (tbl : List Entry) (fuel : Nat) (n : Node) (T : Ty)
    (ts : List Ty) (ls : List Leaf) (h : recognize env (fuel + 1) n T = .ok (ts, ls)) (hne : ts.length ≠ 1) :
    processNode env tbl (fuel + 1) n T = .error (.recognition ls) ∧ ls ≠ [] ∧ ∀ l ∈ ls, l.marks ≠ [] :=
  ⟨C03.C03_ambiguity_fails env tbl fuel n T ts ls h hne,
   C17_recognition_failure_positioned env (fuel + 1) n T ts ls h hne⟩

/-- **A repeated key is reported at its mapping.**  When the recognition of an auto-recognised class
finds an attribute key more than once in a mapping (`get_attribute` raises), the error that ends the
load cites the position of *that* mapping (next to the node being processed), wherever in the document
it is; an error that already names a mapping further in is passed on unchanged. -/
theorem C17_repeated_key_cites_mapping (env : Env) (rec : Node → Ty → RecRes) (d : ClassDef)
    (tag : String) (ps : Pairs) (m : Mark) (hr : d.recognize = none) (hk : d.kind = .plain)
    (h : recAttrs rec (.map tag ps m) ps.toList d.params = .error (.seasoning [])) (root : Node) :
    recUserClass env rec (.map tag ps m) d = .error (.seasoning [m]) ∧
    fatalToErr root (.seasoning [m]) = .recognition [⟨[root.mark, m], []⟩] := by
  refine ⟨?_, rfl⟩
  unfold recUserClass
  simp only [hr, hk, h, Fatal.atMapping, Node.mark]

theorem C17_repeated_key_inner_kept (env : Env) (rec : Node → Ty → RecRes) (d : ClassDef)
    (tag : String) (ps : Pairs) (m m' : Mark) (ms : List Mark) (hr : d.recognize = none) (hk : d.kind = .plain)
    (h : recAttrs rec (.map tag ps m) ps.toList d.params = .error (.seasoning (m' :: ms))) :
    recUserClass env rec (.map tag ps m) d = .error (.seasoning (m' :: ms)) := by
  unfold recUserClass
  simp only [hr, hk, h, Fatal.atMapping]

end YatimlModel.C17
