import YatimlModel.Lemmas.RegexDecide
import YatimlModel.Lemmas.ResolverPrune
import YatimlModel.Lemmas.RegexNoNL
import YatimlModel.Gen.LoaderResolvers
import YatimlModel.Gen.PyyamlResolvers
import YatimlModel.Gen.Tags
import YatimlModel.Spec.Yaml12
import YatimlModel.Lemmas.RegexLang
/-!
# C09 — plain scalars are typed by YAML 1.2 rules for booleans and floats

All statements are about `Gen.loaderTable`, the implicit-resolver table of a live
yatiml `Loader` instance, regenerated from `/repo` on every run.  They are
decided for strings of every length by the reflective checker
(`Prob.check_sound`), evaluated by the kernel (`decide +kernel`).
-/
namespace YatimlModel.C09
open YatimlModel YatimlModel.Gen YatimlModel.Spec Re

def goodIff (T : RTag) : List RTag → List Bool → Bool
  | [t], [b] => (t == T) == b
  | _, _ => false

def goodImp : List RTag → List Bool → Bool
  | [], [a, b] => !a || b
  | _, _ => false

def boolProb : Prob :=
  { tbls := [prune .bool loaderTable], specs := [cat specBool optNL], good := goodIff .bool }
def floatProb : Prob :=
  { tbls := [prune .float loaderTable], specs := [cat specFloat optNL], good := goodIff .float }

set_option maxRecDepth 100000 in
theorem boolProb_ok : boolProb.check boolProb.bounds = true := by decide +kernel
set_option maxRecDepth 100000 in
theorem floatProb_ok : floatProb.check floatProb.bounds = true := by decide +kernel

/-- **C09 (bool).**  For every string `s` (of any length): the loader's table resolves `s`
to `bool` exactly when `s` is one of true/True/TRUE/false/False/FALSE (optionally followed by the one
line feed Python's `$` tolerates; plain scalars never end in one). -/
theorem C09_bool_iff (s : List Nat) :
    (resolve loaderTable s == RTag.bool) = rmatch (cat specBool optNL) s := by
  have h := Prob.check_sound boolProb _ boolProb_ok s
  have hp := prune_sound .bool (by decide) loaderTable s
  simp only [boolProb, List.map_cons, List.map_nil, goodIff] at h
  simp only [resolveIs] at hp
  rw [hp] at h
  simpa using h

/-- **C09 (float).**  For every string `s`: the table resolves `s` to `float` exactly when `s` is a
YAML 1.2 core-schema float that is not an integer. -/
theorem C09_float_iff (s : List Nat) :
    (resolve loaderTable s == RTag.float) = rmatch (cat specFloat optNL) s := by
  have h := Prob.check_sound floatProb _ floatProb_ok s
  have hp := prune_sound .float (by decide) loaderTable s
  simp only [floatProb, List.map_cons, List.map_nil, goodIff] at h
  simp only [resolveIs] at hp
  rw [hp] at h
  simpa using h

/-! ### strings without a line feed: the `$` quirk disappears -/

def nlProb (spec : Re) : Prob :=
  { tbls := [], specs := [noNLRe, cat spec optNL, spec],
    good := fun _ bits => match bits with | [n, a, b] => !n || (a == b) | _ => false }

set_option maxRecDepth 100000 in
theorem nlBool_ok : (nlProb specBool).check (nlProb specBool).bounds = true := by decide +kernel
set_option maxRecDepth 100000 in
theorem nlFloat_ok : (nlProb specFloat).check (nlProb specFloat).bounds = true := by decide +kernel

def NoLF (s : List Nat) : Prop := s.all (fun c => c != 10 && decide (c ≤ 1114111)) = true

theorem C09_bool_iff_plain (s : List Nat) (h : NoLF s) :
    (resolve loaderTable s == RTag.bool) = rmatch specBool s := by
  rw [C09_bool_iff]
  have := Prob.check_sound (nlProb specBool) _ nlBool_ok s
  simp only [nlProb, List.map_cons, List.map_nil, rmatch_noNL s h] at this
  simpa using this

theorem C09_float_iff_plain (s : List Nat) (h : NoLF s) :
    (resolve loaderTable s == RTag.float) = rmatch specFloat s := by
  rw [C09_float_iff]
  have := Prob.check_sound (nlProb specFloat) _ nlFloat_ok s
  simp only [nlProb, List.map_cons, List.map_nil, rmatch_noNL s h] at this
  simpa using this

/-- **C09 in terms of languages.**  For every plain scalar `s` (no line feed): the loader resolves `s`
to bool / float exactly when `s` is in the *language* of the YAML 1.2 core-schema expression
(`Lang`, the usual denotational semantics of regular expressions; `rmatch_iff_lang` shows the
derivative matcher decides it). -/
theorem C09_bool_iff_lang (s : List Nat) (h : NoLF s) :
    resolve loaderTable s = RTag.bool ↔ Lang specBool s := by
  rw [← rmatch_iff_lang, ← C09_bool_iff_plain s h]
  simp

theorem C09_float_iff_lang (s : List Nat) (h : NoLF s) :
    resolve loaderTable s = RTag.float ↔ Lang specFloat s := by
  rw [← rmatch_iff_lang, ← C09_float_iff_plain s h]
  simp

/-! ### what resolves also constructs -/

/-- case-insensitive literal for an ASCII-lower-case key (`bool_values[value.lower()]`) -/
def ciChar (c : Nat) : Re :=
  if Nat.ble 97 c && Nat.ble c 122 then set [(c - 32, c - 32), (c, c)] else set [(c, c)]
def ciLit (cs : List Nat) : Re := cs.foldr (fun c r => mkCat (ciChar c) r) eps
def boolKeysCI : Re := alts (boolKeyCodes.map ciLit)

/-- PyYAML's float constructor: drop `_`, lower-case, strip the sign, special-case
`.inf`/`.nan`, sexagesimal if a `:` is present, else `float(value)`.  A YAML 1.2
float has neither `_` nor `:`, so apart from the `.inf`/`.nan` spellings the
argument of `float()` is the lower-cased string itself. -/
def specFloatSpecial : Re :=
  cat sign (cat (ch '.') (alts [lit "inf", lit "Inf", lit "INF", lit "nan", lit "NaN", lit "NAN"]))

def inclProb (a b : Re) : Prob := { tbls := [], specs := [a, b], good := goodImp }

set_option maxRecDepth 100000 in
theorem boolConstructs_ok :
    (inclProb specBool boolKeysCI).check (inclProb specBool boolKeysCI).bounds = true := by
  decide +kernel
def floatConsProb : Prob :=
  { tbls := [], specs := [specFloat, specFloatSpecial, pyFloatArg],
    good := fun _ bits => match bits with | [a, b, c] => !a || b || c | _ => false }
set_option maxRecDepth 100000 in
theorem floatCons_ok : floatConsProb.check floatConsProb.bounds = true := by decide +kernel

theorem incl_of_check (a b : Re) (h : (inclProb a b).check (inclProb a b).bounds = true) (s : List Nat)
    (ha : rmatch a s = true) : rmatch b s = true := by
  have := Prob.check_sound (inclProb a b) _ h s
  simp only [inclProb, List.map_cons, List.map_nil, goodImp, ha] at this
  simpa using this

/-- Whatever resolves to `bool` is a key of `SafeConstructor.bool_values` after
lower-casing, so `construct_yaml_bool` cannot raise `KeyError`. -/
theorem C09_bool_constructs (s : List Nat) (hs : NoLF s)
    (h : (resolve loaderTable s == RTag.bool) = true) : rmatch boolKeysCI s = true := by
  rw [C09_bool_iff_plain s hs] at h
  exact incl_of_check _ _ boolConstructs_ok s h

/-- Whatever resolves to `float` is either a `.inf`/`.nan` spelling (handled by
PyYAML before `float()` is called) or a string Python's `float()` accepts. -/
theorem C09_float_constructs (s : List Nat) (hs : NoLF s)
    (h : (resolve loaderTable s == RTag.float) = true) :
    rmatch specFloatSpecial s = true ∨ rmatch pyFloatArg s = true := by
  rw [C09_float_iff_plain s hs] at h
  have := Prob.check_sound floatConsProb _ floatCons_ok s
  simp only [floatConsProb, List.map_cons, List.map_nil, h] at this
  simpa using this

/-! ### YAML 1.1 spellings and look-alikes are neither (instances, evaluated by the kernel) -/

-- "yes" "no" "on" "off" "y" "n" "1_000.5" "1:30.5" "1.2.3" "trueish" "1.5x" "tRUE" "1e" ".e5"
def notBoolNorFloat : List (List Nat) :=
  [[121,101,115], [110,111], [111,110], [111,102,102], [121], [110],
   [49,95,48,48,48,46,53], [49,58,51,48,46,53], [49,46,50,46,51],
   [116,114,117,101,105,115,104], [49,46,53,120], [116,82,85,69], [49,101], [46,101,53]]

theorem C09_yaml11_not :
    notBoolNorFloat.all (fun s =>
      !(resolve loaderTable s == RTag.bool) && !(resolve loaderTable s == RTag.float)) = true := by
  decide +kernel

-- "true" "FALSE" -> bool ; "1.5" ".5" "1." "1e5" "-.inf" ".NaN" "+1.5E-3" -> float
theorem C09_positive_instances :
    ([[116,114,117,101], [70,65,76,83,69]].all (fun s => resolve loaderTable s == RTag.bool)
     && [[49,46,53], [46,53], [49,46], [49,101,53], [45,46,105,110,102], [46,78,97,78],
         [43,49,46,53,69,45,51]].all (fun s => resolve loaderTable s == RTag.float)) = true := by
  decide +kernel

/-! ### integer, null, timestamp, merge, value typing is PyYAML's -/

def notBoolFloat (e : Entry) : Bool := !(e.tag == RTag.bool) && !(e.tag == RTag.float)
def entryBeq (a b : Entry) : Bool := a.key == b.key && a.tag == b.tag && a.re == b.re
def tableBeq : List Entry → List Entry → Bool
  | [], [] => true
  | a :: as, b :: bs => entryBeq a b && tableBeq as bs
  | _, _ => false

/-- every entry of the loader's table with a tag other than bool/float is an
entry of PyYAML's own table, in the same order, and vice versa -/
theorem C09_other_tags_unchanged :
    tableBeq (loaderTable.filter notBoolFloat) (pyyamlTable.filter notBoolFloat) = true := by
  decide +kernel

end YatimlModel.C09
