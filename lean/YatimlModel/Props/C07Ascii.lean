import YatimlModel.Props.C07Parse
/-!
# C07 — the default output is ASCII-only, at character level

With `ensure_ascii=True` (the default) every character of the text `emit_json` writes is an ASCII
character: string tokens by `C07_dumps_ascii`, numbers / `true` / `false` / `null` by their shape,
structural characters, the key separator and the indentation trivially — for every tree, indent and
(ASCII) line break.
-/
namespace YatimlModel.C07
open YatimlModel.Json YatimlModel.JsonParse

def AllAscii (l : List Nat) : Prop := ∀ c ∈ l, c < 128

theorem AllAscii.nil : AllAscii [] := by intro c hc; cases hc
theorem AllAscii.append {a b : List Nat} (ha : AllAscii a) (hb : AllAscii b) : AllAscii (a ++ b) := by
  intro c hc; rcases List.mem_append.mp hc with h | h
  · exact ha c h
  · exact hb c h

theorem ascii_scalar (f : TextFns) (hd : DumpsIs f true) (k : SK) (v : String) (hw : WfScalar f k v) :
    AllAscii (codes (scalarText f k v)) := by
  have hstr : AllAscii (codes (f.dumps v)) := by
    intro c hc
    rw [hd v] at hc
    have := JsonString.dumps_ascii (codes v)
    have hc' := List.all_eq_true.mp this c hc
    simp only [JsonString.isAsciiPrintable, Bool.and_eq_true, decide_eq_true_eq] at hc'
    omega
  cases k with
  | str => exact hstr
  | timestamp => exact hstr
  | null =>
    intro c hc
    have : codes (scalarText f SK.null v) = [110, 117, 108, 108] := by simp only [scalarText]; decide
    rw [this] at hc
    simp at hc; omega
  | bool =>
    simp only [WfScalar] at hw
    intro c hc
    rcases hw with h | h
    · have : codes (scalarText f SK.bool v) = [116, 114, 117, 101] := by simp only [scalarText, h]; decide
      rw [this] at hc; simp at hc; omega
    · have : codes (scalarText f SK.bool v) = [102, 97, 108, 115, 101] := by simp only [scalarText, h]; decide
      rw [this] at hc; simp at hc; omega
  | other =>
    obtain ⟨_, hall, _⟩ := hw
    intro c hc
    have := hall c hc
    simp only [isNumChar, Bool.or_eq_true, Bool.and_eq_true, decide_eq_true_eq, beq_iff_eq] at this
    omega

theorem ascii_endl (cfg : Cfg) (lb : String) (hlb : AllAscii (codes lb)) (n : Nat) :
    AllAscii (codesOf lb (endl cfg n)) := by
  unfold endl
  split
  · simp only [codesOf_cons, codesOf_nil, List.append_nil, chunkCodes, Chunk.text, codes_append]
    refine AllAscii.append hlb ?_
    intro c hc
    have : codes (String.ofList (List.replicate n ' ')) = List.replicate n 32 := by
      simp [codes, String.toList_ofList]
    rw [this] at hc
    have := List.eq_of_mem_replicate hc
    omega
  · exact AllAscii.nil

theorem ascii_kvsep (cfg : Cfg) (hk : JsonParse.WfCfg cfg) : AllAscii (codes cfg.kvsep) := by
  obtain ⟨w, hw, hws⟩ := kvsep_codes cfg hk
  rw [hw]
  intro c hc
  rcases List.mem_cons.mp hc with rfl | h
  · omega
  · have := hws c h
    simp only [isWs, Bool.or_eq_true, beq_iff_eq] at this
    omega

theorem ascii_one (n : Nat) (h : n < 128) : AllAscii [n] := by
  intro c hc; simp at hc; omega

mutual
theorem asciiT (cfg : Cfg) (lb : String) (hd : DumpsIs cfg.fns true) (hk : JsonParse.WfCfg cfg)
    (hlb : AllAscii (codes lb)) : ∀ (t : JT) (ind : Nat), WfT cfg.fns t → AllAscii (codesOf lb (rT cfg ind t))
  | .scalar k v, ind, hw => by
    simp only [rT, codesOf_cons, codesOf_nil, List.append_nil, cc_scal]
    exact ascii_scalar cfg.fns hd k v hw
  | .arr xs, ind, hw => by
    simp only [rT, codesOf_append, codesOf_cons, codesOf_nil, cc_lbrack, cc_rbrack, List.append_nil]
    exact AllAscii.append (AllAscii.append (AllAscii.append (AllAscii.append (ascii_one 91 (by omega))
      (ascii_endl cfg lb hlb _)) (asciiL cfg lb hd hk hlb xs _ true hw)) (ascii_endl cfg lb hlb _))
      (ascii_one 93 (by omega))
  | .obj kvs, ind, hw => by
    simp only [rT, codesOf_append, codesOf_cons, codesOf_nil, cc_lbrace, cc_rbrace, List.append_nil]
    exact AllAscii.append (AllAscii.append (AllAscii.append (AllAscii.append (ascii_one 123 (by omega))
      (ascii_endl cfg lb hlb _)) (asciiK cfg lb hd hk hlb kvs _ true hw)) (ascii_endl cfg lb hlb _))
      (ascii_one 125 (by omega))
theorem asciiL (cfg : Cfg) (lb : String) (hd : DumpsIs cfg.fns true) (hk : JsonParse.WfCfg cfg)
    (hlb : AllAscii (codes lb)) : ∀ (xs : JL) (ind : Nat) (first : Bool), WfL cfg.fns xs →
      AllAscii (codesOf lb (rL cfg ind first xs))
  | .nil, _, _, _ => by simp only [rL, codesOf_nil]; exact AllAscii.nil
  | .cons x xs, ind, first, hw => by
    have h1 := asciiT cfg lb hd hk hlb x ind hw.1
    have h2 := asciiL cfg lb hd hk hlb xs ind false hw.2
    cases first
    · simp only [rL, Bool.false_eq_true, ↓reduceIte, codesOf_append, codesOf_cons, cc_comma]
      exact AllAscii.append (AllAscii.append (AllAscii.append (ascii_one 44 (by omega))
        (ascii_endl cfg lb hlb _)) h1) h2
    · simp only [rL, ↓reduceIte, codesOf_append, codesOf_nil, List.nil_append]
      exact AllAscii.append h1 h2
theorem asciiK (cfg : Cfg) (lb : String) (hd : DumpsIs cfg.fns true) (hk : JsonParse.WfCfg cfg)
    (hlb : AllAscii (codes lb)) : ∀ (kvs : JKL) (ind : Nat) (first : Bool), WfK cfg.fns kvs →
      AllAscii (codesOf lb (rK cfg ind first kvs))
  | .nil, _, _, _ => by simp only [rK, codesOf_nil]; exact AllAscii.nil
  | .cons k v rest, ind, first, hw => by
    obtain ⟨⟨s, rfl⟩, hv, hr⟩ := hw
    have h0 := asciiT cfg lb hd hk hlb (JT.scalar SK.str s) ind (by simp [WfT, WfScalar])
    have h1 := asciiT cfg lb hd hk hlb v ind hv
    have h2 := asciiK cfg lb hd hk hlb rest ind false hr
    have hs := ascii_kvsep cfg hk
    cases first
    · simp only [rK, Bool.false_eq_true, ↓reduceIte, codesOf_append, codesOf_cons, codesOf_nil, cc_comma,
        cc_punct, List.append_nil]
      exact AllAscii.append (AllAscii.append (AllAscii.append (AllAscii.append (AllAscii.append
        (ascii_one 44 (by omega)) (ascii_endl cfg lb hlb _)) h0) hs) h1) h2
    · simp only [rK, ↓reduceIte, codesOf_append, codesOf_cons, codesOf_nil, cc_punct, List.nil_append,
        List.append_nil]
      exact AllAscii.append (AllAscii.append (AllAscii.append h0 hs) h1) h2
end

/-- **The default output is ASCII-only.**  With `ensure_ascii=True`, every character `emit_json` writes
for a whole document is an ASCII character — whatever the strings in the tree contain. -/
theorem C07_default_output_is_ascii (cfg : Cfg) (lb : String) (hd : DumpsIs cfg.fns true)
    (hk : JsonParse.WfCfg cfg) (hlb : AllAscii (codes lb)) (t : JT) (hw : WfT cfg.fns t) :
    ∃ out, run cfg init (evDoc t) = some (init, out) ∧ AllAscii (codes (textOf lb out)) := by
  refine ⟨renderDoc cfg t, C07_machine_refines_renderer cfg t, ?_⟩
  rw [codes_textOf]
  unfold renderDoc
  rw [codesOf_append]
  exact AllAscii.append (asciiT cfg lb hd hk hlb t 0 hw) (ascii_endl cfg lb hlb 0)

end YatimlModel.C07
