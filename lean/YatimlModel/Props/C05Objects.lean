import YatimlModel.Props.C05Plain
import YatimlModel.Props.C07EndToEnd
/-!
# C05 for simple objects, closed: what the representers write for an object loads back as that object

The closed-form round trip of `Props/C05Plain` extended to user objects of *simple* classes: plain
classes without hooks (`_yatiml_recognize`, `_yatiml_savorize`, `_yatiml_sweeten`), without registered
bases or registered subclasses, not abstract, with or without `_yatiml_extra` (extra attributes holding
plain data) — whose constructor parameters are plain data, floats, paths, enum members, string-likes,
`Optional` positions, Unions whose members accept different kinds of node, untyped / `Any` positions
holding plain data, or again such objects, nested to any depth.  For these the description `RT`
(with its per-node uniqueness of recognition) is *derived* from the model of the representers, so

    represent v = node   and   v has type T   ⟹   load(node, T) = v

holds with no precondition about recognition, for every resolver table.
-/
namespace YatimlModel.C05
open YatimlModel NodeOps

/-- what makes a registered class *simple* -/
structure SimpleClass (env : Env) (d : ClassDef) : Prop where
  found : env.find d.name = some d
  kind : d.kind = .plain
  recog : d.recognize = none
  sav : d.savorize = none
  noBases : d.bases.filterMap (fun b => env.find b) = []
  concrete : d.abstract = false
  noSub : env.directSubclasses d.name = []
  nodup : (d.params.map (·.name)).Nodup
  args : ∀ prm ∈ d.params, d.argNames.contains prm.name = true ∧ prm.name ≠ "_yatiml_extra" ∧ prm.name ≠ "self"

/-- a registered enum / string-like class without hooks, registered bases or registered subclasses -/
structure SimpleLeafClass (env : Env) (d : ClassDef) : Prop where
  found : env.find d.name = some d
  recog : d.recognize = none
  sav : d.savorize = none
  noBases : d.bases.filterMap (fun b => env.find b) = []
  concrete : d.abstract = false
  noSub : env.directSubclasses d.name = []

/-- a parameter of another class, as seen from a mapping that carries exactly the keys `lp.map name` (the
leaf class's parameters): present with the very type the leaf declares, or absent and optional -/
def ParamPasses (lp : List Param) (q : Param) : Prop :=
  (∃ p ∈ lp, p.name = q.name ∧ p.ty = q.ty) ∨
  (q.required = false ∧ q.name ∉ lp.map (·.name) ∧ dashed q.name ∉ lp.map (·.name))

/-- the class does not accept such a mapping: it is abstract, or one of its required parameters is missing
(and the parameters before that one pass) -/
def ClassRejects (lp : List Param) (sd : ClassDef) : Prop :=
  sd.abstract = true ∨ ∃ pre prm post, sd.params = pre ++ prm :: post ∧ prm.required = true ∧
    prm.name ∉ lp.map (·.name) ∧ dashed prm.name ∉ lp.map (·.name) ∧ ∀ q ∈ pre, ParamPasses lp q

/-- the class `s` and every registered class below it reject such a mapping; `H` bounds the height -/
inductive SubtreeRejects (env : Env) (lp : List Param) : String → Nat → Prop
  | mk (s : String) (sd : ClassDef) (h H : Nat) : env.find s = some sd → sd.recognize = none → sd.kind = .plain →
      ClassRejects lp sd → (∀ t ∈ env.directSubclasses s, SubtreeRejects env lp t.name h) → h < H →
      SubtreeRejects env lp s H

/-- `s` and every registered class below it are plain classes without a custom recogniser (so none of them
takes a scalar); `H` bounds the height -/
inductive PlainHier (env : Env) : String → Nat → Prop
  | mk (s : String) (sd : ClassDef) (h H : Nat) : env.find s = some sd → sd.recognize = none → sd.kind = .plain →
      (∀ t ∈ env.directSubclasses s, PlainHier env t.name h) → h < H → PlainHier env s H

/-- a path of registered direct-subclass steps from `base` down to `c`: at every class on the way, the
next class of the path is among the registered direct subclasses and the subtrees of the other ones
reject the mapping (`lp`: the parameters of the leaf class `c`); `k` steps -/
inductive Chain (env : Env) (lp : List Param) (H : Nat) : String → String → Nat → Prop
  | here (c : String) : Chain env lp H c c 0
  | step (base mid c : String) (k : Nat) (bd md : ClassDef) : env.find base = some bd →
      md ∈ env.directSubclasses base → md.name = mid →
      (∀ s ∈ env.directSubclasses base, s.name ≠ mid → SubtreeRejects env lp s.name H) →
      Chain env lp H mid c k → Chain env lp H base c (k + 1)

/-- the registered bases above a class, one per level, none of them with a `_yatiml_savorize`: `j` levels -/
inductive UpChain (env : Env) : ClassDef → Nat → Prop
  | root (d : ClassDef) : d.savorize = none → d.bases.filterMap (fun b => env.find b) = [] → UpChain env d 0
  | step (d bd : ClassDef) (j : Nat) : d.savorize = none → d.bases.filterMap (fun b => env.find b) = [bd] →
      UpChain env bd j → UpChain env d (j + 1)

/-- the most derived class of a hierarchy: a plain class without hooks and without registered subclasses,
possibly with registered bases (`UpChain`) -/
structure HierLeaf (env : Env) (d : ClassDef) : Prop where
  found : env.find d.name = some d
  kind : d.kind = .plain
  recog : d.recognize = none
  concrete : d.abstract = false
  noExtra : d.takesExtra = false
  noSub : env.directSubclasses d.name = []
  nodup : (d.params.map (·.name)).Nodup
  args : ∀ prm ∈ d.params, d.argNames.contains prm.name = true ∧ prm.name ≠ "_yatiml_extra" ∧ prm.name ≠ "self"

/-- untyped plain data: what an extra attribute may hold here -/
inductive PlainAny : PyVal → Prop
  | str (s : String) : PlainAny (.scalar (.str s))
  | int (i : Int) : PlainAny (.scalar (.int i))
  | bool (b : Bool) : PlainAny (.scalar (.bool b))
  | null : PlainAny (.scalar .none)
  | list (xs : PyVals) : (∀ x ∈ xs.toList, PlainAny x) → PlainAny (.list xs)
  | dict (kvs : PyKVs) : (∀ e ∈ kvs.toList, ∃ s, e.1 = .scalar (.str s)) → (∀ e ∈ kvs.toList, PlainAny e.2) →
      KeysOk kvs.toList → PlainAny (.dict kvs)

/-- `Optional[T]`, as `typing` normalises it: `Union[T, None]` -/
def optTy (T : Ty) : Ty := .union (.cons T (.cons .null .nil))

/-- the types `Optional[...]` may wrap here: anything of the fragment but `None` and another Optional -/
inductive NonNullTy (env : Env) : Ty → Prop
  | str : NonNullTy env .str
  | int : NonNullTy env .int
  | bool : NonNullTy env .bool
  | seq (k : SeqKind) (item : Ty) : NonNullTy env (.seq k item)
  | map (k : MapKind) (V : Ty) : NonNullTy env (.map k .str V)
  | cls (d : ClassDef) : SimpleClass env d → NonNullTy env (.cls d.name)
  | float : NonNullTy env .float
  | path : NonNullTy env .path
  | enumCls (d : ClassDef) (members : List String) : SimpleLeafClass env d → d.kind = .enum members →
      NonNullTy env (.cls d.name)
  | strCls (d : ClassDef) : SimpleLeafClass env d → d.kind = .stringLike → NonNullTy env (.cls d.name)

/-- node kinds, as the recogniser tells them apart -/
inductive NK | str | int | float | bool | null | seq | map
  deriving DecidableEq

/-- the member types a `Union` may have here, with the kind of node each of them accepts; a Union whose
members accept pairwise different kinds is unambiguous -/
inductive MemberTy (env : Env) : Ty → NK → Prop
  | str : MemberTy env .str .str
  | path : MemberTy env .path .str
  | int : MemberTy env .int .int
  | float : MemberTy env .float .float
  | bool : MemberTy env .bool .bool
  | null : MemberTy env .null .null
  | seq (k : SeqKind) (item : Ty) : MemberTy env (.seq k item) .seq
  | map (k : MapKind) (V : Ty) : MemberTy env (.map k .str V) .map
  | cls (d : ClassDef) : SimpleClass env d → MemberTy env (.cls d.name) .map

/-- values of a type: plain data as in `HasTy`, objects of simple classes carrying one value of the
declared type per constructor parameter, in declaration order, that the constructor accepted, and
`Optional[T]` positions holding `None` or a value of `T` -/
inductive HasTyE (K : Nat) (env : Env) : Ty → PyVal → Prop
  | str (s : String) : HasTyE K env .str (.scalar (.str s))
  | int (i : Int) : HasTyE K env .int (.scalar (.int i))
  | bool (b : Bool) : HasTyE K env .bool (.scalar (.bool b))
  | null : HasTyE K env .null (.scalar .none)
  | seq (k : SeqKind) (item : Ty) (xs : PyVals) : (∀ x ∈ xs.toList, HasTyE K env item x) →
      HasTyE K env (.seq k item) (.list xs)
  | map (k : MapKind) (V : Ty) (kvs : PyKVs) :
      (∀ e ∈ kvs.toList, ∃ s, e.1 = .scalar (.str s)) → (∀ e ∈ kvs.toList, HasTyE K env V e.2) →
      KeysOk kvs.toList → HasTyE K env (.map k .str V) (.dict kvs)
  | obj (d : ClassDef) (kw : PyKVs) : SimpleClass env d → d.takesExtra = false →
      kw.toList.map (·.1) = d.params.map (fun p => strKey p.name) →
      (∀ e ∈ kw.toList, ∀ prm ∈ d.params, e.1 = strKey prm.name → HasTyE K env prm.ty e.2) →
      d.initRaises (scalarArgs kw.toList) = false →
      HasTyE K env (.cls d.name) (.obj d.name kw)
  | objX (d : ClassDef) (mainKw extraKw : List (PyVal × PyVal)) : SimpleClass env d → d.takesExtra = true →
      mainKw.map (·.1) = d.params.map (fun p => strKey p.name) →
      (∀ e ∈ mainKw, ∀ prm ∈ d.params, e.1 = strKey prm.name → HasTyE K env prm.ty e.2) →
      (∀ e ∈ extraKw, ∃ s, e.1 = strKey s ∧ d.argNames.contains s = false ∧ s ≠ "self") →
      (∀ e ∈ extraKw, PlainAny e.2) → KeysOk extraKw →
      d.initRaises (scalarArgs (mainKw ++ [(strKey "_yatiml_extra", .dict (PyKVs.ofList extraKw))])) = false →
      HasTyE K env (.cls d.name)
        (.obj d.name (PyKVs.ofList (mainKw ++ [(strKey "_yatiml_extra", .dict (PyKVs.ofList extraKw))])))
  | objUp (base : String) (d : ClassDef) (kw : PyKVs) (k j : Nat) : HierLeaf env d →
      Chain env d.params K base d.name k → k ≤ K → UpChain env d j → j ≤ K →
      (base = d.name ∨ d.ancestors.contains base = true) →
      kw.toList.map (·.1) = d.params.map (fun p => strKey p.name) →
      (∀ e ∈ kw.toList, ∀ prm ∈ d.params, e.1 = strKey prm.name → HasTyE K env prm.ty e.2) →
      d.initRaises (scalarArgs kw.toList) = false →
      HasTyE K env (.cls base) (.obj d.name kw)
  | float (r : String) (i : Option Int) : env.ext.yamlFloat (floatText r) = some (r, i) →
      HasTyE K env .float (.scalar (.float r i))
  | path (s : String) : env.find "Path" = none → HasTyE K env .path (.path s)
  | enum (d : ClassDef) (members : List String) (name : String) : SimpleLeafClass env d →
      d.kind = .enum members → members.contains name = true → HasTyE K env (.cls d.name) (.enumMember d.name name)
  | ustr (d : ClassDef) (t : String) : SimpleLeafClass env d → d.kind = .stringLike →
      d.initRaises [("", .str t)] = false → HasTyE K env (.cls d.name) (.userStr d.name t)
  | any (v : PyVal) : PlainAny v → HasTyE K env .any v
  | optNone (T : Ty) : NonNullTy env T → HasTyE K env (optTy T) (.scalar .none)
  | optSome (T : Ty) (v : PyVal) : NonNullTy env T → HasTyE K env T v → HasTyE K env (optTy T) v
  | optNoneH (base : String) (H : Nat) : PlainHier env base H → H ≤ K →
      HasTyE K env (optTy (.cls base)) (.scalar .none)
  | optSomeH (base : String) (d : ClassDef) (kw : PyKVs) (k j : Nat) : HierLeaf env d →
      Chain env d.params K base d.name k → k ≤ K → UpChain env d j → j ≤ K →
      (base = d.name ∨ d.ancestors.contains base = true) →
      kw.toList.map (·.1) = d.params.map (fun p => strKey p.name) →
      (∀ e ∈ kw.toList, ∀ prm ∈ d.params, e.1 = strKey prm.name → HasTyE K env prm.ty e.2) →
      d.initRaises (scalarArgs kw.toList) = false →
      HasTyE K env (optTy (.cls base)) (.obj d.name kw)
  | union (ms : Tys) (m : Ty) (k : NK) (v : PyVal) : m ∈ ms.toList → MemberTy env m k →
      (∀ m' ∈ ms.toList, m' ≠ m → ∃ k', MemberTy env m' k' ∧ k' ≠ k) → HasTyE K env m v →
      HasTyE K env (.union ms) v

-- how much fuel the loader needs for the node of a value
mutual
def need (K : Nat) : PyVal → Nat
  | .list xs => 3 + K + needL K xs
  | .dict kvs => 3 + K + needK K kvs
  | .obj _ kw => 4 + K + K + needK K kw
  | _ => 3 + K
def needL (K : Nat) : PyVals → Nat
  | .nil => 0
  | .cons x xs => max (need K x) (needL K xs)
def needK (K : Nat) : PyKVs → Nat
  | .nil => 2
  | .cons _ v r => max (need K v) (needK K r)
end

theorem need_pos (K : Nat) (v : PyVal) : 3 + K ≤ need K v := by cases v <;> simp only [need] <;> omega

theorem needL_mem (K : Nat) : ∀ (xs : PyVals) (x : PyVal), x ∈ xs.toList → need K x ≤ needL K xs
  | .nil, _, h => by simp [PyVals.toList] at h
  | .cons y ys, x, h => by
    simp only [PyVals.toList, List.mem_cons] at h
    simp only [needL]
    rcases h with rfl | h
    · exact Nat.le_max_left _ _
    · exact Nat.le_trans (needL_mem K ys x h) (Nat.le_max_right _ _)

theorem needK_mem (K : Nat) : ∀ (kvs : PyKVs) (e : PyVal × PyVal), e ∈ kvs.toList → need K e.2 ≤ needK K kvs
  | .nil, _, h => by simp [PyKVs.toList] at h
  | .cons k v r, e, h => by
    simp only [PyKVs.toList, List.mem_cons] at h
    simp only [needK]
    rcases h with rfl | h
    · exact Nat.le_max_left _ _
    · exact Nat.le_trans (needK_mem K r e h) (Nat.le_max_right _ _)

theorem needK_pos (K : Nat) : ∀ (kvs : PyKVs), 2 ≤ needK K kvs
  | .nil => by simp [needK]
  | .cons _ v r => by simp only [needK]; exact Nat.le_trans (needK_pos K r) (Nat.le_max_right _ _)

/-! ### the values conform (what the constructor's type check asks) -/

theorem typeMatchesAll_of (env : Env) (item : Ty) : ∀ (xs : PyVals),
    (∀ x ∈ xs.toList, typeMatches env x item = true) → typeMatchesAll env xs item = true
  | .nil, _ => by simp [typeMatchesAll]
  | .cons x xs, h => by
    simp only [typeMatchesAll, Bool.and_eq_true]
    exact ⟨h x (by simp [PyVals.toList]), typeMatchesAll_of env item xs (fun y hy => h y (by simp [PyVals.toList, hy]))⟩

theorem typeMatchesKVs_of (env : Env) (V : Ty) : ∀ (kvs : PyKVs),
    (∀ e ∈ kvs.toList, ∃ s, e.1 = .scalar (.str s)) → (∀ e ∈ kvs.toList, typeMatches env e.2 V = true) →
    typeMatchesKVs env kvs .str V = true
  | .nil, _, _ => by simp [typeMatchesKVs]
  | .cons k v r, hk, hv => by
    obtain ⟨s, hs⟩ := hk (k, v) (by simp [PyKVs.toList])
    simp only at hs
    subst hs
    simp only [typeMatchesKVs, keyMatches, Bool.true_and, Bool.and_eq_true]
    exact ⟨hv (.scalar (.str s), v) (by simp [PyKVs.toList]),
      typeMatchesKVs_of env V r (fun e he => hk e (by simp [PyKVs.toList, he]))
        (fun e he => hv e (by simp [PyKVs.toList, he]))⟩

theorem nonNull_not_opt (env : Env) (T : Ty) (h : NonNullTy env T) : ∀ ms, T ≠ Ty.union ms := by
  intro ms e
  cases h <;> cases e

theorem hasTyE_typeMatches_core (K : Nat) (env : Env) (n : Nat)
    (ih : ∀ (T : Ty) (v : PyVal), need K v ≤ n → HasTyE K env T v → typeMatches env v T = true) :
    ∀ (T : Ty) (v : PyVal), need K v ≤ n + 1 → HasTyE K env T v → (∀ ms, T ≠ Ty.union ms) →
      typeMatches env v T = true := by
  intro T v hn h hno
  cases h with
  | str s => simp [typeMatches]
  | int i => simp [typeMatches]
  | bool b => simp [typeMatches]
  | null => simp [typeMatches]
  | seq k item xs hx =>
    simp only [typeMatches]
    simp only [need] at hn
    exact typeMatchesAll_of env item xs (fun x hxm =>
      ih item x (by have := needL_mem K xs x hxm; omega) (hx x hxm))
  | map k V kvs hk hv _ =>
    simp only [typeMatches]
    simp only [need] at hn
    exact typeMatchesKVs_of env V kvs hk (fun e hem =>
      ih V e.2 (by have := needK_mem K kvs e hem; omega) (hv e hem))
  | obj d kw _ _ _ _ _ => simp [typeMatches, isInstanceOf]
  | objX d mainKw extraKw _ _ _ _ _ _ _ _ => simp [typeMatches, isInstanceOf]
  | objUp base d kw k j L _ _ _ _ hinst _ _ _ =>
    simp only [typeMatches, isInstanceOf, L.found]
    rcases hinst with h | h
    · simp [h]
    · have h' : base ∈ d.ancestors := by simpa using h
      simp [h']
  | float r i _ => simp [typeMatches]
  | path t _ => simp [typeMatches]
  | enum d members name _ _ _ => simp [typeMatches, isInstanceOf]
  | ustr d t _ _ _ => simp [typeMatches, isInstanceOf]
  | any v _ => simp [typeMatches]
  | optNone T _ => exact absurd rfl (hno _)
  | optSome T v _ _ => exact absurd rfl (hno _)
  | union ms m k v _ _ _ _ => exact absurd rfl (hno _)
  | optNoneH base H _ _ => exact absurd rfl (hno _)
  | optSomeH base d kw k j _ _ _ _ _ _ _ _ _ => exact absurd rfl (hno _)

theorem memberTy_not_union (env : Env) (m : Ty) (k : NK) (h : MemberTy env m k) : ∀ ms, m ≠ Ty.union ms := by
  intro ms e
  cases h <;> cases e

theorem typeMatchesAny_of_mem (env : Env) (v : PyVal) (m : Ty) (hm : typeMatches env v m = true) :
    ∀ (ms : Tys), m ∈ ms.toList → typeMatchesAny env v ms = true
  | .nil, h => by simp [Tys.toList] at h
  | .cons t ts, h => by
    simp only [Tys.toList, List.mem_cons] at h
    simp only [typeMatchesAny, Bool.or_eq_true]
    rcases h with rfl | h
    · exact Or.inl hm
    · exact Or.inr (typeMatchesAny_of_mem env v m hm ts h)

theorem hasTyE_typeMatches (K : Nat) (env : Env) : ∀ (n : Nat) (T : Ty) (v : PyVal), need K v ≤ n → HasTyE K env T v →
    typeMatches env v T = true
  | 0, _, v, hn, _ => by have := need_pos K v; omega
  | n + 1, T, v, hn, h => by
    have ih := hasTyE_typeMatches K env n
    cases h with
    | optNone T _ => simp [optTy, typeMatches, typeMatchesAny]
    | optSome T v hnn hin =>
      have := hasTyE_typeMatches_core K env n ih T v hn hin (nonNull_not_opt env T hnn)
      simp [optTy, typeMatches, typeMatchesAny, this]
    | union ms m k v hmem hmt _ hin =>
      have := hasTyE_typeMatches_core K env n ih m v hn hin (memberTy_not_union env m k hmt)
      simp only [typeMatches]
      exact typeMatchesAny_of_mem env v m this ms hmem
    | optNoneH base H _ _ => simp [optTy, typeMatches, typeMatchesAny]
    | optSomeH base d kw k j L _ _ _ _ hinst _ _ _ =>
      have : typeMatches env (.obj d.name kw) (.cls base) = true := by
        simp only [typeMatches, isInstanceOf, L.found]
        rcases hinst with h | h
        · simp [h]
        · have h' : base ∈ d.ancestors := by simpa using h
          simp [h']
      simp [optTy, typeMatchesAny, this, typeMatches]
    | str s => exact hasTyE_typeMatches_core K env n ih _ _ hn (HasTyE.str s) (by intro ms e; cases e)
    | int i => exact hasTyE_typeMatches_core K env n ih _ _ hn (HasTyE.int i) (by intro ms e; cases e)
    | bool b => exact hasTyE_typeMatches_core K env n ih _ _ hn (HasTyE.bool b) (by intro ms e; cases e)
    | null => exact hasTyE_typeMatches_core K env n ih _ _ hn HasTyE.null (by intro ms e; cases e)
    | seq k item xs hx =>
      exact hasTyE_typeMatches_core K env n ih _ _ hn (HasTyE.seq k item xs hx) (by intro ms e; cases e)
    | map k V kvs hk hv hko =>
      exact hasTyE_typeMatches_core K env n ih _ _ hn (HasTyE.map k V kvs hk hv hko) (by intro ms e; cases e)
    | obj d kw hS h0 h1 h2 h3 =>
      exact hasTyE_typeMatches_core K env n ih _ _ hn (HasTyE.obj d kw hS h0 h1 h2 h3) (by intro ms e; cases e)
    | objX d mainKw extraKw hS h0 h1 h2 h3 h4 h5 h6 =>
      exact hasTyE_typeMatches_core K env n ih _ _ hn (HasTyE.objX d mainKw extraKw hS h0 h1 h2 h3 h4 h5 h6)
        (by intro ms e; cases e)
    | objUp base d kw k j hL h1 h2 h3 h4 h5 h6 h7 h8 =>
      exact hasTyE_typeMatches_core K env n ih _ _ hn (HasTyE.objUp base d kw k j hL h1 h2 h3 h4 h5 h6 h7 h8)
        (by intro ms e; cases e)
    | float r i h1 =>
      exact hasTyE_typeMatches_core K env n ih _ _ hn (HasTyE.float r i h1) (by intro ms e; cases e)
    | path t h1 =>
      exact hasTyE_typeMatches_core K env n ih _ _ hn (HasTyE.path t h1) (by intro ms e; cases e)
    | enum d members name h1 h2 h3 =>
      exact hasTyE_typeMatches_core K env n ih _ _ hn (HasTyE.enum d members name h1 h2 h3) (by intro ms e; cases e)
    | ustr d t h1 h2 h3 =>
      exact hasTyE_typeMatches_core K env n ih _ _ hn (HasTyE.ustr d t h1 h2 h3) (by intro ms e; cases e)
    | any v h1 =>
      exact hasTyE_typeMatches_core K env n ih _ _ hn (HasTyE.any v h1) (by intro ms e; cases e)

/-! ### recognising the node of a simple object -/

theorem hasKey_of_mem (ps : List (Node × Node)) (a : String) (p : Node × Node) (hp : p ∈ ps)
    (hk : p.1.keyIs a = true) : hasKey ps a = true := by
  unfold hasKey
  exact List.any_eq_true.mpr ⟨p, hp, hk⟩

theorem recAttrs_all_present (rec : Node → Ty → RecRes) (n : Node) (ps : List (Node × Node))
    (hd : KeysDistinct ps) : ∀ (params : List Param),
    (∀ prm ∈ params, ∃ p ∈ ps, p.1.keyIs prm.name = true ∧ Unique (rec p.2 prm.ty)) →
    recAttrs rec n ps params = .ok none
  | [], _ => rfl
  | prm :: rest, h => by
    obtain ⟨p, hp, hk, R, l, hr⟩ := h prm (by simp)
    have h1 := hasKey_of_mem ps prm.name p hp hk
    have h2 := valuesOf_distinct ps prm.name p hd hp hk
    have : recAttr rec n ps prm = .ok none := by
      simp [recAttr, tryAttrName, h1, h2, hr]
    simp only [recAttrs, this]
    exact recAttrs_all_present rec n ps hd rest (fun q hq => h q (by simp [hq]))

theorem tMap_yaml : hasPrefix "tag:yaml.org,2002" tMap = true := by decide

theorem recognize_simple_obj (env : Env) (d : ClassDef) (S : SimpleClass env d) (b : Nat)
    (ps : List (Node × Node)) (m : Mark) (hdist : KeysDistinct ps)
    (hall : ∀ prm ∈ d.params, ∃ p ∈ ps, p.1.keyIs prm.name = true ∧
      Unique (recognizeReq env b p.2 (.ty prm.ty))) :
    recognize env (b + 2) (.map tMap (Pairs.ofList ps) m) (.cls d.name) = .ok ([.cls d.name], [okLeaf]) := by
  have hreg := find_isRegistered env d.name d S.found
  have hattrs := recAttrs_all_present (fun x U => recognizeReq env b x (.ty U))
    (.map tMap (Pairs.ofList ps) m) ps hdist d.params hall
  simp only [recognize, recognizeReq, hreg, if_true, S.found, S.noSub, recSubclasses, List.length_nil,
    BEq.rfl, S.concrete, Bool.false_eq_true, if_false, recUserClass, S.recog, S.kind,
    Pairs.toList_ofList, hattrs, recOk, finishClasses, List.length_singleton, Node.tag, tMap_yaml]
  simp

theorem tNull_ne_str : (tNull == tStr) = false := by decide
theorem tNull_ne_int : (tNull == tInt) = false := by decide
theorem tNull_ne_bool : (tNull == tBool) = false := by decide
theorem tNull_ne_float : (tNull == tFloat) = false := by decide
theorem tFloat_ne_null : (tFloat == tNull) = false := by decide
theorem tStr_ne_null : (tStr == tNull) = false := by decide
theorem tInt_ne_null : (tInt == tNull) = false := by decide
theorem tBool_ne_null : (tBool == tNull) = false := by decide

/-! ### extra attributes hold plain data -/

theorem stripTagsL_toList (tbl : List Entry) : ∀ (ns : Nodes), (stripTagsL tbl ns).toList = ns.toList.map (stripTags tbl)
  | .nil => rfl
  | .cons x xs => by simp [stripTagsL, Nodes.toList, stripTagsL_toList tbl xs]

theorem stripTagsP_toList (tbl : List Entry) : ∀ (ps : Pairs),
    (stripTagsP tbl ps).toList = ps.toList.map (fun p => (stripTags tbl p.1, stripTags tbl p.2))
  | .nil => rfl
  | .cons k v r => by simp [stripTagsP, Pairs.toList, stripTagsP_toList tbl r]

theorem byTag_core (env : Env) (t : String) (h : hasPrefix "!" t = false) : env.byTag t = none := by
  simp [Env.byTag, h]

theorem all2_map_right' {α β γ : Type} {r : α → β → Prop} {s : α → γ → Prop} (g : β → γ) :
    ∀ {as : List α} {bs : List β}, All2 r as bs → (∀ a ∈ as, ∀ b, r a b → s a (g b)) → All2 s as (bs.map g)
  | _, _, .nil, _ => All2.nil
  | _, _, .cons (a := a) (b := b) hab rest, h =>
    All2.cons (h a (by simp) b hab) (all2_map_right' g rest (fun a' ha' b' hr => h a' (by simp [ha']) b' hr))

/-- **Plain data survives tag stripping and construction.** -/
theorem construct_plain (K : Nat) (env : Env) (denv : DumpEnv) (tbl : List Entry) :
    ∀ (g : Nat) (v : PyVal) (o : RepOut), represent denv g v = .ok o → PlainAny v →
      ∀ f, need K v ≤ f + 1 → ∃ cs, construct env tbl f (stripTags tbl o.node) = .ok ⟨v, cs⟩
  | 0, _, _, h, _, _, _ => by simp [represent] at h
  | g + 1, v, o, h, hp, f, hf => by
    obtain ⟨f, rfl⟩ : ∃ f', f = f' + 1 := ⟨f - 1, by have := need_pos K v; omega⟩
    cases hp with
    | str s =>
      simp only [represent, representScalar] at h; cases h
      exact ⟨[], by simp [stripTags, tStr_core, construct, Node.tag, byTag_core env tStr (by decide), constructScalarCore]; decide⟩
    | int i =>
      simp only [represent, representScalar] at h; cases h
      refine ⟨[], ?_⟩
      have h1 : hasPrefix corePrefix tInt = true := by decide
      have h2 : (tInt == "!Path") = false := by decide
      have h3 : (tInt == tStr) = false := by decide
      have hci : constructInt (Int.repr i) = some i := constructInt_int i
      simp [stripTags, h1, construct, Node.tag, byTag_core env tInt (by decide), h2, constructScalarCore, h3, hci]
    | bool b =>
      simp only [represent, representScalar] at h; cases h
      refine ⟨[], ?_⟩
      have h1 : hasPrefix corePrefix tBool = true := by decide
      have h2 : (tBool == "!Path") = false := by decide
      have h3 : (tBool == tStr) = false := by decide
      have h4 : (tBool == tInt) = false := by decide
      have h5 : (tBool == tFloat) = false := by decide
      have hb : constructBool (if b = true then "true" else "false") = some b := by cases b <;> decide
      simp [stripTags, h1, construct, Node.tag, byTag_core env tBool (by decide), h2, constructScalarCore, h3, h4, h5, hb]
    | null =>
      simp only [represent, representScalar] at h; cases h
      refine ⟨[], ?_⟩
      have h1 : hasPrefix corePrefix tNull = true := by decide
      have h2 : (tNull == "!Path") = false := by decide
      have h5 : (tNull == tFloat) = false := by decide
      simp [stripTags, h1, construct, Node.tag, byTag_core env tNull (by decide), h2, constructScalarCore,
        tNull_ne_str, tNull_ne_int, tNull_ne_bool, h5]
    | list xs hx =>
      simp only [represent] at h
      split at h
      · cases h
      · rename_i ns tr hitems
        cases h
        simp only [need] at hf
        have ha := repItems_all2 (represent denv g) xs.toList ns tr hitems
        have hall : All2 (fun x y => ∃ cs, construct env tbl f y = .ok ⟨x, cs⟩) xs.toList (ns.map (stripTags tbl)) :=
          all2_map_right' (stripTags tbl) ha (fun x hxm n ⟨o, ho, hn⟩ => hn ▸
            construct_plain K env denv tbl g x o ho (hx x hxm) f (by have := needL_mem K xs x hxm; omega))
        obtain ⟨cs', hc⟩ := consItems_all2 (construct env tbl f) xs.toList _ [] hall
        refine ⟨cs', ?_⟩
        have h2 : (tSeq == "!Path") = false := by decide
        simp [stripTags, construct, Node.tag, byTag_core env tSeq (by decide), h2, stripTagsL_toList, hc]
    | dict kvs hk hv hko =>
      simp only [represent] at h
      split at h
      · cases h
      · rename_i ps tr hpairs
        cases h
        simp only [need] at hf
        have ha := repPairs_all2 (represent denv g) kvs.toList ps tr hpairs
        have hall : All2 (fun e q => (∃ ck, construct env tbl f q.1 = .ok ⟨e.1, ck⟩) ∧ NotMergeKey q.1 ∧
            (∃ cv, construct env tbl f q.2 = .ok ⟨e.2, cv⟩)) kvs.toList
            (ps.map (fun p => (stripTags tbl p.1, stripTags tbl p.2))) :=
          all2_map_right' _ ha (fun e hem p ⟨⟨ko, hko', hkn⟩, ⟨vo, hvo, hvn⟩⟩ => by
            obtain ⟨s, hs⟩ := hk e hem
            have hnk := needK_mem K kvs e hem
            have hfp := need_pos K e.2
            have hkey := construct_plain K env denv tbl g e.1 ko hko' (hs ▸ PlainAny.str s) f
              (by rw [hs]; simp only [need]; omega)
            have hval := construct_plain K env denv tbl g e.2 vo hvo (hv e hem) f (by omega)
            refine ⟨hkn ▸ hkey, ?_, hvn ▸ hval⟩
            -- the key node is a `!!str` scalar
            rw [hs] at hko'
            cases g with
            | zero => simp [represent] at hko'
            | succ g' =>
              simp only [represent, representScalar] at hko'
              cases hko'
              rw [← hkn]
              simp only [stripTags, tStr_core, if_true]
              exact tStr_not_merge)
        have hflat : flattenPairs (f + 1) (ps.map (fun p => (stripTags tbl p.1, stripTags tbl p.2)))
            = some (ps.map (fun p => (stripTags tbl p.1, stripTags tbl p.2))) := by
          apply flattenPairs_plain_keys
          intro q hq
          obtain ⟨e, _, _, hnm, _⟩ := all2_mem_right hall q hq
          exact hnm
        obtain ⟨cs', hc⟩ := consPairs_all2 (construct env tbl f) kvs.toList _ [] [] hall hko.1
          (by simpa using hko.2)
        refine ⟨cs', ?_⟩
        have h2 : (tMap == "!Path") = false := by decide
        simp [stripTags, construct, Node.tag, byTag_core env tMap (by decide), h2, stripTagsP_toList, hflat, hc]

theorem tStr_yaml : hasPrefix "tag:yaml.org,2002" tStr = true := by decide

/-- recognising the scalar of an enum member / a string-like as its (simple) class -/
theorem recognize_leaf_class (env : Env) (d : ClassDef) (S : SimpleLeafClass env d)
    (hk : (∃ members, d.kind = .enum members) ∨ d.kind = .stringLike) (b : Nat) (t : String) (m : Mark) :
    recognize env (b + 2) (.scalar tStr t m) (.cls d.name) = .ok ([.cls d.name], [okLeaf]) := by
  have hreg := find_isRegistered env d.name d S.found
  rcases hk with ⟨members, hk⟩ | hk <;>
    simp [recognize, recognizeReq, hreg, S.found, S.noSub, recSubclasses, S.concrete, recUserClass, S.recog, hk,
      recOk, finishClasses, Node.tag, tStr_yaml]

theorem savorize_leaf (env : Env) (d : ClassDef) (S : SimpleLeafClass env d) (f : Nat) (n : Node) :
    savorize env (f + 1) n d = .ok (n, []) := by
  simp [savorize, S.noBases, S.sav]

/-! ### the represented node of a simple object describes it -/

theorem attributesOf_cons (e : PyVal × PyVal) (l : List (PyVal × PyVal))
    (he : (e.1 == PyVal.scalar (.str "_yatiml_extra")) = false) : attributesOf (e :: l) = e :: attributesOf l := by
  have hne : e.1 ≠ PyVal.scalar (.str "_yatiml_extra") := by
    intro h'; rw [h'] at he; simp at he
  simp [attributesOf, List.filter_cons, List.filterMap_cons, bne, hne]

theorem attributesOf_noExtra : ∀ (l : List (PyVal × PyVal)),
    (∀ e ∈ l, (e.1 == PyVal.scalar (.str "_yatiml_extra")) = false) → attributesOf l = l
  | [], _ => by simp [attributesOf]
  | e :: l, h => by
    rw [attributesOf_cons e l (h e (by simp)), attributesOf_noExtra l (fun x hx => h x (by simp [hx]))]

theorem all2_map_eq {α β γ : Type} {r : α → β → Prop} (g : α → γ) (h : β → γ) :
    ∀ {as : List α} {bs : List β}, All2 r as bs → (∀ a b, r a b → g a = h b) → as.map g = bs.map h
  | _, _, .nil, _ => rfl
  | _, _, .cons hab rest, hr => by
    simp only [List.map_cons, hr _ _ hab, all2_map_eq g h rest hr]

def keyNodeOf (k : PyVal) : Node :=
  match k with
  | .scalar (.str s) => .scalar tStr s gen
  | _ => .scalar tStr "" gen

theorem keysDistinct_of_names (names : List String) (h : names.Nodup) :
    KeysDistinct (names.map (fun nm => ((Node.scalar tStr nm gen), (Node.scalar tStr nm gen)))) := by
  unfold KeysDistinct
  simp only [List.map_map]
  apply List.pairwise_map.mpr
  refine List.Pairwise.imp ?_ h
  intro a b hab s hs
  simp only [Function.comp, keyIs_scalar, beq_iff_eq] at hs ⊢
  subst hs
  simp only [beq_eq_false_iff_ne]
  exact fun e => hab e.symm

theorem keysDistinct_congr (ps qs : List (Node × Node)) (h : ps.map (·.1) = qs.map (·.1)) (hq : KeysDistinct qs) :
    KeysDistinct ps := by
  unfold KeysDistinct at *
  rw [h]; exact hq

theorem attributesOf_with_extra : ∀ (main extra : List (PyVal × PyVal)),
    (∀ e ∈ main, (e.1 == PyVal.scalar (.str "_yatiml_extra")) = false) →
    attributesOf (main ++ [(strKey "_yatiml_extra", .dict (PyKVs.ofList extra))]) = main ++ extra
  | [], extra, _ => by simp [attributesOf, strKey]
  | e :: main, extra, h => by
    rw [List.cons_append, attributesOf_cons e _ (h e (by simp)),
      attributesOf_with_extra main extra (fun x hx => h x (by simp [hx]))]
    rfl

theorem all2_append_left {α β : Type} {r : α → β → Prop} : ∀ {as1 as2 : List α} {bs : List β},
    All2 r (as1 ++ as2) bs → ∃ bs1 bs2, bs = bs1 ++ bs2 ∧ All2 r as1 bs1 ∧ All2 r as2 bs2
  | [], _, bs, h => ⟨[], bs, rfl, All2.nil, h⟩
  | a :: as1, as2, _, h => by
    cases h with
    | cons hab rest =>
      obtain ⟨bs1, bs2, e, h1, h2⟩ := all2_append_left rest
      exact ⟨_ :: bs1, bs2, by rw [e]; rfl, All2.cons hab h1, h2⟩

def nameOfKey (k : PyVal) : String :=
  match k with
  | .scalar (.str s) => s
  | _ => ""

theorem needK_ofList_mem (K : Nat) (l : List (PyVal × PyVal)) (e : PyVal × PyVal) (he : e ∈ l) :
    need K e.2 ≤ needK K (PyKVs.ofList l) :=
  needK_mem K (PyKVs.ofList l) e (by rw [PyKVs.toList_ofList]; exact he)

def Rejects (r : RecRes) : Prop := ∃ l, r = .ok ([], l)
theorem rejects_recFail (m : List Mark) (k : List String) : Rejects (recFail m k) := ⟨_, rfl⟩

theorem unionT_nil_single (R : Ty) : unionT [] [R] = [R] := by simp [unionT, insertT]
theorem unionT_single_single (R : Ty) : unionT [R] [R] = [R] := by simp [unionT, insertT]
theorem unionT_nil_right (a : List Ty) : unionT a [] = a := by simp [unionT]

/-! ### hierarchies: a leaf class reached through single-subclass steps -/

/-- recognising the mapping of a leaf object as its class, at the level of `__recognize_user_classes` -/
theorem recognize_classes_leaf (env : Env) (d : ClassDef) (L : HierLeaf env d) (b : Nat)
    (ps : List (Node × Node)) (m : Mark) (hdist : KeysDistinct ps)
    (hall : ∀ prm ∈ d.params, ∃ p ∈ ps, p.1.keyIs prm.name = true ∧
      Unique (recognizeReq env b p.2 (.ty prm.ty))) (top : Bool) :
    recognizeReq env (b + 1) (.map tMap (Pairs.ofList ps) m) (.classes d.name top)
      = .ok ([.cls d.name], [okLeaf]) := by
  have hattrs := recAttrs_all_present (fun x U => recognizeReq env b x (.ty U))
    (.map tMap (Pairs.ofList ps) m) ps hdist d.params hall
  simp only [recognizeReq, L.found, L.noSub, recSubclasses, List.length_nil,
    BEq.rfl, L.concrete, Bool.false_eq_true, if_false, recUserClass, L.recog, L.kind,
    Pairs.toList_ofList, hattrs, recOk, finishClasses, List.length_singleton, Node.tag, tMap_yaml]
  simp

/-! siblings: the subtrees next to the path reject the mapping -/

theorem hasKey_iff_names (ps : List (Node × Node)) (names : List String)
    (hk : ps.map (·.1) = names.map (fun nm => Node.scalar tStr nm gen)) (x : String) :
    hasKey ps x = true ↔ x ∈ names := by
  unfold hasKey
  have : ps.any (fun p => p.1.keyIs x) = (ps.map (·.1)).any (fun k => k.keyIs x) := by
    simp [List.any_map, Function.comp_def]
  rw [this, hk]
  simp only [List.any_map, Function.comp_def, keyIs_scalar, List.any_eq_true, beq_iff_eq]
  constructor
  · rintro ⟨y, hy, rfl⟩; exact hy
  · intro h; exact ⟨x, h, rfl⟩

/-- the facts about the mapping of a leaf object that the sibling analysis uses -/
structure LeafMap (env : Env) (lp : List Param) (ps : List (Node × Node)) (c0 : Nat) : Prop where
  keys : ps.map (·.1) = (lp.map (·.name)).map (fun nm => Node.scalar tStr nm gen)
  dist : KeysDistinct ps
  vals : ∀ prm ∈ lp, ∃ p ∈ ps, p.1.keyIs prm.name = true ∧ ∀ f, c0 ≤ f → Unique (recognizeReq env f p.2 (.ty prm.ty))

theorem recAttr_passes (env : Env) (lp : List Param) (ps : List (Node × Node)) (c0 f : Nat) (hf : c0 ≤ f)
    (M : LeafMap env lp ps c0) (n : Node) (q : Param) (hq : ParamPasses lp q) :
    recAttr (fun x U => recognizeReq env f x (.ty U)) n ps q = .ok none := by
  rcases hq with ⟨p, hp, hname, hty⟩ | ⟨hopt, h1, h2⟩
  · obtain ⟨pr, hpr, hk, hu⟩ := M.vals p hp
    rw [hname] at hk
    have h1 := hasKey_of_mem ps q.name pr hpr hk
    have h2 := valuesOf_distinct ps q.name pr M.dist hpr hk
    obtain ⟨R, l, hr⟩ := hu f hf
    rw [hty] at hr
    simp [recAttr, tryAttrName, h1, h2, hr]
  · have k1 : hasKey ps q.name = false := by
      cases hh : hasKey ps q.name
      · rfl
      · exact absurd ((hasKey_iff_names ps _ M.keys q.name).mp hh) h1
    have k2 : hasKey ps (dashed q.name) = false := by
      cases hh : hasKey ps (dashed q.name)
      · rfl
      · exact absurd ((hasKey_iff_names ps _ M.keys (dashed q.name)).mp hh) h2
    simp [recAttr, tryAttrName, k1, k2, hopt]

theorem recAttrs_rejects (env : Env) (lp : List Param) (ps : List (Node × Node)) (c0 f : Nat) (hf : c0 ≤ f)
    (M : LeafMap env lp ps c0) (n : Node) (prm : Param) (post : List Param) (hreq : prm.required = true)
    (h1 : prm.name ∉ lp.map (·.name)) (h2 : dashed prm.name ∉ lp.map (·.name)) :
    ∀ (pre : List Param), (∀ q ∈ pre, ParamPasses lp q) →
      ∃ l, recAttrs (fun x U => recognizeReq env f x (.ty U)) n ps (pre ++ prm :: post) = .ok (some l)
  | [], _ => by
    have k1 : hasKey ps prm.name = false := by
      cases hh : hasKey ps prm.name
      · rfl
      · exact absurd ((hasKey_iff_names ps _ M.keys prm.name).mp hh) h1
    have k2 : hasKey ps (dashed prm.name) = false := by
      cases hh : hasKey ps (dashed prm.name)
      · rfl
      · exact absurd ((hasKey_iff_names ps _ M.keys (dashed prm.name)).mp hh) h2
    simp only [List.nil_append, recAttrs, recAttr, tryAttrName, k1, k2, Bool.false_eq_true, if_false, hreq, if_true]
    exact ⟨_, rfl⟩
  | q :: pre, hp => by
    obtain ⟨l, hl⟩ := recAttrs_rejects env lp ps c0 f hf M n prm post hreq h1 h2 pre
      (fun x hx => hp x (by simp [hx]))
    refine ⟨l, ?_⟩
    simp only [List.cons_append, recAttrs, recAttr_passes env lp ps c0 f hf M n q (hp q (by simp)), hl]

/-- `recSubclasses` when every subclass either recognises the node as `R` or rejects it -/
theorem recSubclasses_one (recC : ClassDef → RecRes) (R : Ty) :
    ∀ (ds : List ClassDef) (acc : ClsAcc),
      (∀ s ∈ ds, (∃ l, recC s = .ok ([R], l)) ∨ Rejects (recC s)) →
      (acc.types = [] ∨ acc.types = [R]) →
      ∃ acc', recSubclasses recC ds acc = .ok acc' ∧ (acc'.types = [] ∨ acc'.types = [R]) ∧
        ((acc.types = [R] ∨ ∃ s ∈ ds, ∃ l, recC s = .ok ([R], l)) → acc'.types = [R]) ∧
        ((acc.types = [] ∧ ∀ s ∈ ds, Rejects (recC s)) → acc'.types = [])
  | [], acc, _, ha => ⟨acc, rfl, ha, (fun h => by
      rcases h with h | ⟨s, hs, _⟩
      · exact h
      · cases hs), (fun h => h.1)⟩
  | s :: ds, acc, hall, ha => by
    rcases hall s (by simp) with ⟨l, hr⟩ | ⟨l, hr⟩
    · have hacc1 : unionT acc.types [R] = [R] := by
        rcases ha with h | h <;> rw [h]
        · exact unionT_nil_single R
        · exact unionT_single_single R
      obtain ⟨acc', h1, h2, h3, _⟩ := recSubclasses_one recC R ds
        { types := unionT acc.types [R], causes := acc.causes }
        (fun x hx => hall x (by simp [hx])) (Or.inr hacc1)
      refine ⟨acc', ?_, h2, fun _ => h3 (Or.inl hacc1), ?_⟩
      · simp [recSubclasses, hr, h1]
      · intro ⟨_, hrej⟩
        obtain ⟨l', hl'⟩ := hrej s (by simp)
        rw [hr] at hl'; cases hl'
    · obtain ⟨acc', h1, h2, h3, h4⟩ := recSubclasses_one recC R ds
        { types := acc.types, causes := acc.causes ++ [l] }
        (fun x hx => hall x (by simp [hx])) ha
      refine ⟨acc', ?_, h2, ?_, ?_⟩
      · simp [recSubclasses, hr, unionT_nil_right, h1]
      · intro h
        apply h3
        rcases h with h | ⟨x, hx, lx, hxr⟩
        · exact Or.inl h
        · rcases List.mem_cons.mp hx with rfl | hx'
          · rw [hr] at hxr; cases hxr
          · exact Or.inr ⟨x, hx', lx, hxr⟩
      · intro ⟨h0, hrej⟩
        exact h4 ⟨h0, fun x hx => hrej x (by simp [hx])⟩

/-- a subtree of classes that reject the mapping: recognition below `s` finds nothing -/
theorem subtree_rejects (env : Env) (lp : List Param) (ps : List (Node × Node)) (m : Mark) (c0 : Nat)
    (M : LeafMap env lp ps c0) :
    ∀ (s : String) (H : Nat), SubtreeRejects env lp s H → ∀ (f : Nat), c0 + H ≤ f → ∀ top,
      Rejects (recognizeReq env f (.map tMap (Pairs.ofList ps) m) (.classes s top)) := by
  intro s H h
  induction h with
  | mk s sd h H hf hrecog hkind hcr _ hlt ih =>
    intro f hfuel top
    obtain ⟨f', rfl⟩ : ∃ f', f = f' + 1 := ⟨f - 1, by omega⟩
    have hsubs : ∀ t ∈ env.directSubclasses s,
        (∃ l, recognizeReq env f' (.map tMap (Pairs.ofList ps) m) (.classes t.name false) = .ok ([Ty.any], l)) ∨
        Rejects (recognizeReq env f' (.map tMap (Pairs.ofList ps) m) (.classes t.name false)) :=
      fun t ht => Or.inr (ih t ht f' (by omega) false)
    obtain ⟨acc', h1, _, _, h4⟩ := recSubclasses_one
      (fun t => recognizeReq env f' (.map tMap (Pairs.ofList ps) m) (.classes t.name false)) Ty.any
      (env.directSubclasses s) ⟨[], []⟩ hsubs (Or.inl rfl)
    have hempty : acc'.types = [] := h4 ⟨rfl, fun t ht => ih t ht f' (by omega) false⟩
    rcases hcr with habs | ⟨pre, prm, post, hparams, hreq, hn1, hn2, hpre⟩
    · simp only [recognizeReq, hf, h1, hempty, List.length_nil, BEq.rfl, if_true, habs, finishClasses]
      exact ⟨_, rfl⟩
    · obtain ⟨l, hl⟩ := recAttrs_rejects env lp ps c0 f' (by omega) M (.map tMap (Pairs.ofList ps) m)
        prm post hreq hn1 hn2 pre hpre
      rw [← hparams] at hl
      cases hab : sd.abstract
      · simp only [recognizeReq, hf, h1, hempty, List.length_nil, BEq.rfl, if_true, hab, Bool.false_eq_true,
          if_false, recUserClass, hrecog, hkind, Pairs.toList_ofList, hl, finishClasses]
        exact ⟨_, rfl⟩
      · simp only [recognizeReq, hf, h1, hempty, List.length_nil, BEq.rfl, if_true, hab, finishClasses]
        exact ⟨_, rfl⟩

/-- … and then as that class through every base on the chain: the subclass on the path matched, the other
subtrees reject, so the base itself is not tried -/
theorem recognize_chain (env : Env) (lp : List Param) (H : Nat) (ps : List (Node × Node)) (m : Mark) (c : String)
    (b c0 : Nat) (M : LeafMap env lp ps c0) (hb : c0 + H ≤ b)
    (hleaf : ∀ top, recognizeReq env (b + 1) (.map tMap (Pairs.ofList ps) m) (.classes c top)
      = .ok ([.cls c], [okLeaf])) :
    ∀ (base : String) (k : Nat), Chain env lp H base c k → ∀ top,
      recognizeReq env (b + 1 + k) (.map tMap (Pairs.ofList ps) m) (.classes base top) = .ok ([.cls c], [okLeaf]) := by
  intro base k h
  induction h with
  | here c => intro top; exact hleaf top
  | step base mid c k bd md hf hmem hmid hsib _ ih =>
    intro top
    have hmd := ih hleaf false
    have hall : ∀ s ∈ env.directSubclasses base,
        (∃ l, recognizeReq env (b + 1 + k) (.map tMap (Pairs.ofList ps) m) (.classes s.name false) = .ok ([.cls c], l)) ∨
        Rejects (recognizeReq env (b + 1 + k) (.map tMap (Pairs.ofList ps) m) (.classes s.name false)) := by
      intro s hs
      by_cases hsn : s.name = mid
      · rw [hsn]; exact Or.inl ⟨_, hmd⟩
      · exact Or.inr (subtree_rejects env lp ps m c0 M s.name H (hsib s hs hsn) (b + 1 + k) (by omega) false)
    obtain ⟨acc', h1, _, h3, _⟩ := recSubclasses_one
      (fun s => recognizeReq env (b + 1 + k) (.map tMap (Pairs.ofList ps) m) (.classes s.name false)) (.cls c)
      (env.directSubclasses base) ⟨[], []⟩ hall (Or.inl rfl)
    have hone : acc'.types = [.cls c] := h3 (Or.inr ⟨md, hmem, _, by rw [hmid]; exact hmd⟩)
    show recognizeReq env (b + 1 + k + 1) (.map tMap (Pairs.ofList ps) m) (.classes base top) = _
    simp only [recognizeReq, hf, h1, hone, List.length_singleton, finishClasses, Node.tag, tMap_yaml]
    simp

theorem chain_found (env : Env) (lp : List Param) (H : Nat) (base c : String) (k : Nat)
    (h : Chain env lp H base c k) (d : ClassDef)
    (hd : env.find c = some d) : ∃ bd, env.find base = some bd := by
  cases h with
  | here => exact ⟨d, hd⟩
  | step _ _ _ _ bd _ hf _ _ _ _ => exact ⟨bd, hf⟩

/-- savorizing up a chain of hook-free registered bases is the identity, given fuel for its height -/
theorem savorize_up (env : Env) : ∀ (d : ClassDef) (j : Nat), UpChain env d j → ∀ (f : Nat), j ≤ f → ∀ (n : Node),
    savorize env (f + 1) n d = .ok (n, []) := by
  intro d j h
  induction h with
  | root d hs hb => intro f _ n; simp [savorize, hb, hs]
  | step d bd j hs hb _ ih =>
    intro f hf n
    obtain ⟨f', rfl⟩ : ∃ f', f = f' + 1 := ⟨f - 1, by omega⟩
    have := ih f' (by omega) n
    show savorize env (f' + 1 + 1) n d = _
    unfold savorize
    simp only [hb, List.foldl_cons, List.foldl_nil, this, hs, List.nil_append]

/-! ### what is shown of a represented node: which type it is recognised as, and its shape -/

def DescAt (env : Env) (tbl : List Entry) (f : Nat) (T R : Ty) (v : PyVal) (n : Node) : Prop :=
  ∃ l, recognize env f n T = .ok ([R], l) ∧ ∃ f', f = f' + 1 ∧ RTcore env tbl f' (RT env tbl f') R v n

/-- recognition settles on one type `R` (the declared type itself, or - behind an `Optional` / `Union` -
the member concerned), and the node has the shape of a value of `R` -/
def Desc (env : Env) (tbl : List Entry) (f : Nat) (T : Ty) (v : PyVal) (n : Node) : Prop :=
  ∃ R, DescAt env tbl f T R v n

theorem desc_rt {env : Env} {tbl : List Entry} {f : Nat} {T R : Ty} {v : PyVal} {n : Node}
    (h : DescAt env tbl f T R v n) : RT env tbl f T v n := by
  obtain ⟨l, hr, f', rfl, hc⟩ := h
  exact ⟨R, l, hr, hc⟩

/-- the node of an object of a leaf class, declared as one of its registered ancestors, is recognised as the
leaf class and has the shape of an object of that class -/
theorem desc_objUp (K : Nat) (env : Env) (denv : DumpEnv) (tbl : List Entry) (hns : C07.NoSweeten denv) (g : Nat)
    (IH : ∀ (T : Ty) (v : PyVal) (o : RepOut), represent denv g v = .ok o → HasTyE K env T v →
      ∀ f, need K v ≤ f → Desc env tbl f T v o.node)
    (base : String) (d : ClassDef) (kw : PyKVs) (k j : Nat) (L : HierLeaf env d)
    (hchain : Chain env d.params K base d.name k) (hkK : k ≤ K) (hup : UpChain env d j) (hjK : j ≤ K)
    (hkeys : kw.toList.map (·.1) = d.params.map (fun p => strKey p.name))
    (hvals : ∀ e ∈ kw.toList, ∀ prm ∈ d.params, e.1 = strKey prm.name → HasTyE K env prm.ty e.2)
    (hinit : d.initRaises (scalarArgs kw.toList) = false)
    (o : RepOut) (h : represent denv (g + 1) (.obj d.name kw) = .ok o) (f : Nat)
    (hf : need K (.obj d.name kw) ≤ f + 1 + 1) :
    DescAt env tbl (f + 1) (.cls base) (.cls d.name) (.obj d.name kw) o.node := by
  have simple_described : ∀ (T : Ty) (v : PyVal) (o : RepOut), represent denv g v = .ok o → HasTyE K env T v →
      ∀ f, need K v ≤ f → RT env tbl f T v o.node :=
    fun T v o h ht f hf => by obtain ⟨R, hR⟩ := IH T v o h ht f hf; exact desc_rt hR
  simp only [represent] at h
  split at h
  · cases h
  · rename_i dd hdd
    -- no `_yatiml_extra` among the keyword arguments: the attribute list is the argument list
    have hnoextra : ∀ e ∈ kw.toList, (e.1 == PyVal.scalar (.str "_yatiml_extra")) = false := by
      intro e he
      have : e.1 ∈ kw.toList.map (·.1) := List.mem_map.mpr ⟨e, he, rfl⟩
      rw [hkeys] at this
      obtain ⟨prm, hprm, hpe⟩ := List.mem_map.mp this
      rw [← hpe]
      have := (L.args prm hprm).2.1
      simp [strKey, this]
    rw [attributesOf_noExtra kw.toList hnoextra] at h
    split at h
    · cases h
    · rename_i ps tr hpairs
      split at h
      · cases h
      · rename_i n tr' hsw
        cases h
        have := C07.sweeten_id denv hns _ _ dd (C07.find_mem denv d.name dd hdd) _ hsw
        cases this
        simp only [need] at hf
        obtain ⟨b, rfl⟩ : ∃ b, f = b + 1 + k := ⟨f - 1 - k, by have := needK_pos K kw; omega⟩
        have ha := repPairs_all2 (represent denv g) kw.toList ps tr hpairs
        -- everything known about one (argument, pair)
        have A : All2 (fun e p => ∃ prm ∈ d.params, e.1 = strKey prm.name ∧ p.1 = .scalar tStr prm.name gen ∧
            RT env tbl (b + 1 + k) prm.ty e.2 p.2 ∧ RT env tbl b prm.ty e.2 p.2 ∧ need K e.2 ≤ b ∧
            need K e.2 + K ≤ b ∧ ∀ f', need K e.2 ≤ f' → RT env tbl f' prm.ty e.2 p.2) kw.toList ps :=
          all2_imp_mem ha (fun e hem p ⟨⟨ko, hko, hkn⟩, ⟨vo, hvo, hvn⟩⟩ => by
            have : e.1 ∈ kw.toList.map (·.1) := List.mem_map.mpr ⟨e, hem, rfl⟩
            rw [hkeys] at this
            obtain ⟨prm, hprm, hpe⟩ := List.mem_map.mp this
            have hty := hvals e hem prm hprm hpe.symm
            have hnk := needK_mem K kw e hem
            refine ⟨prm, hprm, hpe.symm, ?_, ?_, ?_, by omega, by omega,
              fun f' hf' => hvn ▸ simple_described prm.ty e.2 vo hvo hty f' hf'⟩
            · rw [← hpe] at hko
              cases g with
              | zero => simp [represent] at hko
              | succ g' =>
                simp only [strKey, represent, representScalar] at hko
                cases hko; exact hkn.symm
            · exact hvn ▸ simple_described prm.ty e.2 vo hvo hty (b + 1 + k) (by omega)
            · exact hvn ▸ simple_described prm.ty e.2 vo hvo hty b (by omega))
        -- the keys of the mapping are the parameter names, in order
        have hpskeys : ps.map (·.1) = (d.params.map (·.name)).map (fun nm => Node.scalar tStr nm gen) := by
          have e1 : kw.toList.map (fun e => keyNodeOf e.1) = ps.map (·.1) :=
            all2_map_eq (fun e => keyNodeOf e.1) (·.1) A (fun e p ⟨prm, _, h1, h2, _⟩ => by
              simp only [h1, h2, strKey, keyNodeOf])
          rw [← e1]
          have : kw.toList.map (fun e => keyNodeOf e.1) = (kw.toList.map (·.1)).map keyNodeOf := by
            simp [List.map_map]
          rw [this, hkeys]
          simp [List.map_map, strKey, keyNodeOf, Function.comp]
        have hdist : KeysDistinct ps := by
          apply keysDistinct_congr ps _ _ (keysDistinct_of_names (d.params.map (·.name)) L.nodup)
          rw [hpskeys]; simp [List.map_map, Function.comp]
        -- every parameter is present exactly once, with a uniquely recognised value
        have hall : ∀ prm ∈ d.params, ∃ p ∈ ps, p.1.keyIs prm.name = true ∧
            Unique (recognizeReq env b p.2 (.ty prm.ty)) := by
          intro prm hprm
          have : strKey prm.name ∈ kw.toList.map (·.1) := by
            rw [hkeys]; exact List.mem_map.mpr ⟨prm, hprm, rfl⟩
          obtain ⟨e, he, hek⟩ := List.mem_map.mp this
          obtain ⟨p, hp, prm', hprm', h1, h2, _, h4, _⟩ := All2.mem_left A e he
          have hnm : prm'.name = prm.name := by
            rw [h1] at hek; simpa [strKey] using hek
          have hpp : prm' = prm := eq_of_name d.params L.nodup prm' hprm' prm hprm hnm
          subst hpp
          exact ⟨p, hp, by rw [h2]; simp [keyIs_scalar], rt_unique h4⟩
        have hleaf := recognize_classes_leaf env d L b ps gen hdist hall
        have M : LeafMap env d.params ps (b - K) :=
          { keys := hpskeys
            dist := hdist
            vals := by
              intro prm hprm
              have : strKey prm.name ∈ kw.toList.map (·.1) := by
                rw [hkeys]; exact List.mem_map.mpr ⟨prm, hprm, rfl⟩
              obtain ⟨e, he, hek⟩ := List.mem_map.mp this
              obtain ⟨p, hp, prm', hprm', h1, h2, _, _, _, hnK, hAll⟩ := All2.mem_left A e he
              have hnm : prm'.name = prm.name := by
                rw [h1] at hek; simpa [strKey] using hek
              have hpp : prm' = prm := eq_of_name d.params L.nodup prm' hprm' prm hprm hnm
              subst hpp
              exact ⟨p, hp, by rw [h2]; simp [keyIs_scalar], fun f' hf' => rt_unique (hAll f' (by omega))⟩ }
        have hbK : b - K + K ≤ b := by
          have := needK_pos K kw
          omega
        have hch := recognize_chain env d.params K ps gen d.name b (b - K) M hbK hleaf base k hchain true
        obtain ⟨bd, hbd⟩ := chain_found env d.params K base d.name k hchain d L.found
        have hreg := find_isRegistered env base bd hbd
        have hrec : recognize env (b + 1 + k + 1) (.map tMap (Pairs.ofList ps) gen) (.cls base)
            = .ok ([.cls d.name], [okLeaf]) := by
          simp only [recognize, recognizeReq, hreg, if_true]
          exact hch
        refine ⟨[okLeaf], hrec, b + 1 + k, rfl, ?_⟩
        refine RTcore.obj d.name kw (Pairs.ofList ps) gen d kw.toList [] ps [] L.found L.kind ?_
        exact {
          sav := savorize_up env d j hup (b + 1 + k) (by omega) _
          psEq := by rw [Pairs.toList_ofList, List.append_nil]
          kwEq := by simp [L.noExtra]
          noExtra := fun _ => rfl
          main := by
            exact all2_imp_mem A (fun e hem p ⟨prm, hprm, h1, h2, h3, _, hn, _⟩ =>
              ⟨prm.name, gen, prm, h1, h2, hprm, rfl, h3,
                hasTyE_typeMatches K env b prm.ty e.2 hn (hvals e hem prm hprm h1)⟩)
          extra := All2.nil
          distinct := by simpa [KeysDistinct] using hdist
          required := by
            intro prm hprm _
            have : strKey prm.name ∈ kw.toList.map (·.1) := by
              rw [hkeys]; exact List.mem_map.mpr ⟨prm, hprm, rfl⟩
            obtain ⟨e, he, hek⟩ := List.mem_map.mp this
            exact ⟨e, he, hek⟩
          paramsNodup := L.nodup
          argsParams := L.args
          init := hinit }

theorem desc_core (K : Nat) (env : Env) (denv : DumpEnv) (tbl : List Entry) (hns : C07.NoSweeten denv) (g : Nat)
    (IH : ∀ (T : Ty) (v : PyVal) (o : RepOut), represent denv g v = .ok o → HasTyE K env T v →
      ∀ f, need K v ≤ f → Desc env tbl f T v o.node) :
    ∀ (T : Ty) (v : PyVal) (o : RepOut), represent denv (g + 1) v = .ok o → HasTyE K env T v →
      (∀ ms, T ≠ Ty.union ms) → (∀ base c kw, T = .cls base → v = .obj c kw → c = base) →
      ∀ f, need K v ≤ f + 1 → DescAt env tbl f T T v o.node := by
  intro T v o h ht hno hsame f hf
  have simple_described : ∀ (T : Ty) (v : PyVal) (o : RepOut), represent denv g v = .ok o → HasTyE K env T v →
      ∀ f, need K v ≤ f → RT env tbl f T v o.node :=
    fun T v o h ht f hf => by obtain ⟨R, hR⟩ := IH T v o h ht f hf; exact desc_rt hR
  obtain ⟨f, rfl⟩ : ∃ f', f = f' + 1 := ⟨f - 1, by have := need_pos K v; omega⟩
  cases ht with
  | optNone T _ => exact absurd rfl (hno _)
  | optSome T v _ _ => exact absurd rfl (hno _)
  | union ms m k v _ _ _ _ => exact absurd rfl (hno _)
  | optNoneH base H _ _ => exact absurd rfl (hno _)
  | optSomeH base d kw k j _ _ _ _ _ _ _ _ _ => exact absurd rfl (hno _)
  | objX d mainKw extraKw S hte hkeys hvals hext hplain hkok hinit =>
    simp only [represent] at h
    split at h
    · cases h
    · rename_i dd hdd
      have hmainkeys : ∀ e ∈ mainKw, (e.1 == PyVal.scalar (.str "_yatiml_extra")) = false := by
        intro e he
        have : e.1 ∈ mainKw.map (·.1) := List.mem_map.mpr ⟨e, he, rfl⟩
        rw [hkeys] at this
        obtain ⟨prm, hprm, hpe⟩ := List.mem_map.mp this
        rw [← hpe]
        have := (S.args prm hprm).2.1
        simp [strKey, this]
      rw [PyKVs.toList_ofList, attributesOf_with_extra mainKw extraKw hmainkeys] at h
      split at h
      · cases h
      · rename_i ps tr hpairs
        split at h
        · cases h
        · rename_i n tr' hsw
          cases h
          have := C07.sweeten_id denv hns _ _ dd (C07.find_mem denv d.name dd hdd) _ hsw
          cases this
          simp only [need] at hf
          -- fuel: every argument, and every extra attribute, fits two levels down
          have hmainNeed : ∀ e ∈ mainKw, need K e.2 + 4 ≤ f + 2 := by
            intro e he
            have := needK_ofList_mem K (mainKw ++ [(strKey "_yatiml_extra", PyVal.dict (PyKVs.ofList extraKw))]) e
              (by simp [he])
            omega
          have hextraNeed : ∀ e ∈ extraKw, need K e.2 + 7 ≤ f + 2 := by
            intro e he
            have h1 := needK_ofList_mem K (mainKw ++ [(strKey "_yatiml_extra", PyVal.dict (PyKVs.ofList extraKw))])
              (strKey "_yatiml_extra", PyVal.dict (PyKVs.ofList extraKw)) (by simp)
            have h2 := needK_ofList_mem K extraKw e he
            simp only [need] at h1
            omega
          have hfpos : 2 ≤ f := by
            have := needK_pos K (PyKVs.ofList (mainKw ++ [(strKey "_yatiml_extra", PyVal.dict (PyKVs.ofList extraKw))]))
            omega
          obtain ⟨b, rfl⟩ : ∃ b, f = b + 1 := ⟨f - 1, by omega⟩
          have ha := repPairs_all2 (represent denv g) (mainKw ++ extraKw) ps tr hpairs
          obtain ⟨ps1, ps2, hps, ha1, ha2⟩ := all2_append_left ha
          subst hps
          have A : All2 (fun e p => ∃ prm ∈ d.params, e.1 = strKey prm.name ∧ p.1 = .scalar tStr prm.name gen ∧
              RT env tbl (b + 1) prm.ty e.2 p.2 ∧ RT env tbl b prm.ty e.2 p.2 ∧ need K e.2 ≤ b) mainKw ps1 :=
            all2_imp_mem ha1 (fun e hem p ⟨⟨ko, hko, hkn⟩, ⟨vo, hvo, hvn⟩⟩ => by
              have : e.1 ∈ mainKw.map (·.1) := List.mem_map.mpr ⟨e, hem, rfl⟩
              rw [hkeys] at this
              obtain ⟨prm, hprm, hpe⟩ := List.mem_map.mp this
              have hty := hvals e hem prm hprm hpe.symm
              have hnk := hmainNeed e hem
              refine ⟨prm, hprm, hpe.symm, ?_, ?_, ?_, by omega⟩
              · rw [← hpe] at hko
                cases g with
                | zero => simp [represent] at hko
                | succ g' =>
                  simp only [strKey, represent, representScalar] at hko
                  cases hko; exact hkn.symm
              · exact hvn ▸ simple_described prm.ty e.2 vo hvo hty (b + 1) (by omega)
              · exact hvn ▸ simple_described prm.ty e.2 vo hvo hty b (by omega))
          have E : All2 (fun e p => ∃ name cs, e.1 = strKey name ∧ p.1 = .scalar tStr name gen ∧
              d.argNames.contains name = false ∧ name ≠ "self" ∧
              construct env tbl (b + 1) (stripTags tbl p.2) = .ok ⟨e.2, cs⟩) extraKw ps2 :=
            all2_imp_mem ha2 (fun e hem p ⟨⟨ko, hko, hkn⟩, ⟨vo, hvo, hvn⟩⟩ => by
              obtain ⟨nm, hnm, hna, hns'⟩ := hext e hem
              have hnk := hextraNeed e hem
              obtain ⟨cs, hc⟩ := construct_plain K env denv tbl g e.2 vo hvo (hplain e hem) (b + 1) (by omega)
              refine ⟨nm, cs, hnm, ?_, hna, hns', hvn ▸ hc⟩
              rw [hnm] at hko
              cases g with
              | zero => simp [represent] at hko
              | succ g' =>
                simp only [strKey, represent, representScalar] at hko
                cases hko; exact hkn.symm)
          -- the keys of the mapping: the parameter names, then the names of the extra attributes
          have hk1 : ps1.map (·.1) = (d.params.map (·.name)).map (fun nm => Node.scalar tStr nm gen) := by
            have e1 : mainKw.map (fun e => keyNodeOf e.1) = ps1.map (·.1) :=
              all2_map_eq (fun e => keyNodeOf e.1) (·.1) A (fun e p ⟨prm, _, h1, h2, _⟩ => by
                simp only [h1, h2, strKey, keyNodeOf])
            rw [← e1]
            have : mainKw.map (fun e => keyNodeOf e.1) = (mainKw.map (·.1)).map keyNodeOf := by
              simp [List.map_map]
            rw [this, hkeys]
            simp [List.map_map, strKey, keyNodeOf, Function.comp]
          have hk2 : ps2.map (·.1) = (extraKw.map (fun e => nameOfKey e.1)).map (fun nm => Node.scalar tStr nm gen) := by
            have e1 : extraKw.map (fun e => Node.scalar tStr (nameOfKey e.1) gen) = ps2.map (·.1) :=
              all2_map_eq (fun e => Node.scalar tStr (nameOfKey e.1) gen) (·.1) E
                (fun e p ⟨nm, cs, h1, h2, _⟩ => by
                  rw [h1, h2]
                  simp only [strKey, nameOfKey])
            rw [← e1]; simp [List.map_map, Function.comp]
          have hnames : ((d.params.map (·.name)) ++ (extraKw.map (fun e => nameOfKey e.1))).Nodup := by
            apply List.nodup_append.mpr
            refine ⟨S.nodup, ?_, ?_⟩
            · -- the extra attributes have different names
              apply List.pairwise_map.mpr
              refine List.Pairwise.imp_of_mem ?_ hkok.2
              intro a c ha hc hac heq
              obtain ⟨sa, hsa, _⟩ := hext a ha
              obtain ⟨sc, hsc, _⟩ := hext c hc
              rw [hsa, hsc, keyEq_str] at hac
              rw [hsa, hsc] at heq
              simp only [strKey, nameOfKey] at heq
              rw [heq] at hac
              simp at hac
            · intro x hx y hy hxy
              obtain ⟨prm, hprm, rfl⟩ := List.mem_map.mp hx
              obtain ⟨e, he, rfl⟩ := List.mem_map.mp hy
              obtain ⟨se, hse, hna, _⟩ := hext e he
              have := (S.args prm hprm).1
              rw [hxy, hse] at this
              simp only [strKey, nameOfKey] at this
              rw [hna] at this; cases this
          have hdist : KeysDistinct (ps1 ++ ps2) := by
            apply keysDistinct_congr (ps1 ++ ps2) _ _ (keysDistinct_of_names _ hnames)
            rw [List.map_append, hk1, hk2]
            simp [List.map_map, Function.comp_def]
          have hall : ∀ prm ∈ d.params, ∃ p ∈ ps1 ++ ps2, p.1.keyIs prm.name = true ∧
              Unique (recognizeReq env b p.2 (.ty prm.ty)) := by
            intro prm hprm
            have : strKey prm.name ∈ mainKw.map (·.1) := by
              rw [hkeys]; exact List.mem_map.mpr ⟨prm, hprm, rfl⟩
            obtain ⟨e, he, hek⟩ := List.mem_map.mp this
            obtain ⟨p, hp, prm', hprm', h1, h2, _, h4, _⟩ := All2.mem_left A e he
            have hnm : prm'.name = prm.name := by
              rw [h1] at hek; simpa [strKey] using hek
            have hpp : prm' = prm := eq_of_name d.params S.nodup prm' hprm' prm hprm hnm
            subst hpp
            exact ⟨p, List.mem_append_left _ hp, by rw [h2]; simp [keyIs_scalar], rt_unique h4⟩
          have hrec := recognize_simple_obj env d S b (ps1 ++ ps2) gen hdist hall
          refine ⟨[okLeaf], hrec, b + 1, rfl, ?_⟩
          refine RTcore.obj d.name _ (Pairs.ofList (ps1 ++ ps2)) gen d mainKw extraKw ps1 ps2 S.found S.kind ?_
          exact {
            sav := by simp [savorize, S.noBases, S.sav]
            psEq := by rw [Pairs.toList_ofList]
            kwEq := by simp [hte]
            noExtra := fun hf' => by rw [hte] at hf'; cases hf'
            main := by
              exact all2_imp_mem A (fun e hem p ⟨prm, hprm, h1, h2, h3, _, hn⟩ =>
                ⟨prm.name, gen, prm, h1, h2, hprm, rfl, h3,
                  hasTyE_typeMatches K env b prm.ty e.2 hn (hvals e hem prm hprm h1)⟩)
            extra := all2_imp_mem E (fun e _ p ⟨nm, cs, h1, h2, h3, h4, h5⟩ => ⟨nm, gen, cs, h1, h2, h3, h4, h5⟩)
            distinct := by simpa [KeysDistinct] using hdist
            required := by
              intro prm hprm _
              have : strKey prm.name ∈ mainKw.map (·.1) := by
                rw [hkeys]; exact List.mem_map.mpr ⟨prm, hprm, rfl⟩
              obtain ⟨e, he, hek⟩ := List.mem_map.mp this
              exact ⟨e, he, hek⟩
            paramsNodup := S.nodup
            argsParams := S.args
            init := by simpa using hinit }
  | objUp base d kw k j L hchain hkK hup hjK hinst hkeys hvals hinit =>
    have e : d.name = base := hsame base d.name kw rfl rfl
    have := desc_objUp K env denv tbl hns g IH base d kw k j L hchain hkK hup hjK hkeys hvals hinit o h f hf
    rw [e] at this ⊢
    exact this
  | any v hp =>
    obtain ⟨cs, hc⟩ := construct_plain K env denv tbl (g + 1) v o h hp (f + 1) (by omega)
    exact ⟨[okLeaf], by simp [recognize, recognizeReq, recOk], f, rfl, RTcore.any v o.node cs hc⟩
  | float r i hfl =>
    simp only [represent, representScalar] at h; cases h
    exact ⟨[okLeaf], by simp [recognize, recognizeReq, recScalar, recOk], f, rfl, RTcore.float r i _ _ hfl⟩
  | path t hp =>
    simp only [represent] at h; cases h
    exact ⟨[okLeaf], by simp [recognize, recognizeReq, recScalar, recOk], f, rfl, RTcore.path t _ hp⟩
  | enum d members name S hk hmem =>
    simp only [represent] at h
    split at h
    · cases h
    · rename_i dd hdd
      rw [(hns dd (C07.find_mem denv d.name dd hdd)).2] at h
      simp only at h
      cases h
      simp only [need] at hf
      obtain ⟨b, rfl⟩ : ∃ b, f = b + 1 := ⟨f - 1, by omega⟩
      exact ⟨[okLeaf], recognize_leaf_class env d S (Or.inl ⟨members, hk⟩) b name gen, b + 1, rfl,
        RTcore.enum d.name name gen d members S.found hk hmem (savorize_leaf env d S _ _)⟩
  | ustr d t S hk hinit =>
    simp only [represent] at h
    split at h
    · cases h
    · rename_i dd hdd
      rw [(hns dd (C07.find_mem denv d.name dd hdd)).2] at h
      simp only at h
      cases h
      simp only [need] at hf
      obtain ⟨b, rfl⟩ : ∃ b, f = b + 1 := ⟨f - 1, by omega⟩
      exact ⟨[okLeaf], recognize_leaf_class env d S (Or.inr hk) b t gen, b + 1, rfl,
        RTcore.userStr d.name t gen d S.found hk hinit (savorize_leaf env d S _ _)⟩
  | str s =>
    simp only [represent, representScalar] at h; cases h
    exact ⟨[okLeaf], by simp [recognize, recognizeReq, recScalar, recOk], f, rfl, RTcore.str s _⟩
  | int i =>
    simp only [represent, representScalar] at h; cases h
    exact ⟨[okLeaf], by simp [recognize, recognizeReq, recScalar, recOk], f, rfl,
      RTcore.int i _ _ (constructInt_int i)⟩
  | bool b =>
    simp only [represent, representScalar] at h; cases h
    refine ⟨[okLeaf], by simp [recognize, recognizeReq, recScalar, recOk], f, rfl, RTcore.bool b _ _ ?_⟩
    cases b <;> decide
  | null =>
    simp only [represent, representScalar] at h; cases h
    exact ⟨[okLeaf], by simp [recognize, recognizeReq, recScalar, recOk], f, rfl, RTcore.null _ _⟩
  | seq k item xs hx =>
    simp only [represent] at h
    split at h
    · cases h
    · rename_i ns tr hitems
      cases h
      simp only [need] at hf
      have ha := repItems_all2 (represent denv g) xs.toList ns tr hitems
      have hrt : All2 (RT env tbl f item) xs.toList ns :=
        all2_imp_mem ha (fun x hxm n ⟨o, ho, hn⟩ => hn ▸
          simple_described item x o ho (hx x hxm) f (by have := needL_mem K xs x hxm; omega))
      have huniq : ∀ n ∈ ns, Unique (recognizeReq env f n (.ty item)) := by
        intro n hn
        obtain ⟨x, _, hr⟩ := all2_mem_right hrt n hn
        exact rt_unique hr
      refine ⟨[okLeaf], ?_, f, rfl, RTcore.seq k item xs (Nodes.ofList ns) _ (by simpa using hrt)⟩
      simp only [recognize, recognizeReq, recList, Nodes.toList_ofList]
      exact recListItems_unique _ _ _ ns huniq
  | map k V kvs hes hev hk =>
    simp only [represent] at h
    split at h
    · cases h
    · rename_i ps tr hpairs
      cases h
      simp only [need] at hf
      have ha := repPairs_all2 (represent denv g) kvs.toList ps tr hpairs
      have hrt : All2 (fun e p => RT env tbl f .str e.1 p.1 ∧ RT env tbl f V e.2 p.2) kvs.toList ps :=
        all2_imp_mem ha (fun e hem p ⟨⟨ko, hko, hkn⟩, ⟨vo, hvo, hvn⟩⟩ => by
          obtain ⟨s, hs⟩ := hes e hem
          have hv := hev e hem
          have hnk := needK_mem K kvs e hem
          have hfp := need_pos K e.2
          refine ⟨?_, hvn ▸ simple_described V e.2 vo hvo hv f (by omega)⟩
          rw [hs] at hko ⊢
          exact hkn ▸ simple_described .str _ ko hko (HasTyE.str s) f (by simp only [need]; omega))
      have huniq : ∀ p ∈ ps, Unique (recognizeReq env f p.1 (.ty .str)) ∧ Unique (recognizeReq env f p.2 (.ty V)) := by
        intro p hp
        obtain ⟨e, _, hr1, hr2⟩ := all2_mem_right hrt p hp
        exact ⟨rt_unique hr1, rt_unique hr2⟩
      refine ⟨[okLeaf], ?_, f, rfl,
        RTcore.map k .str V kvs (Pairs.ofList ps) _ (by simpa using hrt) hk rfl⟩
      simp only [recognize, recognizeReq, recDict, keyTypeOk, Bool.not_true, Bool.false_eq_true, ↓reduceIte,
        Pairs.toList_ofList]
      exact recDictPairs_unique _ _ _ _ ps huniq
  | obj d kw S hte hkeys hvals hinit =>
    simp only [represent] at h
    split at h
    · cases h
    · rename_i dd hdd
      -- no `_yatiml_extra` among the keyword arguments: the attribute list is the argument list
      have hnoextra : ∀ e ∈ kw.toList, (e.1 == PyVal.scalar (.str "_yatiml_extra")) = false := by
        intro e he
        have : e.1 ∈ kw.toList.map (·.1) := List.mem_map.mpr ⟨e, he, rfl⟩
        rw [hkeys] at this
        obtain ⟨prm, hprm, hpe⟩ := List.mem_map.mp this
        rw [← hpe]
        have := (S.args prm hprm).2.1
        simp [strKey, this]
      rw [attributesOf_noExtra kw.toList hnoextra] at h
      split at h
      · cases h
      · rename_i ps tr hpairs
        split at h
        · cases h
        · rename_i n tr' hsw
          cases h
          have := C07.sweeten_id denv hns _ _ dd (C07.find_mem denv d.name dd hdd) _ hsw
          cases this
          simp only [need] at hf
          -- f + 1 ≥ 2 + needK K kw ≥ 3
          obtain ⟨b, rfl⟩ : ∃ b, f = b + 1 := ⟨f - 1, by have := needK_pos K kw; omega⟩
          have ha := repPairs_all2 (represent denv g) kw.toList ps tr hpairs
          -- everything known about one (argument, pair)
          have A : All2 (fun e p => ∃ prm ∈ d.params, e.1 = strKey prm.name ∧ p.1 = .scalar tStr prm.name gen ∧
              RT env tbl (b + 1) prm.ty e.2 p.2 ∧ RT env tbl b prm.ty e.2 p.2 ∧ need K e.2 ≤ b) kw.toList ps :=
            all2_imp_mem ha (fun e hem p ⟨⟨ko, hko, hkn⟩, ⟨vo, hvo, hvn⟩⟩ => by
              have : e.1 ∈ kw.toList.map (·.1) := List.mem_map.mpr ⟨e, hem, rfl⟩
              rw [hkeys] at this
              obtain ⟨prm, hprm, hpe⟩ := List.mem_map.mp this
              have hty := hvals e hem prm hprm hpe.symm
              have hnk := needK_mem K kw e hem
              refine ⟨prm, hprm, hpe.symm, ?_, ?_, ?_, by omega⟩
              · rw [← hpe] at hko
                cases g with
                | zero => simp [represent] at hko
                | succ g' =>
                  simp only [strKey, represent, representScalar] at hko
                  cases hko; exact hkn.symm
              · exact hvn ▸ simple_described prm.ty e.2 vo hvo hty (b + 1) (by omega)
              · exact hvn ▸ simple_described prm.ty e.2 vo hvo hty b (by omega))
          -- the keys of the mapping are the parameter names, in order
          have hpskeys : ps.map (·.1) = (d.params.map (·.name)).map (fun nm => Node.scalar tStr nm gen) := by
            have e1 : kw.toList.map (fun e => keyNodeOf e.1) = ps.map (·.1) :=
              all2_map_eq (fun e => keyNodeOf e.1) (·.1) A (fun e p ⟨prm, _, h1, h2, _⟩ => by
                simp only [h1, h2, strKey, keyNodeOf])
            rw [← e1]
            have : kw.toList.map (fun e => keyNodeOf e.1) = (kw.toList.map (·.1)).map keyNodeOf := by
              simp [List.map_map]
            rw [this, hkeys]
            simp [List.map_map, strKey, keyNodeOf, Function.comp]
          have hdist : KeysDistinct ps := by
            apply keysDistinct_congr ps _ _ (keysDistinct_of_names (d.params.map (·.name)) S.nodup)
            rw [hpskeys]; simp [List.map_map, Function.comp]
          -- every parameter is present exactly once, with a uniquely recognised value
          have hall : ∀ prm ∈ d.params, ∃ p ∈ ps, p.1.keyIs prm.name = true ∧
              Unique (recognizeReq env b p.2 (.ty prm.ty)) := by
            intro prm hprm
            have : strKey prm.name ∈ kw.toList.map (·.1) := by
              rw [hkeys]; exact List.mem_map.mpr ⟨prm, hprm, rfl⟩
            obtain ⟨e, he, hek⟩ := List.mem_map.mp this
            obtain ⟨p, hp, prm', hprm', h1, h2, _, h4, _⟩ := All2.mem_left A e he
            have hnm : prm'.name = prm.name := by
              rw [h1] at hek; simpa [strKey] using hek
            have hpp : prm' = prm := eq_of_name d.params S.nodup prm' hprm' prm hprm hnm
            subst hpp
            exact ⟨p, hp, by rw [h2]; simp [keyIs_scalar], rt_unique h4⟩
          have hrec := recognize_simple_obj env d S b ps gen hdist hall
          refine ⟨[okLeaf], hrec, b + 1, rfl, ?_⟩
          refine RTcore.obj d.name kw (Pairs.ofList ps) gen d kw.toList [] ps [] S.found S.kind ?_
          exact {
            sav := by simp [savorize, S.noBases, S.sav]
            psEq := by rw [Pairs.toList_ofList, List.append_nil]
            kwEq := by simp [hte]
            noExtra := fun _ => rfl
            main := by
              exact all2_imp_mem A (fun e hem p ⟨prm, hprm, h1, h2, h3, _, hn⟩ =>
                ⟨prm.name, gen, prm, h1, h2, hprm, rfl, h3,
                  hasTyE_typeMatches K env b prm.ty e.2 hn (hvals e hem prm hprm h1)⟩)
            extra := All2.nil
            distinct := by simpa [KeysDistinct] using hdist
            required := by
              intro prm hprm _
              have : strKey prm.name ∈ kw.toList.map (·.1) := by
                rw [hkeys]; exact List.mem_map.mpr ⟨prm, hprm, rfl⟩
              obtain ⟨e, he, hek⟩ := List.mem_map.mp this
              exact ⟨e, he, hek⟩
            paramsNodup := S.nodup
            argsParams := S.args
            init := hinit }

/-! ### `Optional[T]` -/

theorem dropBoolFix_single (R : Ty) : dropBoolFix [R] = [R] := by
  unfold dropBoolFix
  split
  · rename_i h
    simp only [List.contains_cons, List.contains_nil, Bool.or_false, Bool.and_eq_true, beq_iff_eq] at h
    obtain ⟨h1, h2⟩ := h
    rw [← h1] at h2; cases h2
  · rfl

/-- recognising `Union[T, None]` when exactly one of the two members recognises the node, as one type -/
theorem recUnion_opt (rec : Node → Ty → RecRes) (n : Node) (T R : Ty) (l1 l2 : List Leaf)
    (h : (rec n T = .ok ([R], l1) ∧ rec n .null = .ok ([], l2)) ∨
         (rec n T = .ok ([], l1) ∧ rec n .null = .ok ([R], l2))) :
    recUnion rec n [T, .null] = .ok ([R], [okLeaf]) := by
  rcases h with ⟨h1, h2⟩ | ⟨h1, h2⟩ <;>
    simp [recUnion, recUnionMembers, h1, h2, unionT, insertT, dropBoolFix_single]

theorem reject_null (env : Env) (T : Ty) (hnn : NonNullTy env T) (b : Nat) (s : String) (m : Mark) :
    ∃ l, recognizeReq env (b + 2) (.scalar tNull s m) (.ty T) = .ok ([], l) := by
  cases hnn with
  | str => simp only [recognizeReq, recScalar, tNull_ne_str, Bool.false_eq_true, if_false, recFail]; exact ⟨_, rfl⟩
  | int => simp only [recognizeReq, recScalar, tNull_ne_int, Bool.false_eq_true, if_false, recFail]; exact ⟨_, rfl⟩
  | bool => simp only [recognizeReq, recScalar, tNull_ne_bool, Bool.false_eq_true, if_false, recFail]; exact ⟨_, rfl⟩
  | seq k item => simp only [recognizeReq, recList, recFail]; exact ⟨_, rfl⟩
  | map k V =>
    simp only [recognizeReq, recDict, keyTypeOk, Bool.not_true, Bool.false_eq_true, if_false, recFail]
    exact ⟨_, rfl⟩
  | cls d S =>
    have hreg := find_isRegistered env d.name d S.found
    simp only [recognizeReq, hreg, if_true, S.found, S.noSub, recSubclasses, List.length_nil, BEq.rfl,
      S.concrete, Bool.false_eq_true, if_false, recUserClass, S.recog, S.kind, recFail, finishClasses,
      List.nil_append]
    exact ⟨_, rfl⟩
  | float => simp only [recognizeReq, recScalar, tNull_ne_float, Bool.false_eq_true, if_false, recFail]; exact ⟨_, rfl⟩
  | path => simp only [recognizeReq, recScalar, tNull_ne_str, Bool.false_eq_true, if_false, recFail]; exact ⟨_, rfl⟩
  | enumCls d members S hk =>
    have hreg := find_isRegistered env d.name d S.found
    simp only [recognizeReq, hreg, if_true, S.found, S.noSub, recSubclasses, List.length_nil, BEq.rfl,
      S.concrete, Bool.false_eq_true, if_false, recUserClass, S.recog, hk, tNull_ne_str, tNull_ne_bool,
      Bool.or_self, recFail, finishClasses, List.nil_append]
    exact ⟨_, rfl⟩
  | strCls d S hk =>
    have hreg := find_isRegistered env d.name d S.found
    simp only [recognizeReq, hreg, if_true, S.found, S.noSub, recSubclasses, List.length_nil, BEq.rfl,
      S.concrete, Bool.false_eq_true, if_false, recUserClass, S.recog, hk, tNull_ne_str,
      recFail, finishClasses, List.nil_append]
    exact ⟨_, rfl⟩

/-- a node that describes a value of a type other than `None` is not recognised as `None` -/
theorem null_rejects (env : Env) (tbl : List Entry) (f : Nat) (rt : Ty → PyVal → Node → Prop)
    (T : Ty) (v : PyVal) (n : Node) (hc : RTcore env tbl f rt T v n) (hnn : NonNullTy env T) (b : Nat) :
    ∃ l, recognizeReq env (b + 1) n (.ty .null) = .ok ([], l) := by
  cases hc with
  | str s m => simp only [recognizeReq, recScalar, tStr_ne_null, Bool.false_eq_true, if_false, recFail]; exact ⟨_, rfl⟩
  | int i s m _ => simp only [recognizeReq, recScalar, tInt_ne_null, Bool.false_eq_true, if_false, recFail]; exact ⟨_, rfl⟩
  | bool b' s m _ => simp only [recognizeReq, recScalar, tBool_ne_null, Bool.false_eq_true, if_false, recFail]; exact ⟨_, rfl⟩
  | seq k item xs ns m _ => simp only [recognizeReq, recScalar, recFail]; exact ⟨_, rfl⟩
  | map k K V kvs ps m _ _ _ => simp only [recognizeReq, recScalar, recFail]; exact ⟨_, rfl⟩
  | enum c name m d members _ _ _ _ =>
    simp only [recognizeReq, recScalar, tStr_ne_null, Bool.false_eq_true, if_false, recFail]; exact ⟨_, rfl⟩
  | userStr c s m d _ _ _ _ =>
    simp only [recognizeReq, recScalar, tStr_ne_null, Bool.false_eq_true, if_false, recFail]; exact ⟨_, rfl⟩
  | obj c kw ps m d _ _ _ _ _ _ _ => simp only [recognizeReq, recScalar, recFail]; exact ⟨_, rfl⟩
  | float _ _ _ _ _ =>
    simp only [recognizeReq, recScalar, tFloat_ne_null, Bool.false_eq_true, if_false, recFail]; exact ⟨_, rfl⟩
  | boolFix _ _ _ _ => cases hnn
  | null _ _ => cases hnn
  | date _ _ _ _ => cases hnn
  | path _ _ _ =>
    simp only [recognizeReq, recScalar, tStr_ne_null, Bool.false_eq_true, if_false, recFail]; exact ⟨_, rfl⟩
  | any _ _ _ _ => cases hnn

theorem nonNull_value (env : Env) (T : Ty) (v : PyVal) (hnn : NonNullTy env T) (h : HasTyE K env T v) :
    v ≠ .scalar .none := by
  intro e
  subst e
  cases h with
  | null => cases hnn
  | any _ _ => cases hnn
  | union _ _ _ _ _ _ _ _ => cases hnn
  | optNoneH _ _ _ _ => cases hnn
  | optNone T' _ => cases hnn
  | optSome T' _ _ _ => cases hnn

/-! ### Unions whose members accept different kinds of node -/

theorem tagne_tStr_tInt : (tStr == tInt) = false := by decide
theorem tagne_tStr_tFloat : (tStr == tFloat) = false := by decide
theorem tagne_tStr_tBool : (tStr == tBool) = false := by decide
theorem tagne_tStr_tNull : (tStr == tNull) = false := by decide
theorem tagne_tInt_tStr : (tInt == tStr) = false := by decide
theorem tagne_tInt_tFloat : (tInt == tFloat) = false := by decide
theorem tagne_tInt_tBool : (tInt == tBool) = false := by decide
theorem tagne_tInt_tNull : (tInt == tNull) = false := by decide
theorem tagne_tFloat_tStr : (tFloat == tStr) = false := by decide
theorem tagne_tFloat_tInt : (tFloat == tInt) = false := by decide
theorem tagne_tFloat_tBool : (tFloat == tBool) = false := by decide
theorem tagne_tFloat_tNull : (tFloat == tNull) = false := by decide
theorem tagne_tBool_tStr : (tBool == tStr) = false := by decide
theorem tagne_tBool_tInt : (tBool == tInt) = false := by decide
theorem tagne_tBool_tFloat : (tBool == tFloat) = false := by decide
theorem tagne_tBool_tNull : (tBool == tNull) = false := by decide
theorem tagne_tNull_tStr : (tNull == tStr) = false := by decide
theorem tagne_tNull_tInt : (tNull == tInt) = false := by decide
theorem tagne_tNull_tFloat : (tNull == tFloat) = false := by decide
theorem tagne_tNull_tBool : (tNull == tBool) = false := by decide

/-- the node has the shape the recogniser takes for kind `k` -/
def NodeIs : Node → NK → Prop
  | .scalar t _ _, .str => t = tStr
  | .scalar t _ _, .int => t = tInt
  | .scalar t _ _, .float => t = tFloat
  | .scalar t _ _, .bool => t = tBool
  | .scalar t _ _, .null => t = tNull
  | .seq _ _ _, .seq => True
  | .map _ _ _, .map => True
  | _, _ => False


/-- a member type does not recognise a node of another kind -/
theorem reject_member (env : Env) (m' : Ty) (k' k : NK) (n : Node) (b : Nat)
    (hm : MemberTy env m' k') (hn : NodeIs n k) (hk : k' ≠ k) :
    Rejects (recognizeReq env (b + 2) n (.ty m')) := by
  cases hm
  case cls d S =>
    have hreg := find_isRegistered env d.name d S.found
    cases n <;> cases k <;> simp only [NodeIs] at hn <;>
      first
      | exact absurd rfl hk
      | (simp only [recognizeReq, hreg, if_true, S.found, S.noSub, recSubclasses, List.length_nil, BEq.rfl,
           S.concrete, Bool.false_eq_true, if_false, recUserClass, S.recog, S.kind, recFail, finishClasses,
           List.nil_append]
         exact ⟨_, rfl⟩)
  all_goals
    cases n <;> cases k <;> simp only [NodeIs] at hn <;>
      first
      | exact absurd rfl hk
      | (subst hn
         simp only [recognizeReq, recScalar, recList, recDict, keyTypeOk, Bool.not_true, Bool.false_eq_true,
           if_false, tagne_tStr_tInt, tagne_tStr_tFloat, tagne_tStr_tBool, tagne_tStr_tNull, tagne_tInt_tStr, tagne_tInt_tFloat, tagne_tInt_tBool, tagne_tInt_tNull, tagne_tFloat_tStr, tagne_tFloat_tInt, tagne_tFloat_tBool, tagne_tFloat_tNull, tagne_tBool_tStr, tagne_tBool_tInt, tagne_tBool_tFloat, tagne_tBool_tNull, tagne_tNull_tStr, tagne_tNull_tInt, tagne_tNull_tFloat, tagne_tNull_tBool]
         exact rejects_recFail _ _)
      | (simp only [recognizeReq, recScalar, recList, recDict, keyTypeOk, Bool.not_true, Bool.false_eq_true,
           if_false]
         exact rejects_recFail _ _)

/-- the node of a value of a member type has that member's kind -/
theorem rtcore_kind (env : Env) (tbl : List Entry) (f : Nat) (rt : Ty → PyVal → Node → Prop)
    (m : Ty) (k : NK) (v : PyVal) (n : Node) (hc : RTcore env tbl f rt m v n) (hm : MemberTy env m k) :
    NodeIs n k := by
  cases hm
  case cls d S =>
    cases hc with
    | obj c kw ps m d' _ _ _ _ _ _ _ => simp [NodeIs]
    | enum c name m d' members hf hk _ _ => rw [S.found] at hf; cases hf; rw [S.kind] at hk; cases hk
    | userStr c s m d' hf hk _ _ => rw [S.found] at hf; cases hf; rw [S.kind] at hk; cases hk
  all_goals (cases hc <;> simp [NodeIs])


/-- if every member either recognises the node as `R` or rejects it, the accumulated set is `{}` or `{R}`,
and it is `{R}` as soon as one member recognised the node -/
theorem recUnionMembers_one (rec : Node → Ty → RecRes) (n : Node) (R : Ty) :
    ∀ (ms : List Ty) (acc : UnionAcc),
      (∀ m' ∈ ms, (∃ l, rec n m' = .ok ([R], l)) ∨ Rejects (rec n m')) →
      (acc.types = [] ∨ acc.types = [R]) →
      ∃ acc', recUnionMembers rec n ms acc = .ok acc' ∧ (acc'.types = [] ∨ acc'.types = [R]) ∧
        ((acc.types = [R] ∨ ∃ m' ∈ ms, ∃ l, rec n m' = .ok ([R], l)) → acc'.types = [R])
  | [], acc, _, ha => ⟨acc, rfl, ha, fun h => by
      rcases h with h | ⟨m', hm', _⟩
      · exact h
      · cases hm'⟩
  | m' :: ms, acc, hall, ha => by
    rcases hall m' (by simp) with ⟨l, hr⟩ | ⟨l, hr⟩
    · -- this member recognises the node
      have hacc1 : unionT acc.types [R] = [R] := by
        rcases ha with h | h <;> rw [h]
        · exact unionT_nil_single R
        · exact unionT_single_single R
      obtain ⟨acc', h1, h2, h3⟩ := recUnionMembers_one rec n R ms
        { types := unionT acc.types [R], causes := acc.causes }
        (fun x hx => hall x (by simp [hx])) (Or.inr hacc1)
      refine ⟨acc', ?_, h2, fun _ => h3 (Or.inl hacc1)⟩
      simp [recUnionMembers, hr, h1]
    · -- this member rejects it
      obtain ⟨acc', h1, h2, h3⟩ := recUnionMembers_one rec n R ms
        { types := acc.types, causes := acc.causes ++ [l] }
        (fun x hx => hall x (by simp [hx])) ha
      refine ⟨acc', ?_, h2, ?_⟩
      · simp [recUnionMembers, hr, unionT_nil_right, h1]
      · intro h
        apply h3
        rcases h with h | ⟨x, hx, lx, hxr⟩
        · exact Or.inl h
        · rcases List.mem_cons.mp hx with rfl | hx'
          · rw [hr] at hxr; cases hxr
          · exact Or.inr ⟨x, hx', lx, hxr⟩

theorem recUnion_one (rec : Node → Ty → RecRes) (n : Node) (R : Ty) (ms : List Ty)
    (hall : ∀ m' ∈ ms, (∃ l, rec n m' = .ok ([R], l)) ∨ Rejects (rec n m'))
    (hone : ∃ m' ∈ ms, ∃ l, rec n m' = .ok ([R], l)) :
    recUnion rec n ms = .ok ([R], [okLeaf]) := by
  obtain ⟨acc', h1, _, h3⟩ := recUnionMembers_one rec n R ms ⟨[], []⟩ hall (Or.inl rfl)
  have := h3 (Or.inr hone)
  simp [recUnion, h1, this, dropBoolFix_single]

theorem chain_noSub (env : Env) (lp : List Param) (H : Nat) (base c : String) (k : Nat)
    (h : Chain env lp H base c k) (hs : env.directSubclasses base = []) : c = base := by
  cases h with
  | here => rfl
  | step _ _ _ _ bd md _ hmem _ _ _ => rw [hs] at hmem; cases hmem

/-- a value typed at a class without registered subclasses is an object of that very class -/
theorem same_of_noSub (K : Nat) (env : Env) (T : Ty) (v : PyVal) (h : HasTyE K env T v)
    (hns : ∀ base, T = .cls base → env.directSubclasses base = []) :
    ∀ base c kw, T = .cls base → v = .obj c kw → c = base := by
  intro base c kw h1 h2
  cases h with
  | obj d kw' _ _ _ _ _ => cases h1; cases h2; rfl
  | objX d mainKw extraKw _ _ _ _ _ _ _ _ => cases h1; cases h2; rfl
  | objUp base' d kw' k j _ hchain _ _ _ _ _ _ _ =>
    cases h1; cases h2
    exact chain_noSub env d.params K base d.name k hchain (hns base rfl)
  | str _ => cases h1
  | int _ => cases h1
  | bool _ => cases h1
  | null => cases h1
  | seq _ _ _ _ => cases h1
  | map _ _ _ _ _ _ => cases h1
  | float _ _ _ => cases h1
  | path _ _ => cases h1
  | enum _ _ _ _ _ _ => cases h2
  | ustr _ _ _ _ _ => cases h2
  | any _ _ => cases h1
  | optNone _ _ => cases h1
  | optSome _ _ _ _ => cases h1
  | union _ _ _ _ _ _ _ _ => cases h1
  | optNoneH _ _ _ _ => cases h1
  | optSomeH _ _ _ _ _ _ _ _ _ _ _ _ _ _ => cases h1

theorem nosub_of_nonnull (env : Env) (T : Ty) (h : NonNullTy env T) :
    ∀ base, T = .cls base → env.directSubclasses base = [] := by
  intro base e
  cases h with
  | cls d S => cases e; exact S.noSub
  | enumCls d _ S _ => cases e; exact S.noSub
  | strCls d S _ => cases e; exact S.noSub
  | str => cases e
  | int => cases e
  | bool => cases e
  | seq _ _ => cases e
  | map _ _ => cases e
  | float => cases e
  | path => cases e

theorem nosub_of_member (env : Env) (T : Ty) (k : NK) (h : MemberTy env T k) :
    ∀ base, T = .cls base → env.directSubclasses base = [] := by
  intro base e
  cases h with
  | cls d S => cases e; exact S.noSub
  | str => cases e
  | path => cases e
  | int => cases e
  | float => cases e
  | bool => cases e
  | null => cases e
  | seq _ _ => cases e
  | map _ _ => cases e

theorem represent_obj_map (denv : DumpEnv) (hns : C07.NoSweeten denv) (g : Nat) (c : String) (kw : PyKVs)
    (o : RepOut) (h : represent denv (g + 1) (.obj c kw) = .ok o) :
    ∃ ps, o.node = .map tMap (Pairs.ofList ps) gen := by
  simp only [represent] at h
  split at h
  · cases h
  · rename_i dd hdd
    split at h
    · cases h
    · rename_i ps tr hpairs
      split at h
      · cases h
      · rename_i n tr' hsw
        cases h
        have := C07.sweeten_id denv hns _ _ dd (C07.find_mem denv c dd hdd) _ hsw
        cases this
        exact ⟨ps, rfl⟩

/-- a hierarchy of plain classes without custom recognisers does not take a scalar -/
theorem hier_rejects_scalar (env : Env) (t v : String) (m : Mark) :
    ∀ (s : String) (H : Nat), PlainHier env s H → ∀ (f : Nat), H ≤ f → ∀ top,
      Rejects (recognizeReq env f (.scalar t v m) (.classes s top)) := by
  intro s H h
  induction h with
  | mk s sd h H hf hrecog hkind _ hlt ih =>
    intro f hfuel top
    obtain ⟨f', rfl⟩ : ∃ f', f = f' + 1 := ⟨f - 1, by omega⟩
    have hsubs : ∀ u ∈ env.directSubclasses s,
        (∃ l, recognizeReq env f' (.scalar t v m) (.classes u.name false) = .ok ([Ty.any], l)) ∨
        Rejects (recognizeReq env f' (.scalar t v m) (.classes u.name false)) :=
      fun u hu => Or.inr (ih u hu f' (by omega) false)
    obtain ⟨acc', h1, _, _, h4⟩ := recSubclasses_one
      (fun u => recognizeReq env f' (.scalar t v m) (.classes u.name false)) Ty.any
      (env.directSubclasses s) ⟨[], []⟩ hsubs (Or.inl rfl)
    have hempty : acc'.types = [] := h4 ⟨rfl, fun u hu => ih u hu f' (by omega) false⟩
    cases hab : sd.abstract
    · simp only [recognizeReq, hf, h1, hempty, List.length_nil, BEq.rfl, if_true, hab, Bool.false_eq_true,
        if_false, recUserClass, hrecog, hkind, recFail, finishClasses]
      exact ⟨_, rfl⟩
    · simp only [recognizeReq, hf, h1, hempty, List.length_nil, BEq.rfl, if_true, hab, finishClasses]
      exact ⟨_, rfl⟩

theorem plainHier_found (env : Env) (s : String) (H : Nat) (h : PlainHier env s H) : ∃ sd, env.find s = some sd := by
  cases h with
  | mk _ sd _ _ hf _ _ _ _ => exact ⟨sd, hf⟩

/-- **The representers' node describes the value**, for plain data, objects of simple classes and
`Optional` positions, nested to any depth: recognition singles out one type at every node, and the node has
the shape the loader turns back into the value. -/
theorem simple_described (K : Nat) (env : Env) (denv : DumpEnv) (tbl : List Entry) (hns : C07.NoSweeten denv) :
    ∀ (g : Nat) (T : Ty) (v : PyVal) (o : RepOut), represent denv g v = .ok o → HasTyE K env T v →
      ∀ f, need K v ≤ f → Desc env tbl f T v o.node
  | 0, _, _, _, h, _, _, _ => by simp [represent] at h
  | g + 1, T, v, o, h, ht, f, hf => by
    have IH := simple_described K env denv tbl hns g
    have core := desc_core K env denv tbl hns g IH
    have plain : ∀ (hno : ∀ ms, T ≠ Ty.union ms)
        (hsame : ∀ base c kw, T = .cls base → v = .obj c kw → c = base), Desc env tbl f T v o.node := by
      intro hno hsame
      exact ⟨T, core T v o h ht hno hsame f (by omega)⟩
    cases ht with
    | str s => exact plain (by intro ms e; cases e) (by intro base c kw h1 h2; first | (cases h1; done) | (cases h2; done) | (cases h1; cases h2; done) | (cases h1; cases h2; rfl))
    | int i => exact plain (by intro ms e; cases e) (by intro base c kw h1 h2; first | (cases h1; done) | (cases h2; done) | (cases h1; cases h2; done) | (cases h1; cases h2; rfl))
    | bool b => exact plain (by intro ms e; cases e) (by intro base c kw h1 h2; first | (cases h1; done) | (cases h2; done) | (cases h1; cases h2; done) | (cases h1; cases h2; rfl))
    | null => exact plain (by intro ms e; cases e) (by intro base c kw h1 h2; first | (cases h1; done) | (cases h2; done) | (cases h1; cases h2; done) | (cases h1; cases h2; rfl))
    | seq k item xs hx => exact plain (by intro ms e; cases e) (by intro base c kw h1 h2; first | (cases h1; done) | (cases h2; done) | (cases h1; cases h2; done) | (cases h1; cases h2; rfl))
    | map k V kvs hk hv hko => exact plain (by intro ms e; cases e) (by intro base c kw h1 h2; first | (cases h1; done) | (cases h2; done) | (cases h1; cases h2; done) | (cases h1; cases h2; rfl))
    | obj d kw hS h0 h1 h2 h3 => exact plain (by intro ms e; cases e) (by intro base c kw h1 h2; first | (cases h1; done) | (cases h2; done) | (cases h1; cases h2; done) | (cases h1; cases h2; rfl))
    | objX d mainKw extraKw hS h0 h1 h2 h3 h4 h5 h6 => exact plain (by intro ms e; cases e) (by intro base c kw h1 h2; first | (cases h1; done) | (cases h2; done) | (cases h1; cases h2; done) | (cases h1; cases h2; rfl))
    | objUp base d kw k j L hchain hkK hup hjK hinst hkeys hvals hinit =>
      obtain ⟨f', rfl⟩ : ∃ f', f = f' + 1 := ⟨f - 1, by have := need_pos K (.obj d.name kw); omega⟩
      exact ⟨.cls d.name, desc_objUp K env denv tbl hns g IH base d kw k j L hchain hkK hup hjK hkeys hvals
        hinit o h f' (by omega)⟩
    | float r i h1 => exact plain (by intro ms e; cases e) (by intro base c kw h1 h2; first | (cases h1; done) | (cases h2; done) | (cases h1; cases h2; done) | (cases h1; cases h2; rfl))
    | path t h1 => exact plain (by intro ms e; cases e) (by intro base c kw h1 h2; first | (cases h1; done) | (cases h2; done) | (cases h1; cases h2; done) | (cases h1; cases h2; rfl))
    | enum d members name h1 h2 h3 => exact plain (by intro ms e; cases e) (by intro base c kw h1 h2; first | (cases h1; done) | (cases h2; done) | (cases h1; cases h2; done) | (cases h1; cases h2; rfl))
    | ustr d t h1 h2 h3 => exact plain (by intro ms e; cases e) (by intro base c kw h1 h2; first | (cases h1; done) | (cases h2; done) | (cases h1; cases h2; done) | (cases h1; cases h2; rfl))
    | any v h1 => exact plain (by intro ms e; cases e) (by intro base c kw h1 h2; first | (cases h1; done) | (cases h2; done) | (cases h1; cases h2; done) | (cases h1; cases h2; rfl))
    | union ms m k v hmem hmt hothers hin =>
      have hnu := memberTy_not_union env m k hmt
      have hpos := need_pos K v
      obtain ⟨f', rfl⟩ : ∃ f', f = f' + 1 := ⟨f - 1, by omega⟩
      obtain ⟨l1, hr1, _, _, _⟩ := core m v o h hin hnu (same_of_noSub K env m v hin (nosub_of_member env m k hmt)) f' (by omega)
      obtain ⟨l2, _, fb, hfb, hcore⟩ := core m v o h hin hnu (same_of_noSub K env m v hin (nosub_of_member env m k hmt)) (f' + 1) (by omega)
      have hfb' : fb = f' := by omega
      rw [hfb'] at hcore
      obtain ⟨b, rfl⟩ : ∃ b, f' = b + 2 := ⟨f' - 2, by omega⟩
      have hkind := rtcore_kind env tbl (b + 2) _ m k v o.node hcore hmt
      have hrec : recognize env (b + 2 + 1) o.node (.union ms) = .ok ([m], [okLeaf]) := by
        simp only [recognize, recognizeReq]
        refine recUnion_one _ _ m ms.toList ?_ ⟨m, hmem, l1, hr1⟩
        intro m' hm'
        by_cases hmm : m' = m
        · subst hmm; exact Or.inl ⟨l1, hr1⟩
        · obtain ⟨k', hmt', hkk⟩ := hothers m' hm' hmm
          exact Or.inr (reject_member env m' k' k o.node b hmt' hkind hkk)
      exact ⟨m, [okLeaf], hrec, b + 2, rfl, hcore⟩
    | optNoneH base H hph hHK =>
      simp only [represent, representScalar] at h; cases h
      simp only [need] at hf
      obtain ⟨b, rfl⟩ : ∃ b, f = b + 2 := ⟨f - 2, by omega⟩
      obtain ⟨sd, hsd⟩ := plainHier_found env base H hph
      have hreg := find_isRegistered env base sd hsd
      -- the fuel bound does not mention `H`: state the requirement explicitly
      by_cases hfuel : H ≤ b
      · obtain ⟨l1, h1⟩ := hier_rejects_scalar env tNull "null" gen base H hph b hfuel true
        have h1' : recognizeReq env (b + 1) (.scalar tNull "null" gen) (.ty (.cls base)) = .ok ([], l1) := by
          simp only [recognizeReq, hreg, if_true]; exact h1
        have h2 : recognizeReq env (b + 1) (.scalar tNull "null" gen) (.ty .null) = .ok ([.null], [okLeaf]) := by
          simp [recognizeReq, recScalar, recOk]
        have hrec : recognize env (b + 2) (.scalar tNull "null" gen) (optTy (.cls base)) = .ok ([.null], [okLeaf]) := by
          simp only [recognize, optTy, recognizeReq, Tys.toList]
          exact recUnion_opt _ _ (.cls base) .null l1 [okLeaf] (Or.inr ⟨h1', h2⟩)
        exact ⟨.null, [okLeaf], hrec, b + 1, rfl, RTcore.null "null" gen⟩
      · exfalso; omega
    | optSomeH base d kw k j L hchain hkK hup hjK hinst hkeys hvals hinit =>
      have hpos := need_pos K (.obj d.name kw)
      obtain ⟨f', rfl⟩ : ∃ f', f = f' + 1 := ⟨f - 1, by omega⟩
      obtain ⟨f'', rfl⟩ : ∃ f'', f' = f'' + 1 := ⟨f' - 1, by omega⟩
      -- the member `Base`, one level down (recognised as the leaf class), and at this level (for the shape)
      obtain ⟨l1, hr1, _, _, _⟩ := desc_objUp K env denv tbl hns g IH base d kw k j L hchain hkK hup hjK hkeys
        hvals hinit o h f'' (by omega)
      obtain ⟨l2, _, fb, hfb, hcore⟩ := desc_objUp K env denv tbl hns g IH base d kw k j L hchain hkK hup hjK hkeys
        hvals hinit o h (f'' + 1) (by omega)
      have hfb' : fb = f'' + 1 := by omega
      rw [hfb'] at hcore
      obtain ⟨ps, hn⟩ := represent_obj_map denv hns g d.name kw o h
      have hr3 : ∃ l3, recognizeReq env (f'' + 1) o.node (.ty .null) = .ok ([], l3) := by
        rw [hn]; simp only [recognizeReq, recScalar, recFail]; exact ⟨_, rfl⟩
      obtain ⟨l3, hr3⟩ := hr3
      have hrec : recognize env (f'' + 1 + 1) o.node (optTy (.cls base)) = .ok ([.cls d.name], [okLeaf]) := by
        simp only [recognize, optTy, recognizeReq, Tys.toList]
        exact recUnion_opt _ _ (.cls base) (.cls d.name) l1 l3 (Or.inl ⟨hr1, hr3⟩)
      exact ⟨.cls d.name, [okLeaf], hrec, f'' + 1, rfl, hcore⟩
    | optNone T hnn =>
      simp only [represent, representScalar] at h; cases h
      simp only [need] at hf
      obtain ⟨b, rfl⟩ : ∃ b, f = b + 3 := ⟨f - 3, by omega⟩
      obtain ⟨l1, h1⟩ := reject_null env T hnn b "null" gen
      have h2 : recognizeReq env (b + 2) (.scalar tNull "null" gen) (.ty .null) = .ok ([.null], [okLeaf]) := by
        simp [recognizeReq, recScalar, recOk]
      have hrec : recognize env (b + 3) (.scalar tNull "null" gen) (optTy T) = .ok ([.null], [okLeaf]) := by
        simp only [recognize, optTy, recognizeReq, Tys.toList]
        exact recUnion_opt _ _ T .null l1 [okLeaf] (Or.inr ⟨h1, h2⟩)
      exact ⟨.null, [okLeaf], hrec, b + 2, rfl, RTcore.null "null" gen⟩
    | optSome T v hnn hin =>
      have hno := nonNull_not_opt env T hnn
      have hv := nonNull_value env T v hnn hin
      have hpos := need_pos K v
      obtain ⟨f', rfl⟩ : ∃ f', f = f' + 1 := ⟨f - 1, by omega⟩
      -- the member `T`, one level down, and at this level (for the shape)
      obtain ⟨l1, hr1, fa, hfa, _⟩ := core T v o h hin hno (same_of_noSub K env T v hin (nosub_of_nonnull env T hnn)) f' (by omega)
      obtain ⟨l2, _, fb, hfb, hcore⟩ := core T v o h hin hno (same_of_noSub K env T v hin (nosub_of_nonnull env T hnn)) (f' + 1) (by omega)
      have hfb' : fb = f' := by omega
      rw [hfb'] at hcore
      obtain ⟨f'', rfl⟩ : ∃ f'', f' = f'' + 1 := ⟨f' - 1, by omega⟩
      obtain ⟨l3, hr3⟩ := null_rejects env tbl (f'' + 1) _ T v o.node hcore hnn f''
      have hrec : recognize env (f'' + 1 + 1) o.node (optTy T) = .ok ([T], [okLeaf]) := by
        simp only [recognize, optTy, recognizeReq, Tys.toList]
        exact recUnion_opt _ _ T T l1 l3 (Or.inl ⟨hr1, hr3⟩)
      exact ⟨T, [okLeaf], hrec, f'' + 1, rfl, hcore⟩

end YatimlModel.C05

namespace YatimlModel.C05
open YatimlModel

/-- **Round trip for simple objects (node level), closed form.**  For every class model, resolver table
and value made of plain data (strings, integers, booleans, `None`, floats whose `repr` CPython's
`float()` reads back, paths, lists, string-keyed dicts), members of enums and string-likes without hooks,
objects of *simple* classes (plain, no hooks, no registered bases or subclasses, not abstract; with or
without `_yatiml_extra`, whose extra attributes hold plain data), `Optional[...]` positions, Unions whose
members accept pairwise different kinds of node, and objects of a leaf class declared as one of its
registered ancestors (at most `K` steps up; the sibling subtrees next to the path reject the mapping, each
for lack of a required parameter; also behind an `Optional`), nested to any depth: if the dump side has no
`_yatiml_sweeten` hooks, the node tree the representers build loads back — with enough fuel for the
depth of the value — as exactly that value: same classes, equal attribute values, same list and mapping
order.  No precondition about recognition: its uniqueness at every node is derived. -/
theorem C05_simple_objects_roundtrip (K : Nat) (env : Env) (denv : DumpEnv) (tbl : List Entry)
    (hns : C07.NoSweeten denv) (g f : Nat) (T : Ty) (v : PyVal) (o : RepOut)
    (hrep : represent denv g v = .ok o) (hty : HasTyE K env T v) (hf : need K v ≤ f) :
    ∃ calls trace processed, loadNode env tbl f o.node T = .ok ⟨v, calls, trace, processed⟩ :=
  (simple_described K env denv tbl hns g T v o hrep hty f hf).elim
    (fun _ hR => RT_load env tbl f T v o.node (desc_rt hR))

end YatimlModel.C05

/-! ### non-vacuity: a concrete simple class model and object -/
namespace YatimlModel.C05
open YatimlModel

def pointD : ClassDef :=
  { name := "Point", bases := [], ancestors := [], kind := .plain, abstract := false,
    params := [⟨"x", .int, true, true⟩, ⟨"label", .str, true, false⟩], argNames := ["x", "label"],
    extraTy := none, recognize := none, savorize := none, initRaises := fun _ => false }
def lineD : ClassDef :=
  { name := "Line", bases := [], ancestors := [], kind := .plain, abstract := false,
    params := [⟨"start", .cls "Point", true, true⟩, ⟨"via", .seq .sequence (.cls "Point"), true, true⟩],
    argNames := ["start", "via"], extraTy := none, recognize := none, savorize := none,
    initRaises := fun _ => false }
def extE : Ext := { yamlFloat := fun _ => none, yamlTimestamp := fun _ => none, yamlBinary := fun _ => none }
def envS : Env := { registered := [pointD, lineD], ext := extE }

theorem pointD_simple : SimpleClass envS pointD :=
  { found := rfl, kind := rfl, recog := rfl, sav := rfl, noBases := rfl, concrete := rfl,
    noSub := by decide, nodup := by decide,
    args := by intro prm hp; simp [pointD] at hp; rcases hp with rfl | rfl <;> decide }
theorem lineD_simple : SimpleClass envS lineD :=
  { found := rfl, kind := rfl, recog := rfl, sav := rfl, noBases := rfl, concrete := rfl,
    noSub := by decide, nodup := by decide,
    args := by intro prm hp; simp [lineD] at hp; rcases hp with rfl | rfl <;> decide }

def pointV (x : Int) (l : String) : PyVal :=
  .obj "Point" (PyKVs.ofList [(strKey "x", .scalar (.int x)), (strKey "label", .scalar (.str l))])

theorem pointV_typed (x : Int) (l : String) : HasTyE 0 envS (.cls "Point") (pointV x l) := by
  refine HasTyE.obj pointD _ pointD_simple (by decide) rfl ?_ rfl
  intro e he prm hp hk
  simp [PyKVs.ofList, PyKVs.toList] at he
  simp [pointD] at hp
  rcases he with rfl | rfl <;> rcases hp with rfl | rfl <;> simp [strKey] at hk <;>
    first | exact HasTyE.int _ | exact HasTyE.str _

-- a class that takes `_yatiml_extra`
def openD : ClassDef :=
  { name := "Open", bases := [], ancestors := [], kind := .plain, abstract := false,
    params := [⟨"a", .int, true, true⟩], argNames := ["a", "_yatiml_extra"],
    extraTy := none, recognize := none, savorize := none, initRaises := fun _ => false }
def envX : Env := { registered := [openD], ext := extE }
theorem openD_simple : SimpleClass envX openD :=
  { found := rfl, kind := rfl, recog := rfl, sav := rfl, noBases := rfl, concrete := rfl,
    noSub := by decide, nodup := by decide,
    args := by intro prm hp; simp [openD] at hp; subst hp; decide }

example : HasTyE 0 envX (.cls "Open")
    (.obj "Open" (PyKVs.ofList ([(strKey "a", .scalar (.int 1))] ++
      [(strKey "_yatiml_extra", .dict (PyKVs.ofList [(strKey "zz", .scalar (.str "1e5")),
        (strKey "n", .list (PyVals.ofList [.scalar (.int 1), .scalar .none]))]))]))) := by
  refine HasTyE.objX openD _ _ openD_simple (by decide) rfl ?_ ?_ ?_ ?_ rfl
  · intro e he prm hp hk
    simp at he; subst he
    simp [openD] at hp; subst hp
    exact HasTyE.int 1
  · intro e he
    simp at he
    rcases he with rfl | rfl
    · exact ⟨"zz", rfl, by decide, by decide⟩
    · exact ⟨"n", rfl, by decide, by decide⟩
  · intro e he
    simp at he
    rcases he with rfl | rfl
    · exact PlainAny.str _
    · refine PlainAny.list _ ?_
      intro x hx
      simp [PyVals.ofList, PyVals.toList] at hx
      rcases hx with rfl | rfl
      · exact PlainAny.int 1
      · exact PlainAny.null
  · constructor
    · intro e he; simp at he; rcases he with rfl | rfl <;> rfl
    · simp [strKey, keyEq, numKey]

-- a hierarchy with siblings: `Circle(Shape)` and `Square(Shape)`; a `Circle` where a `Shape` is declared
def shapeD : ClassDef :=
  { name := "Shape", bases := [], ancestors := [], kind := .plain, abstract := true,
    params := [⟨"name", .str, true, true⟩], argNames := ["name"],
    extraTy := none, recognize := none, savorize := none, initRaises := fun _ => false }
def circleD : ClassDef :=
  { name := "Circle", bases := ["Shape"], ancestors := ["Shape"], kind := .plain, abstract := false,
    params := [⟨"name", .str, true, true⟩, ⟨"radius", .int, true, true⟩], argNames := ["name", "radius"],
    extraTy := none, recognize := none, savorize := none, initRaises := fun _ => false }
def squareD : ClassDef :=
  { name := "Square", bases := ["Shape"], ancestors := ["Shape"], kind := .plain, abstract := false,
    params := [⟨"name", .str, true, true⟩, ⟨"side", .int, true, true⟩], argNames := ["name", "side"],
    extraTy := none, recognize := none, savorize := none, initRaises := fun _ => false }
def envH : Env := { registered := [shapeD, circleD, squareD], ext := extE }

theorem circleD_leaf : HierLeaf envH circleD :=
  { found := rfl, kind := rfl, recog := rfl, concrete := rfl, noExtra := by decide, noSub := by decide,
    nodup := by decide,
    args := by intro prm hp; simp [circleD] at hp; rcases hp with rfl | rfl <;> decide }

-- `Square` (which has no registered subclasses) rejects a mapping with the keys of a `Circle`: `side` is missing
theorem square_rejects : SubtreeRejects envH circleD.params "Square" 1 := by
  refine SubtreeRejects.mk "Square" squareD 0 1 rfl rfl rfl ?_ ?_ (by decide)
  · refine Or.inr ⟨[⟨"name", .str, true, true⟩], ⟨"side", .int, true, true⟩, [], rfl, rfl, by decide, by decide, ?_⟩
    intro q hq
    simp at hq
    subst hq
    exact Or.inl ⟨⟨"name", .str, true, true⟩, by simp [circleD], rfl, rfl⟩
  · intro t ht
    have : t ∈ ([] : List ClassDef) := ht
    cases this

example : HasTyE 1 envH (.cls "Shape")
    (.obj "Circle" (PyKVs.ofList [(strKey "name", .scalar (.str "c1")), (strKey "radius", .scalar (.int 2))])) := by
  refine HasTyE.objUp "Shape" circleD _ 1 1 circleD_leaf ?_ (by decide) ?_ (by decide) (Or.inr (by decide)) rfl ?_ rfl
  · refine Chain.step "Shape" "Circle" "Circle" 0 shapeD circleD rfl ?_ rfl ?_ (Chain.here "Circle")
    · show circleD ∈ [circleD, squareD]; simp
    · intro s hs hne
      have : s ∈ [circleD, squareD] := hs
      simp at this
      rcases this with rfl | rfl
      · exact absurd rfl hne
      · exact square_rejects
  · exact UpChain.step circleD shapeD 0 rfl (by rfl) (UpChain.root shapeD rfl (by rfl))
  · intro e he prm hp hk
    simp [PyKVs.ofList, PyKVs.toList] at he
    simp [circleD] at hp
    rcases he with rfl | rfl <;> rcases hp with rfl | rfl <;> simp [strKey] at hk <;>
      first | exact HasTyE.str _ | exact HasTyE.int _

-- `Optional[Shape]`: `None`, and a `Circle`
theorem shape_plainHier : PlainHier envH "Shape" 2 := by
  refine PlainHier.mk "Shape" shapeD 1 2 rfl rfl rfl ?_ (by decide)
  intro t ht
  have : t ∈ [circleD, squareD] := ht
  simp at this
  rcases this with rfl | rfl
  · exact PlainHier.mk "Circle" circleD 0 1 rfl rfl rfl (fun u hu => by have : u ∈ ([] : List ClassDef) := hu; cases this) (by decide)
  · exact PlainHier.mk "Square" squareD 0 1 rfl rfl rfl (fun u hu => by have : u ∈ ([] : List ClassDef) := hu; cases this) (by decide)

example : HasTyE 2 envH (optTy (.cls "Shape")) (.scalar .none) := HasTyE.optNoneH "Shape" 2 shape_plainHier (by decide)

-- `Union[int, str, Sequence[int], Point]`: members that take different kinds of node; a string spelt `12`
example : HasTyE 0 envS (.union (Tys.ofList [.int, .str, .seq .sequence .int, .cls "Point"])) (.scalar (.str "12")) := by
  refine HasTyE.union _ .str .str _ (by simp [Tys.ofList, Tys.toList]) MemberTy.str ?_ (HasTyE.str _)
  intro m' hm' hne
  simp [Tys.ofList, Tys.toList] at hm'
  rcases hm' with rfl | rfl | rfl | rfl
  · exact ⟨.int, MemberTy.int, by decide⟩
  · exact absurd rfl hne
  · exact ⟨.seq, MemberTy.seq _ _, by decide⟩
  · exact ⟨.map, MemberTy.cls pointD pointD_simple, by decide⟩

-- `Optional[Point]` positions: `None` and a `Point`
example : HasTyE 0 envS (optTy (.cls "Point")) (.scalar .none) := HasTyE.optNone _ (NonNullTy.cls pointD pointD_simple)
example : HasTyE 0 envS (optTy (.cls "Point")) (pointV 7 "null") :=
  HasTyE.optSome _ _ (NonNullTy.cls pointD pointD_simple) (pointV_typed _ _)

example : HasTyE 0 envS (.cls "Line")
    (.obj "Line" (PyKVs.ofList [(strKey "start", pointV 1 "1e5"),
      (strKey "via", .list (PyVals.ofList [pointV 2 "true", pointV (-3) "~"]))])) := by
  refine HasTyE.obj lineD _ lineD_simple (by decide) rfl ?_ rfl
  intro e he prm hp hk
  simp [PyKVs.ofList, PyKVs.toList] at he
  simp [lineD] at hp
  rcases he with rfl | rfl <;> rcases hp with rfl | rfl <;> simp [strKey] at hk
  · exact pointV_typed _ _
  · refine HasTyE.seq _ _ _ ?_
    intro y hy
    simp [PyVals.ofList, PyVals.toList] at hy
    rcases hy with rfl | rfl <;> exact pointV_typed _ _

end YatimlModel.C05
