import YatimlModel.Props.C06
import YatimlModel.Props.C09
import YatimlModel.Props.C15
import YatimlModel.Gen.LoaderResolvers
/-!
# C05 — loading what was dumped gives back an equal object (YAML round trip)

Node/scalar-level part.  The text layer (PyYAML's emitter and scanner) is not modelled; its contract
(assumption A-text of DESIGN.md) is: a scalar the serializer marks *implicit* is written plain and is
re-read with the tag the **loader's** resolver gives its text; a string that would not resolve to `str`
is written quoted and re-read as `str`.  Under that contract the round trip of scalars comes down to the
statements about the two regenerated resolver tables proved here.
-/
namespace YatimlModel.C05
open YatimlModel YatimlModel.Gen NodeOps Re

/-! ## strings: whatever the Dumper leaves unquoted, the Loader reads as a string -/

theorem resolve_of_match (tbl : List Entry) (s : List Nat) (T : RTag) (h : resolve tbl s = T)
    (hT : T ≠ tagStr) : ∃ e ∈ tbl, e.tag = T ∧ e.matches s = true := by
  unfold resolve at h
  split at h
  · rename_i e he
    exact ⟨e, List.mem_of_find?_eq_some he, h, by simpa using List.find?_some he⟩
  · exact (hT h.symm).elim

theorem resolve_str_no_match (tbl : List Entry) (hno : ∀ e ∈ tbl, e.tag ≠ tagStr) (s : List Nat)
    (h : resolve tbl s = tagStr) : ∀ e ∈ tbl, e.matches s = false := by
  unfold resolve at h
  split at h
  · rename_i e he
    exact (hno e (List.mem_of_find?_eq_some he) h).elim
  · rename_i hnone
    intro e he
    have := List.find?_eq_none.mp hnone e he
    simpa using this

/-- entry `e` of one table occurs (same bucket key, same regex) in another table -/
def occursIn (tbl : List Entry) (e : Entry) : Bool := tbl.any (fun e' => e'.key == e.key && e'.re == e.re)

/-- every entry of the Loader's table other than its YAML 1.2 bool/float entries is an entry of the
Dumper's table (they are PyYAML's own, shared objects) -/
theorem loader_entries_in_dumper :
    (loaderTable.filter (fun e => !(e.tag == RTag.bool) && !(e.tag == RTag.float))).all (occursIn dumperTable) = true := by
  decide +kernel

theorem dumper_no_str_entries : dumperTable.all (fun e => !(e.tag == RTag.str)) = true := by decide +kernel

def goodNotStr : List RTag → List Bool → Bool
  | [t], _ => !(t == RTag.str)
  | _, _ => false

/-- only the Dumper's entries with tag `T`: if one of them matches, the whole table does not say `str` -/
def notStrProb (T : RTag) (guard : Re) : GProb :=
  { guard := guard, base := { tbls := [dumperTable.filter (fun e => e.tag == T)], specs := [],
                              good := goodNotStr } }

theorem not_str_of_sub (tbl : List Entry) (p : Entry → Bool) (hno : ∀ e ∈ tbl, e.tag ≠ tagStr)
    (s : List Nat) (h : resolve (tbl.filter p) s ≠ tagStr) : resolve tbl s ≠ tagStr := by
  obtain ⟨e, he, _, hm⟩ := resolve_of_match (tbl.filter p) s _ rfl h
  intro hstr
  have := resolve_str_no_match tbl hno s hstr e (List.mem_filter.mp he).1
  rw [hm] at this
  cases this

set_option maxRecDepth 100000 in
theorem dumper_sees_floats_ok :
    (notStrProb .float (cat Spec.specFloat Spec.optNL)).check
      (notStrProb .float (cat Spec.specFloat Spec.optNL)).bounds = true := by
  decide +kernel
set_option maxRecDepth 100000 in
theorem dumper_sees_bools_ok :
    (notStrProb .bool (cat Spec.specBool Spec.optNL)).check
      (notStrProb .bool (cat Spec.specBool Spec.optNL)).bounds = true := by
  decide +kernel

/-- **Strings stay strings.**  For every string: if the Dumper's resolver says `str` (so the emitter may
write it plain), the Loader's resolver says `str` too.  In particular every string that looks like a
YAML 1.2 float or boolean, an int, a null, a timestamp, `<<` or `=` is *not* `str` for the Dumper and
gets quoted. -/
theorem C05_quoted_strings_stay_strings (s : List Nat) (h : resolve dumperTable s = .str) :
    resolve loaderTable s = .str := by
  have hno : ∀ x ∈ dumperTable, x.tag ≠ tagStr := by
    intro x hx
    have := List.all_eq_true.mp dumper_no_str_entries x hx
    simpa [tagStr] using this
  by_cases hl : resolve loaderTable s = .str
  · exact hl
  · exfalso
    obtain ⟨e, he, htag, hmatch⟩ := resolve_of_match loaderTable s _ rfl hl
    by_cases hb : e.tag = RTag.bool
    · have h1 := C09.C09_bool_iff s
      rw [← htag, hb] at h1
      simp only [beq_self_eq_true] at h1
      have := GProb.check_sound _ _ dumper_sees_bools_ok s h1.symm
      simp only [notStrProb, List.map_cons, List.map_nil, goodNotStr] at this
      exact not_str_of_sub dumperTable _ hno s (by simpa [tagStr] using this) h
    · by_cases hf : e.tag = RTag.float
      · have h1 := C09.C09_float_iff s
        rw [← htag, hf] at h1
        simp only [beq_self_eq_true] at h1
        have := GProb.check_sound _ _ dumper_sees_floats_ok s h1.symm
        simp only [notStrProb, List.map_cons, List.map_nil, goodNotStr] at this
        exact not_str_of_sub dumperTable _ hno s (by simpa [tagStr] using this) h
      · have hin : e ∈ loaderTable.filter (fun e => !(e.tag == RTag.bool) && !(e.tag == RTag.float)) := by
          simp [List.mem_filter, he, hb, hf]
        have hocc := List.all_eq_true.mp loader_entries_in_dumper e hin
        simp only [occursIn, List.any_eq_true, Bool.and_eq_true, beq_iff_eq] at hocc
        obtain ⟨e', he', hk, hr⟩ := hocc
        have hnm := resolve_str_no_match dumperTable hno s h e' he'
        simp only [Entry.matches, hk, hr] at hnm
        simp only [Entry.matches] at hmatch
        rw [hmatch] at hnm
        cases hnm

/-! ## what the representers write re-reads as the same kind -/

set_option maxRecDepth 100000 in
theorem loaderInt_ok : (C06.isProb loaderTable .int C06.pyIntStr).check (C06.isProb loaderTable .int C06.pyIntStr).bounds = true := by
  decide +kernel
set_option maxRecDepth 100000 in
theorem loaderFloat_ok :
    (C06.isProb loaderTable .float C06.reprFloat).check (C06.isProb loaderTable .float C06.reprFloat).bounds = true := by
  decide +kernel
set_option maxRecDepth 100000 in
theorem loaderBool_ok :
    (C06.isProb loaderTable .bool C06.reprBool).check (C06.isProb loaderTable .bool C06.reprBool).bounds = true := by
  decide +kernel
set_option maxRecDepth 100000 in
theorem loaderNull_ok :
    (C06.isProb loaderTable .null C06.reprNull).check (C06.isProb loaderTable .null C06.reprNull).bounds = true := by
  decide +kernel

theorem C05_ints_reread_as_int (s : List Nat) (h : rmatch C06.pyIntStr s = true) :
    resolve loaderTable s = .int := C06.isProb_sound _ _ (by decide) _ loaderInt_ok s h

/-- every float the representer writes (finite ones as `repr` with a fraction point, `.nan`, `.inf`,
`-.inf`) is a YAML 1.2 float for the Loader -/
theorem C05_floats_reread_as_float (s : List Nat) (h : rmatch C06.reprFloat s = true) :
    resolve loaderTable s = .float := C06.isProb_sound _ _ (by decide) _ loaderFloat_ok s h

theorem C05_bools_nulls_reread (s : List Nat) :
    (rmatch C06.reprBool s = true → resolve loaderTable s = .bool) ∧
    (rmatch C06.reprNull s = true → resolve loaderTable s = .null) :=
  ⟨C06.isProb_sound _ _ (by decide) _ loaderBool_ok s, C06.isProb_sound _ _ (by decide) _ loaderNull_ok s⟩

/-! ## enum members, string-likes -/

theorem byTag_bang (env : Env) (c : String) : env.byTag ("!" ++ c) = env.find c := by
  have h1 : hasPrefix "!" ("!" ++ c) = true := by
    simp [hasPrefix, String.toList_append, List.isPrefixOf]
  have h2 : String.ofList (("!" ++ c).toList.drop 1) = c := by
    simp [String.toList_append, String.ofList_toList]
  simp [Env.byTag, h1, h2]

/-- **Enum members round-trip by name**: the member is represented as its name and the node the loader
tags with the enum's class constructs that member again -/
theorem C05_enum_roundtrip (env : Env) (tbl : List Entry) (fuel : Nat) (c name : String) (d : ClassDef)
    (members : List String) (m : Mark) (hd : env.find c = some d) (hk : d.kind = .enum members)
    (hname : d.name = c) (hmem : members.contains name = true) :
    (construct env tbl (fuel + 1) (.scalar ("!" ++ c) name m)).toOption.map (·.value)
      = some (.enumMember c name) := by
  have hm : name ∈ members := by simpa using hmem
  simp [construct, Node.tag, byTag_bang, hd, hk, hm, hname, Except.toOption]

/-- **String-like objects round-trip through `str()`** (for classes with `str(C(s)) == s`) -/
theorem C05_stringlike_roundtrip (env : Env) (tbl : List Entry) (fuel : Nat) (c s : String) (d : ClassDef)
    (m : Mark) (hd : env.find c = some d) (hk : d.kind = .stringLike) (hname : d.name = c)
    (hok : d.initRaises [("", .str s)] = false) :
    (construct env tbl (fuel + 1) (.scalar ("!" ++ c) s m)).toOption.map (·.value)
      = some (.userStr c s) := by
  simp [construct, Node.tag, byTag_bang, hd, hk, hok, hname, Except.toOption]

/-- the dash/underscore sweeten–savorize pair is an inverse pair on keys free of the target character -/
theorem C05_dash_under_inverse (s : String) :
    ('-' ∉ s.toList → replaceChar '-' '_' (replaceChar '_' '-' s) = s) ∧
    ('_' ∉ s.toList → replaceChar '_' '-' (replaceChar '-' '_' s) = s) :=
  C15.C15_dash_under_inverse s

end YatimlModel.C05
