import YatimlModel.Props.C07
import YatimlModel.Lemmas.JsonParse
import YatimlModel.Lemmas.RegexLang
/-!
# C07, character level — what `emit_json` writes is an RFC 8259 text for the tree

`Props/C07` shows that the emitter machine writes the token stream of the canonical renderer.  Here
the claim "strict RFC 8259 JSON whose content equals the projection" is taken down to characters:
a reference parser written from the RFC's grammar (`Spec/JsonParse`, sharing nothing with the
emitter) reads the *text* the machine writes — for every tree, indent setting, `ensure_ascii` mode
and line break — and returns exactly the JSON value of the tree: the same strings (code point by
code point, through every escape and surrogate pair), the same numbers, `true` / `false` / `null`,
arrays and objects in the same order.  No size bound; induction over the parser's fuel.

What is assumed of CPython is stated as hypotheses and compared on every run by the harness:
`DumpsIs` (`json.dumps(str)` writes what `Model/JsonString` writes) and, per scalar, `WfScalar`
(`str.lower` of a represented bool is `true` / `false`; a verbatim scalar is a number text —
for the texts `str(int)` and `repr(float)` produce this is `C07_number_texts_wf`).
-/
namespace YatimlModel.C07
open YatimlModel.Json YatimlModel.JsonParse

/-- **A string token denotes its string.**  For every sequence of Unicode scalar values and both
`ensure_ascii` settings, reading the token `json.dumps` writes gives back exactly that sequence. -/
theorem C07_string_token_denotes (a : Bool) (s : List Nat) (hs : ∀ c ∈ s, IsScalarValue c) :
    parseJson (JsonString.dumps a s) = some (JV.str s) := by
  have h := parse_string_token a s [] (JsonString.dumps a s).length hs
  simp only [List.append_nil] at h
  simp [parseJson, h, skipWs]

theorem skipWs_allWs (w : List Nat) (h : AllWs w) : skipWs w = [] := by
  have := skipWs_append_ws w [] h
  simpa [skipWs] using this

/-- **The rendered text parses to the tree's value.** -/
theorem C07_rendered_text_parses (cfg : Cfg) (a : Bool) (lb : String)
    (hd : DumpsIs cfg.fns a) (hk : JsonParse.WfCfg cfg) (hlb : AllWs (codes lb))
    (t : JT) (hw : WfT cfg.fns t) :
    parseJson (codes (textOf lb (renderDoc cfg t))) = some (toJV cfg.fns t) := by
  rw [codes_textOf]
  unfold renderDoc
  rw [codesOf_append]
  have hE := allWs_endl cfg lb hlb 0
  have hlen := lenT cfg a hd lb t 0 hw
  have hp := (parse_all cfg a lb hd hk hlb
      ((codesOf lb (rT cfg 0 t) ++ codesOf lb (endl cfg 0)).length + 1)).1 t 0
      (codesOf lb (endl cfg 0)) hw (by simp only [List.length_append]; omega)
      (by have := StopsNum.ws_append _ [] hE StopsNum.nil; simpa using this)
  simp only [parseJson, hp, skipWs_allWs _ hE, if_true]

/-- **What the emitter machine writes is a JSON text for the tree.**  Feeding `emit_json` the events
of a whole document and parsing the characters it wrote (line break `lb`, any indent, either
`ensure_ascii` mode) with the RFC 8259 reference parser yields the JSON value of the tree. -/
theorem C07_emitted_text_is_json (cfg : Cfg) (a : Bool) (lb : String)
    (hd : DumpsIs cfg.fns a) (hk : JsonParse.WfCfg cfg) (hlb : AllWs (codes lb))
    (t : JT) (hw : WfT cfg.fns t) :
    ∃ out, run cfg init (evDoc t) = some (init, out) ∧
      parseJson (codes (textOf lb out)) = some (toJV cfg.fns t) :=
  ⟨renderDoc cfg t, C07_machine_refines_renderer cfg t,
    C07_rendered_text_parses cfg a lb hd hk hlb t hw⟩

/-- **Same data under every formatting option**, at the level of parsed values: two configurations
that differ in indent, separator and line break (and even in the `ensure_ascii` mode, as long as
`str.lower` is the same function) write texts that denote the same JSON value. -/
theorem C07_same_value_all_options (c1 c2 : Cfg) (a1 a2 : Bool) (lb1 lb2 : String)
    (hd1 : DumpsIs c1.fns a1) (hd2 : DumpsIs c2.fns a2)
    (hk1 : JsonParse.WfCfg c1) (hk2 : JsonParse.WfCfg c2)
    (hlb1 : AllWs (codes lb1)) (hlb2 : AllWs (codes lb2)) (hl : c1.fns.lower = c2.fns.lower)
    (t : JT) (hw1 : WfT c1.fns t) (hw2 : WfT c2.fns t) :
    parseJson (codes (textOf lb1 (renderDoc c1 t))) = parseJson (codes (textOf lb2 (renderDoc c2 t))) := by
  rw [C07_rendered_text_parses c1 a1 lb1 hd1 hk1 hlb1 t hw1,
    C07_rendered_text_parses c2 a2 lb2 hd2 hk2 hlb2 t hw2]
  have key : ∀ (f g : TextFns), f.lower = g.lower →
      (∀ t, toJV f t = toJV g t) ∧ (∀ xs, toJVs f xs = toJVs g xs) ∧ (∀ k, toJKVs f k = toJKVs g k) := by
    intro f g hfg
    refine ⟨?_, ?_, ?_⟩
    · intro t
      exact JT.rec (motive_1 := fun t => toJV f t = toJV g t) (motive_2 := fun xs => toJVs f xs = toJVs g xs)
        (motive_3 := fun k => toJKVs f k = toJKVs g k)
        (fun k v => by cases k <;> simp [toJV, scalarJV, hfg])
        (fun xs ih => by simp [toJV, ih]) (fun kvs ih => by simp [toJV, ih])
        (by simp [toJVs]) (fun x xs ih1 ih2 => by simp [toJVs, ih1, ih2])
        (by simp [toJKVs]) (fun k v rest _ ih2 ih3 => by simp [toJKVs, ih2, ih3]) t
    · intro xs
      exact JL.rec (motive_1 := fun t => toJV f t = toJV g t) (motive_2 := fun xs => toJVs f xs = toJVs g xs)
        (motive_3 := fun k => toJKVs f k = toJKVs g k)
        (fun k v => by cases k <;> simp [toJV, scalarJV, hfg])
        (fun xs ih => by simp [toJV, ih]) (fun kvs ih => by simp [toJV, ih])
        (by simp [toJVs]) (fun x xs ih1 ih2 => by simp [toJVs, ih1, ih2])
        (by simp [toJKVs]) (fun k v rest _ ih2 ih3 => by simp [toJKVs, ih2, ih3]) xs
    · intro k
      exact JKL.rec (motive_1 := fun t => toJV f t = toJV g t) (motive_2 := fun xs => toJVs f xs = toJVs g xs)
        (motive_3 := fun k => toJKVs f k = toJKVs g k)
        (fun k v => by cases k <;> simp [toJV, scalarJV, hfg])
        (fun xs ih => by simp [toJV, ih]) (fun kvs ih => by simp [toJV, ih])
        (by simp [toJVs]) (fun x xs ih1 ih2 => by simp [toJVs, ih1, ih2])
        (by simp [toJKVs]) (fun k v rest _ ih2 ih3 => by simp [toJKVs, ih2, ih3]) k
  rw [(key c1.fns c2.fns hl).1 t]

/-- **`ensure_ascii=False` leaves non-ASCII characters unescaped**: every code point from U+007F up is
written as itself -/
theorem C07_non_ascii_unescaped (c : Nat) (h : 127 ≤ c) : JsonString.escUni c = [c] := by
  have hs : JsonString.shortEsc c = none := by
    unfold JsonString.shortEsc
    repeat' split
    all_goals first | rfl | (rename_i hc; simp at hc; omega)
  unfold JsonString.escUni
  rw [hs]
  simp only
  rw [if_neg (by omega)]

theorem C07_unicode_mode_keeps_non_ascii (s : List Nat) (c : Nat) (hc : c ∈ s) (h : 127 ≤ c) :
    c ∈ JsonString.dumps false s := by
  unfold JsonString.dumps
  simp only [Bool.false_eq_true, if_false, List.mem_append, List.mem_flatMap, List.mem_cons,
    List.not_mem_nil, or_false]
  exact Or.inl (Or.inr ⟨c, hc, by rw [C07_non_ascii_unescaped c h]; simp⟩)

/-! ### the number texts PyYAML's representers produce are number texts in the parser's sense -/

section numbers
open YatimlModel.Re

/-- the RFC grammar used by the reference parser is the one `C07_numbers_are_json` is about -/
theorem numberRe_eq : JsonParse.numberRe = jsonNumber := rfl

def numChars : CSet := [(48, 57), (45, 45), (43, 43), (46, 46), (101, 101), (69, 69)]

def numProb3 : Prob :=
  { tbls := [], specs := [alt pyIntStr reprFloat, jsonNumber, plus (Re.set numChars)],
    good := fun _ bits => match bits with | [a, b, c] => !a || (b && c) | _ => false }

set_option maxRecDepth 100000 in
theorem numProb3_ok : numProb3.check numProb3.bounds = true := by decide +kernel

theorem numChars_mem (c : Nat) (h : numChars.mem c = true) : isNumChar c = true := by
  simp only [numChars, CSet.mem, List.any_cons, List.any_nil, Bool.or_false, Bool.or_eq_true,
    Bool.and_eq_true, Nat.ble_eq] at h
  simp only [isNumChar, Bool.or_eq_true, Bool.and_eq_true, decide_eq_true_eq, beq_iff_eq]
  omega

theorem lang_star_set (cs : CSet) : ∀ (r : Re) (t : List Nat), Lang r t → r = star (Re.set cs) →
    ∀ c ∈ t, cs.mem c = true := by
  intro r t h
  induction h with
  | eps => intro e; cases e
  | set _ => intro e; cases e
  | cat _ _ _ _ => intro e; cases e
  | altL _ _ => intro e; cases e
  | altR _ _ => intro e; cases e
  | starNil => intro _ c hc; cases hc
  | starCons ha _ _ ih2 =>
    intro e c hc
    cases e
    rcases List.mem_append.mp hc with h | h
    · cases ha with
      | set hm => simp at h; subst h; exact hm
    · exact ih2 rfl c h

theorem plus_set_spec (cs : CSet) (s : List Nat) (h : rmatch (plus (Re.set cs)) s = true) :
    s ≠ [] ∧ ∀ c ∈ s, cs.mem c = true := by
  have hl := (rmatch_iff_lang _ _).mp h
  unfold plus at hl
  cases hl with
  | cat ha hb =>
    cases ha with
    | set hm =>
      refine ⟨by simp, ?_⟩
      intro c hc
      simp only [List.cons_append, List.nil_append, List.mem_cons] at hc
      rcases hc with rfl | hc
      · exact hm
      · exact lang_star_set cs _ _ hb rfl c hc

/-- `str(int)` and `repr(float).lower()` of a finite float are number texts: non-empty, made of
number characters, in the RFC's `number` language — so `WfScalar` holds of them -/
theorem C07_number_texts_wf (f : TextFns) (v : String)
    (h : rmatch (alt pyIntStr reprFloat) (codes v) = true) : WfScalar f SK.other v := by
  have := Prob.check_sound numProb3 _ numProb3_ok (codes v)
  simp only [numProb3, List.map_cons, List.map_nil, h] at this
  have h2 : rmatch jsonNumber (codes v) = true ∧ rmatch (plus (Re.set numChars)) (codes v) = true := by
    simpa using this
  obtain ⟨hne, hall⟩ := plus_set_spec numChars _ h2.2
  exact ⟨hne, fun c hc => numChars_mem c (hall c hc), by rw [numberRe_eq]; exact h2.1⟩
end numbers

/-! ### non-vacuity: a concrete configuration and tree meeting every hypothesis -/

def asciiFns : TextFns :=
  { dumps := fun s => String.ofList ((JsonString.dumps true (codes s)).map Char.ofNat),
    lower := fun s => s }
def cfgA : Cfg := { indented := true, best := 2, kvsep := ": ", fns := asciiFns }
def sampleA : JT :=
  .obj (.cons (.scalar .str "k\"é") (.arr (.cons (.scalar .other "-1.5e-05") (.cons (.scalar .null "")
        (.cons (.scalar .bool "true") .nil))))
       (.cons (.scalar .str "b") (.obj .nil) .nil))

example : JsonParse.WfCfg cfgA := rfl
example : AllWs (codes "\n") := by intro c hc; simp [codes] at hc; subst hc; rfl
example : WfT cfgA.fns sampleA := by
  simp only [sampleA, WfT, WfL, WfK, WfScalar, cfgA, asciiFns, and_true, true_and]
  refine ⟨⟨_, rfl⟩, ?_, ⟨_, rfl⟩⟩
  exact ⟨C07_number_texts_wf asciiFns "-1.5e-05" (by decide +kernel), Or.inl trivial⟩
example : parseJson (codes (textOf "\n" (renderDoc cfgA sampleA))) = some (toJV cfgA.fns sampleA) := by
  decide +kernel

end YatimlModel.C07
