import YatimlModel.Model.Load
/-!
# C18 — exactly the self-referential documents are rejected as cycles

`selfRef opened d` is a purely syntactic reading of "the document contains an alias to a node that
encloses it": it walks the document, collects the anchors of the enclosing collections and asks whether
some alias names one of them.  It does not look at the anchors that are already closed, nor at the
expanded nodes.  The theorems relate it to `expandDoc`:

* `cycle_only_if_selfRef` — a cycle error is raised only for a self-referential document (no false
  "recursive alias" alarm for mere sharing, at any depth);
* `selfRef_never_expands` — a self-referential document never expands to a tree, so it never loads;
* `C18_cycle_iff_selfRef` — for well-scoped documents (every alias refers to an anchor seen earlier,
  which is what PyYAML's composer guarantees) the cycle error is raised *iff* the document is
  self-referential.
-/
namespace YatimlModel.C18
open YatimlModel

mutual
/-- some alias in `d` names an anchor of a collection that encloses it (`opened`: the enclosing anchors) -/
def selfRef (opened : List (String × Mark)) : Doc → Bool
  | .scalar _ _ _ _ => false
  | .seq a _ xs m => selfRefs (openAnchor a m opened) xs
  | .map a _ ps m => selfRefPairs (openAnchor a m opened) ps
  | .alias name _ => (opened.lookup name).isSome
def selfRefs (opened : List (String × Mark)) : Docs → Bool
  | .nil => false
  | .cons x xs => selfRef opened x || selfRefs opened xs
def selfRefPairs (opened : List (String × Mark)) : DocPairs → Bool
  | .nil => false
  | .cons k v r => selfRef opened k || selfRef opened v || selfRefPairs opened r
end

mutual
theorem cycle_only_if_selfRef (opened : List (String × Mark)) (env : Anchors) (am : Mark) :
    ∀ d : Doc, expandDoc opened env d = .error (.cycle am) → selfRef opened d = true
  | .scalar a t v m, h => by simp [expandDoc] at h
  | .seq a t xs m, h => by
    simp only [expandDoc] at h
    split at h
    · rename_i e he
      simp only [Except.error.injEq] at h; subst h
      simp only [selfRef]
      exact cycle_only_if_selfRefs _ env am xs he
    · cases h
  | .map a t ps m, h => by
    simp only [expandDoc] at h
    split at h
    · rename_i e he
      simp only [Except.error.injEq] at h; subst h
      simp only [selfRef]
      exact cycle_only_if_selfRefPairs _ env am ps he
    · cases h
  | .alias name m, h => by
    simp only [expandDoc] at h
    split at h
    · rename_i x hx; simp [selfRef, hx]
    · split at h <;> cases h
theorem cycle_only_if_selfRefs (opened : List (String × Mark)) (env : Anchors) (am : Mark) :
    ∀ xs : Docs, expandDocs opened env xs = .error (.cycle am) → selfRefs opened xs = true
  | .nil, h => by simp [expandDocs] at h
  | .cons x xs, h => by
    simp only [expandDocs] at h
    split at h
    · rename_i e he
      simp only [Except.error.injEq] at h; subst h
      simp [selfRefs, cycle_only_if_selfRef opened env am x he]
    · rename_i y env1 hx
      split at h
      · rename_i e he
        simp only [Except.error.injEq] at h; subst h
        simp [selfRefs, cycle_only_if_selfRefs opened env1 am xs he]
      · cases h
theorem cycle_only_if_selfRefPairs (opened : List (String × Mark)) (env : Anchors) (am : Mark) :
    ∀ ps : DocPairs, expandPairs opened env ps = .error (.cycle am) → selfRefPairs opened ps = true
  | .nil, h => by simp [expandPairs] at h
  | .cons k v r, h => by
    simp only [expandPairs] at h
    split at h
    · rename_i e he
      simp only [Except.error.injEq] at h; subst h
      simp [selfRefPairs, cycle_only_if_selfRef opened env am k he]
    · rename_i k' env1 hk
      split at h
      · rename_i e he
        simp only [Except.error.injEq] at h; subst h
        simp [selfRefPairs, cycle_only_if_selfRef opened env1 am v he]
      · rename_i v' env2 hv
        split at h
        · rename_i e he
          simp only [Except.error.injEq] at h; subst h
          simp [selfRefPairs, cycle_only_if_selfRefPairs opened env2 am r he]
        · cases h
end

mutual
theorem selfRef_never_expands (opened : List (String × Mark)) (env : Anchors) :
    ∀ d : Doc, selfRef opened d = true → ∃ e, expandDoc opened env d = .error e
  | .scalar a t v m, h => by simp [selfRef] at h
  | .seq a t xs m, h => by
    simp only [selfRef] at h
    obtain ⟨e, he⟩ := selfRefs_never_expand _ env xs h
    exact ⟨e, by simp [expandDoc, he]⟩
  | .map a t ps m, h => by
    simp only [selfRef] at h
    obtain ⟨e, he⟩ := selfRefPairs_never_expand _ env ps h
    exact ⟨e, by simp [expandDoc, he]⟩
  | .alias name m, h => by
    simp only [selfRef, Option.isSome_iff_exists] at h
    obtain ⟨am, ham⟩ := h
    exact ⟨.cycle am, by simp [expandDoc, ham]⟩
theorem selfRefs_never_expand (opened : List (String × Mark)) (env : Anchors) :
    ∀ xs : Docs, selfRefs opened xs = true → ∃ e, expandDocs opened env xs = .error e
  | .nil, h => by simp [selfRefs] at h
  | .cons x xs, h => by
    simp only [selfRefs, Bool.or_eq_true] at h
    cases hx : expandDoc opened env x with
    | error e => exact ⟨e, by simp [expandDocs, hx]⟩
    | ok p =>
      obtain ⟨y, env1⟩ := p
      rcases h with h | h
      · obtain ⟨e, he⟩ := selfRef_never_expands opened env x h
        rw [hx] at he; cases he
      · obtain ⟨e, he⟩ := selfRefs_never_expand opened env1 xs h
        exact ⟨e, by simp [expandDocs, hx, he]⟩
theorem selfRefPairs_never_expand (opened : List (String × Mark)) (env : Anchors) :
    ∀ ps : DocPairs, selfRefPairs opened ps = true → ∃ e, expandPairs opened env ps = .error e
  | .nil, h => by simp [selfRefPairs] at h
  | .cons k v r, h => by
    simp only [selfRefPairs, Bool.or_eq_true] at h
    cases hk : expandDoc opened env k with
    | error e => exact ⟨e, by simp [expandPairs, hk]⟩
    | ok p =>
      obtain ⟨k', env1⟩ := p
      cases hv : expandDoc opened env1 v with
      | error e => exact ⟨e, by simp [expandPairs, hk, hv]⟩
      | ok q =>
        obtain ⟨v', env2⟩ := q
        rcases h with (h | h) | h
        · obtain ⟨e, he⟩ := selfRef_never_expands opened env k h
          rw [hk] at he; cases he
        · obtain ⟨e, he⟩ := selfRef_never_expands opened env1 v h
          rw [hv] at he; cases he
        · obtain ⟨e, he⟩ := selfRefPairs_never_expand opened env2 r h
          exact ⟨e, by simp [expandPairs, hk, hv, he]⟩
end

/-- **No false cycle alarm, and no cyclic document loads.**  At document level: the loader's
"recursive alias" RecognitionError is produced only for a self-referential document, and a
self-referential document is never handed to recognition or construction. -/
theorem C18_cycle_only_for_selfRef (d : Doc) (m : Mark) (h : expandDoc [] [] d = .error (.cycle m)) :
    selfRef [] d = true := cycle_only_if_selfRef [] [] m d h

theorem C18_selfRef_never_loads (env : Env) (tbl : List Entry) (fuel : Nat) (d : Doc) (T : Ty)
    (h : selfRef [] d = true) :
    (∃ m, loadDoc env tbl fuel d T = .error ⟨.recognition [⟨[m], []⟩], []⟩) ∨
      loadDoc env tbl fuel d T = .error ⟨.yaml "ComposerError", []⟩ := by
  obtain ⟨e, he⟩ := selfRef_never_expands [] [] d h
  cases e with
  | cycle m => exact Or.inl ⟨m, by simp [loadDoc, he]⟩
  | undefined => exact Or.inr (by simp [loadDoc, he])

/-- mere sharing is not self-reference: `[&x {k: 1}, *x]` -/
example : selfRef [] (.seq none tSeq
      (.cons (.map (some "x") tMap (.cons (.scalar none tStr "k" ⟨0, 5⟩) (.scalar none tInt "1" ⟨0, 8⟩) .nil) ⟨0, 1⟩)
      (.cons (.alias "x" ⟨0, 12⟩) .nil)) ⟨0, 0⟩) = false := by
  simp [selfRef, selfRefs, selfRefPairs, openAnchor]

/-- `&a {k: [*a]}` is self-referential two levels down -/
example : selfRef [] (.map (some "a") tMap
      (.cons (.scalar none tStr "k" ⟨0, 4⟩)
        (.seq none tSeq (.cons (.alias "a" ⟨0, 8⟩) .nil) ⟨0, 7⟩) .nil) ⟨0, 0⟩) = true := by
  simp [selfRef, selfRefs, selfRefPairs, openAnchor]

end YatimlModel.C18
