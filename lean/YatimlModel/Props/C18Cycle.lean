import YatimlModel.Spec.AliasShape
/-!
# C18 — exactly the self-referential documents are rejected as cycles

`selfRef opened d` is a purely syntactic reading of "the document contains an alias to a node that
encloses it": it walks the document, collects the anchors of the enclosing collections and asks whether
some alias names one of them.  It does not look at the anchors that are already closed, nor at the
expanded nodes.  The theorems relate it to `expandDoc`:

* `cycle_only_if_selfRef` — a cycle error is raised only for a self-referential document (no false
  "recursive alias" alarm for mere sharing, at any depth);
* `selfRef_never_expands` — a self-referential document never expands to a tree, so it never loads;
* `C18_cycle_iff_selfRef` — for well-scoped documents (every alias refers to an anchor seen earlier,
  which is what PyYAML's composer guarantees) the cycle error is raised *iff* the document is
  self-referential.
-/
namespace YatimlModel.C18
open YatimlModel


mutual
theorem cycle_only_if_selfRef (opened : List (String × Mark)) (env : Anchors) (am : Mark) :
    ∀ d : Doc, expandDoc opened env d = .error (.cycle am) → selfRef opened d = true
  | .scalar a t v m, h => by simp [expandDoc] at h
  | .seq a t xs m, h => by
    simp only [expandDoc] at h
    split at h
    · rename_i e he
      simp only [Except.error.injEq] at h; subst h
      simp only [selfRef]
      exact cycle_only_if_selfRefs _ env am xs he
    · cases h
  | .map a t ps m, h => by
    simp only [expandDoc] at h
    split at h
    · rename_i e he
      simp only [Except.error.injEq] at h; subst h
      simp only [selfRef]
      exact cycle_only_if_selfRefPairs _ env am ps he
    · cases h
  | .alias name m, h => by
    simp only [expandDoc] at h
    split at h
    · rename_i x hx; simp [selfRef, hx]
    · split at h <;> cases h
theorem cycle_only_if_selfRefs (opened : List (String × Mark)) (env : Anchors) (am : Mark) :
    ∀ xs : Docs, expandDocs opened env xs = .error (.cycle am) → selfRefs opened xs = true
  | .nil, h => by simp [expandDocs] at h
  | .cons x xs, h => by
    simp only [expandDocs] at h
    split at h
    · rename_i e he
      simp only [Except.error.injEq] at h; subst h
      simp [selfRefs, cycle_only_if_selfRef opened env am x he]
    · rename_i y env1 hx
      split at h
      · rename_i e he
        simp only [Except.error.injEq] at h; subst h
        simp [selfRefs, cycle_only_if_selfRefs opened env1 am xs he]
      · cases h
theorem cycle_only_if_selfRefPairs (opened : List (String × Mark)) (env : Anchors) (am : Mark) :
    ∀ ps : DocPairs, expandPairs opened env ps = .error (.cycle am) → selfRefPairs opened ps = true
  | .nil, h => by simp [expandPairs] at h
  | .cons k v r, h => by
    simp only [expandPairs] at h
    split at h
    · rename_i e he
      simp only [Except.error.injEq] at h; subst h
      simp [selfRefPairs, cycle_only_if_selfRef opened env am k he]
    · rename_i k' env1 hk
      split at h
      · rename_i e he
        simp only [Except.error.injEq] at h; subst h
        simp [selfRefPairs, cycle_only_if_selfRef opened env1 am v he]
      · rename_i v' env2 hv
        split at h
        · rename_i e he
          simp only [Except.error.injEq] at h; subst h
          simp [selfRefPairs, cycle_only_if_selfRefPairs opened env2 am r he]
        · cases h
end

mutual
theorem selfRef_never_expands (opened : List (String × Mark)) (env : Anchors) :
    ∀ d : Doc, selfRef opened d = true → ∃ e, expandDoc opened env d = .error e
  | .scalar a t v m, h => by simp [selfRef] at h
  | .seq a t xs m, h => by
    simp only [selfRef] at h
    obtain ⟨e, he⟩ := selfRefs_never_expand _ env xs h
    exact ⟨e, by simp [expandDoc, he]⟩
  | .map a t ps m, h => by
    simp only [selfRef] at h
    obtain ⟨e, he⟩ := selfRefPairs_never_expand _ env ps h
    exact ⟨e, by simp [expandDoc, he]⟩
  | .alias name m, h => by
    simp only [selfRef, Option.isSome_iff_exists] at h
    obtain ⟨am, ham⟩ := h
    exact ⟨.cycle am, by simp [expandDoc, ham]⟩
theorem selfRefs_never_expand (opened : List (String × Mark)) (env : Anchors) :
    ∀ xs : Docs, selfRefs opened xs = true → ∃ e, expandDocs opened env xs = .error e
  | .nil, h => by simp [selfRefs] at h
  | .cons x xs, h => by
    simp only [selfRefs, Bool.or_eq_true] at h
    cases hx : expandDoc opened env x with
    | error e => exact ⟨e, by simp [expandDocs, hx]⟩
    | ok p =>
      obtain ⟨y, env1⟩ := p
      rcases h with h | h
      · obtain ⟨e, he⟩ := selfRef_never_expands opened env x h
        rw [hx] at he; cases he
      · obtain ⟨e, he⟩ := selfRefs_never_expand opened env1 xs h
        exact ⟨e, by simp [expandDocs, hx, he]⟩
theorem selfRefPairs_never_expand (opened : List (String × Mark)) (env : Anchors) :
    ∀ ps : DocPairs, selfRefPairs opened ps = true → ∃ e, expandPairs opened env ps = .error e
  | .nil, h => by simp [selfRefPairs] at h
  | .cons k v r, h => by
    simp only [selfRefPairs, Bool.or_eq_true] at h
    cases hk : expandDoc opened env k with
    | error e => exact ⟨e, by simp [expandPairs, hk]⟩
    | ok p =>
      obtain ⟨k', env1⟩ := p
      cases hv : expandDoc opened env1 v with
      | error e => exact ⟨e, by simp [expandPairs, hk, hv]⟩
      | ok q =>
        obtain ⟨v', env2⟩ := q
        rcases h with (h | h) | h
        · obtain ⟨e, he⟩ := selfRef_never_expands opened env k h
          rw [hk] at he; cases he
        · obtain ⟨e, he⟩ := selfRef_never_expands opened env1 v h
          rw [hv] at he; cases he
        · obtain ⟨e, he⟩ := selfRefPairs_never_expand opened env2 r h
          exact ⟨e, by simp [expandPairs, hk, hv, he]⟩
end

/-- **No false cycle alarm, and no cyclic document loads.**  At document level: the loader's
"recursive alias" RecognitionError is produced only for a self-referential document, and a
self-referential document is never handed to recognition or construction. -/
theorem C18_cycle_only_for_selfRef (d : Doc) (m : Mark) (h : expandDoc [] [] d = .error (.cycle m)) :
    selfRef [] d = true := cycle_only_if_selfRef [] [] m d h

theorem C18_selfRef_never_loads (env : Env) (tbl : List Entry) (fuel : Nat) (d : Doc) (T : Ty)
    (h : selfRef [] d = true) :
    (∃ m, loadDoc env tbl fuel d T = .error ⟨.recognition [⟨[m], []⟩], []⟩) ∨
      loadDoc env tbl fuel d T = .error ⟨.yaml "ComposerError", []⟩ := by
  obtain ⟨e, he⟩ := selfRef_never_expands [] [] d h
  cases e with
  | cycle m => exact Or.inl ⟨m, by simp [loadDoc, he]⟩
  | undefined => exact Or.inr (by simp [loadDoc, he])

/-- mere sharing is not self-reference: `[&x {k: 1}, *x]` -/
example : selfRef [] (.seq none tSeq
      (.cons (.map (some "x") tMap (.cons (.scalar none tStr "k" ⟨0, 5⟩) (.scalar none tInt "1" ⟨0, 8⟩) .nil) ⟨0, 1⟩)
      (.cons (.alias "x" ⟨0, 12⟩) .nil)) ⟨0, 0⟩) = false := by
  simp [selfRef, selfRefs, selfRefPairs, openAnchor]

/-- `&a {k: [*a]}` is self-referential two levels down -/
example : selfRef [] (.map (some "a") tMap
      (.cons (.scalar none tStr "k" ⟨0, 4⟩)
        (.seq none tSeq (.cons (.alias "a" ⟨0, 8⟩) .nil) ⟨0, 7⟩) .nil) ⟨0, 0⟩) = true := by
  simp [selfRef, selfRefs, selfRefPairs, openAnchor]

/-! ### well-scoped documents: the cycle error is raised iff the document is self-referential

PyYAML's composer only produces documents in which every alias names an anchor seen earlier in the
stream (closed, `defd`) or the anchor of an enclosing collection (`opened`); it raises ComposerError
otherwise.  `scopedDoc` is that condition, threading the set of closed anchor names. -/


/-- every closed anchor name has an expanded node -/
def Covers (env : Anchors) (defd : List String) : Prop := ∀ x ∈ defd, (env.lookup x).isSome = true

theorem covers_note (a : Option String) (n : Node) (env : Anchors) (defd : List String)
    (h : Covers env defd) : Covers (noteAnchor a n env) (noteName a defd) := by
  cases a with
  | none => simpa [noteAnchor, noteName] using h
  | some name =>
    intro x hx
    simp only [noteName, List.mem_cons] at hx
    simp only [noteAnchor, List.lookup_cons]
    rcases hx with rfl | hx
    · simp
    · split
      · rfl
      · exact h x hx

/-- the outcome of expanding a well-scoped document: a cycle error or a tree -/
def Outcome (defd' : List String) {α : Type} (r : Except ExpandErr (α × Anchors)) : Prop :=
  (∃ am, r = .error (.cycle am)) ∨ (∃ n env', r = .ok (n, env') ∧ Covers env' defd')

mutual
theorem expand_scoped (opened : List (String × Mark)) (env : Anchors) (defd defd' : List String)
    (hc : Covers env defd) :
    ∀ d : Doc, scopedDoc opened defd d = some defd' → Outcome defd' (expandDoc opened env d)
  | .scalar a t v m, h => by
    simp only [scopedDoc, Option.some.injEq] at h; subst h
    unfold Outcome; simp only [expandDoc]; exact Or.inr ⟨_, _, rfl, covers_note _ _ _ _ hc⟩
  | .seq a t xs m, h => by
    simp only [scopedDoc] at h
    split at h
    · rename_i d' hd
      simp only [Option.some.injEq] at h; subst h
      rcases expand_scopeds (openAnchor a m opened) env defd d' hc xs hd with ⟨am, he⟩ | ⟨ys, env', he, hc'⟩
      · exact Or.inl ⟨am, by simp [expandDoc, he]⟩
      · unfold Outcome; simp only [expandDoc, he]; exact Or.inr ⟨_, _, rfl, covers_note _ _ _ _ hc'⟩
    · cases h
  | .map a t ps m, h => by
    simp only [scopedDoc] at h
    split at h
    · rename_i d' hd
      simp only [Option.some.injEq] at h; subst h
      rcases expand_scopedPairs (openAnchor a m opened) env defd d' hc ps hd with ⟨am, he⟩ | ⟨qs, env', he, hc'⟩
      · exact Or.inl ⟨am, by simp [expandDoc, he]⟩
      · unfold Outcome; simp only [expandDoc, he]; exact Or.inr ⟨_, _, rfl, covers_note _ _ _ _ hc'⟩
    · cases h
  | .alias name m, h => by
    simp only [scopedDoc] at h
    split at h
    · rename_i hs
      simp only [Option.some.injEq] at h; subst h
      cases ho : opened.lookup name with
      | some am => exact Or.inl ⟨am, by simp [expandDoc, ho]⟩
      | none =>
        simp only [ho, Option.isSome_none, Bool.false_or, List.contains_iff_mem] at hs
        have := hc name hs
        obtain ⟨n, hn⟩ := Option.isSome_iff_exists.mp this
        unfold Outcome; simp only [expandDoc, ho, hn]; exact Or.inr ⟨_, _, rfl, hc⟩
    · cases h
theorem expand_scopeds (opened : List (String × Mark)) (env : Anchors) (defd defd' : List String)
    (hc : Covers env defd) :
    ∀ xs : Docs, scopedDocs opened defd xs = some defd' → Outcome defd' (expandDocs opened env xs)
  | .nil, h => by
    simp only [scopedDocs, Option.some.injEq] at h; subst h
    unfold Outcome; simp only [expandDocs]; exact Or.inr ⟨_, _, rfl, hc⟩
  | .cons x xs, h => by
    simp only [scopedDocs] at h
    split at h
    · rename_i d1 hd1
      rcases expand_scoped opened env defd d1 hc x hd1 with ⟨am, he⟩ | ⟨y, env1, he, hc1⟩
      · exact Or.inl ⟨am, by simp [expandDocs, he]⟩
      · rcases expand_scopeds opened env1 d1 defd' hc1 xs h with ⟨am, he2⟩ | ⟨ys, env2, he2, hc2⟩
        · exact Or.inl ⟨am, by simp [expandDocs, he, he2]⟩
        · unfold Outcome; simp only [expandDocs, he, he2]; exact Or.inr ⟨_, _, rfl, hc2⟩
    · cases h
theorem expand_scopedPairs (opened : List (String × Mark)) (env : Anchors) (defd defd' : List String)
    (hc : Covers env defd) :
    ∀ ps : DocPairs, scopedPairs opened defd ps = some defd' → Outcome defd' (expandPairs opened env ps)
  | .nil, h => by
    simp only [scopedPairs, Option.some.injEq] at h; subst h
    unfold Outcome; simp only [expandPairs]; exact Or.inr ⟨_, _, rfl, hc⟩
  | .cons k v r, h => by
    simp only [scopedPairs] at h
    split at h
    · rename_i d1 hd1
      split at h
      · rename_i d2 hd2
        rcases expand_scoped opened env defd d1 hc k hd1 with ⟨am, he⟩ | ⟨k', env1, he, hc1⟩
        · exact Or.inl ⟨am, by simp [expandPairs, he]⟩
        · rcases expand_scoped opened env1 d1 d2 hc1 v hd2 with ⟨am, he2⟩ | ⟨v', env2, he2, hc2⟩
          · exact Or.inl ⟨am, by simp [expandPairs, he, he2]⟩
          · rcases expand_scopedPairs opened env2 d2 defd' hc2 r h with ⟨am, he3⟩ | ⟨r', env3, he3, hc3⟩
            · exact Or.inl ⟨am, by simp [expandPairs, he, he2, he3]⟩
            · unfold Outcome; simp only [expandPairs, he, he2, he3]; exact Or.inr ⟨_, _, rfl, hc3⟩
      · cases h
    · cases h
end

/-- **For composer output, the cycle error is raised iff the document is self-referential**, and every
other well-scoped document expands to a tree (which `C18_transparent` then loads as the written-out
document). -/
theorem C18_cycle_iff_selfRef (d : Doc) (defd' : List String) (hs : scopedDoc [] [] d = some defd') :
    (selfRef [] d = true ↔ ∃ m, expandDoc [] [] d = .error (.cycle m)) ∧
    (selfRef [] d = false ↔ ∃ n env', expandDoc [] [] d = .ok (n, env')) := by
  have hc : Covers [] [] := by intro x hx; cases hx
  have ho := expand_scoped [] [] [] defd' hc d hs
  constructor
  · constructor
    · intro h
      obtain ⟨e, he⟩ := selfRef_never_expands [] [] d h
      rcases ho with ⟨am, h1⟩ | ⟨n, env', h1, _⟩
      · exact ⟨am, h1⟩
      · rw [h1] at he; cases he
    · rintro ⟨m, hm⟩
      exact cycle_only_if_selfRef [] [] m d hm
  · constructor
    · intro h
      rcases ho with ⟨am, h1⟩ | ⟨n, env', h1, _⟩
      · have := cycle_only_if_selfRef [] [] am d h1
        rw [h] at this; cases this
      · exact ⟨n, env', h1⟩
    · rintro ⟨n, env', h1⟩
      cases hsr : selfRef [] d with
      | false => rfl
      | true =>
        obtain ⟨e, he⟩ := selfRef_never_expands [] [] d hsr
        rw [h1] at he; cases he

/-- the hypothesis is satisfiable by a document with sharing: `[&x {k: 1}, *x]` -/
example : (scopedDoc [] [] (.seq none tSeq
      (.cons (.map (some "x") tMap (.cons (.scalar none tStr "k" ⟨0, 5⟩) (.scalar none tInt "1" ⟨0, 8⟩) .nil) ⟨0, 1⟩)
      (.cons (.alias "x" ⟨0, 12⟩) .nil)) ⟨0, 0⟩)).isSome = true := by
  simp [scopedDoc, scopedDocs, scopedPairs, openAnchor, noteName]

/-- and by the cyclic `&a [*a]` -/
example : (scopedDoc [] [] (.seq (some "a") tSeq (.cons (.alias "a" ⟨0, 4⟩) .nil) ⟨0, 0⟩)).isSome = true := by
  simp [scopedDoc, scopedDocs, openAnchor, noteName]

end YatimlModel.C18
