import YatimlModel.Lemmas.RecComplete
import YatimlModel.Model.Load
import YatimlModel.Props.C01
/-!
# C02 — load accepts exactly what the documented pipeline admits and builds that value

`Spec/Pipeline.lean` states the documented recognition rules on their own (`matchesTy`).  The main
theorem (`Lemmas/RecComplete.recognizeReq_iff_matches`, proved for every class model without custom
recognisers, every node without user tags, every type, by induction over the recursion of the
recogniser) is that recognition finds at least one type exactly for the nodes in that language.  From
it: a document outside the language of the declared type is rejected with a RecognitionError, a
document that loads is inside it, and a node recognised as no or as several types is never loaded
(`C03`).  The per-kind rules of the property text are the unfoldings of `matchesTy` below.

What the statement of C02 adds beyond recognition — after savorising only string keys, no missing
required and no unknown attribute without `_yatiml_extra`, the constructor called with the parsed
attribute values, defaults left to Python, extras an ordered mapping of plain data — is carried by
`C01.checkAttributes_none`, `C02_defaults_not_passed` and `C04`; the end-to-end equality "loads iff the
reference pipeline loads, with the same value" for seasoned models is *not* proved as one theorem
(`C02_load_eq_spec` stays open): it is what the independent reference pipeline of the harness decides
on generated and on all small documents.
-/
namespace YatimlModel.C02
open YatimlModel NodeOps Spec

/-- **Recognised as some type ⇔ in the documented language.** -/
theorem C02_recognised_iff_matches (env : Env) (hauto : AutoRecognised env) (fuel : Nat) (n : Node) (T : Ty)
    (hcore : AllCore n) (ts : List Ty) (ls : List Leaf) (h : recognize env fuel n T = .ok (ts, ls)) :
    (ts ≠ [] ↔ matchesTy env fuel n T = true) :=
  recognizeReq_iff_matches env hauto fuel n (.ty T) ts ls hcore h

/-- **Uniqueness or error**: anything but exactly one recognised type is a RecognitionError. -/
theorem C02_recognition_unique_or_error (env : Env) (tbl : List Entry) (fuel : Nat) (n : Node) (T : Ty)
    (ts : List Ty) (ls : List Leaf) (h : recognize env (fuel + 1) n T = .ok (ts, ls))
    (hne : ts.length ≠ 1) : processNode env tbl (fuel + 1) n T = .error (.recognition ls) := by
  simp only [processNode, h]
  match ts, hne with
  | [], _ => rfl
  | [_], hne => exact (hne rfl).elim
  | _ :: _ :: _, _ => rfl

/-- **Outside the language ⇒ rejected**, with a RecognitionError (never loaded, never another
exception), whenever recognition returns at all. -/
theorem C02_not_matching_rejected (env : Env) (hauto : AutoRecognised env) (tbl : List Entry) (fuel : Nat)
    (n : Node) (T : Ty) (hcore : AllCore n) (ts : List Ty) (ls : List Leaf)
    (h : recognize env (fuel + 1) n T = .ok (ts, ls)) (hno : matchesTy env (fuel + 1) n T = false) :
    loadNode env tbl (fuel + 1) n T = .error ⟨.recognition ls, []⟩ := by
  have hempty : ts = [] := by
    cases hts : ts with
    | nil => rfl
    | cons t rest =>
      have := (C02_recognised_iff_matches env hauto (fuel + 1) n T hcore ts ls h).mp (by simp [hts])
      rw [hno] at this; cases this
  have := C02_recognition_unique_or_error env tbl fuel n T ts ls h (by simp [hempty])
  simp [loadNode, this]

/-- **Loaded ⇒ inside the language.** -/
theorem C02_loaded_matches (env : Env) (hauto : AutoRecognised env) (tbl : List Entry) (fuel : Nat)
    (n : Node) (T : Ty) (hcore : AllCore n) (o : LoadOut) (h : loadNode env tbl (fuel + 1) n T = .ok o) :
    matchesTy env (fuel + 1) n T = true := by
  unfold loadNode at h
  split at h
  · cases h
  · rename_i p hp
    simp only [processNode] at hp
    split at hp
    · cases hp
    · rename_i ts ls hrec
      split at hp
      · rename_i R
        exact (C02_recognised_iff_matches env hauto (fuel + 1) n T hcore [R] ls hrec).mp (by simp)
      · cases hp

/-! ### the rules, one by one (unfoldings of the specification) -/

/-- built-ins by exact YAML type -/
theorem C02_builtin_exact (env : Env) (fuel : Nat) (n : Node) :
    matchesTy env (fuel + 1) n .str = scalarTagged n tStr ∧
    matchesTy env (fuel + 1) n .int = scalarTagged n tInt ∧
    matchesTy env (fuel + 1) n .float = scalarTagged n tFloat ∧
    matchesTy env (fuel + 1) n .bool = scalarTagged n tBool ∧
    matchesTy env (fuel + 1) n .null = scalarTagged n tNull ∧
    matchesTy env (fuel + 1) n .date = scalarTagged n tTimestamp ∧
    matchesTy env (fuel + 1) n .path = scalarTagged n tStr := by
  simp [matchesTy, matchesReq]

/-- lists element-wise -/
theorem C02_list_elementwise (env : Env) (fuel : Nat) (k : SeqKind) (item : Ty) (t : String) (xs : Nodes) (m : Mark) :
    matchesTy env (fuel + 1) (.seq t xs m) (.seq k item) = xs.toList.all (fun x => matchesTy env fuel x item) ∧
    (∀ t' v m', matchesTy env (fuel + 1) (.scalar t' v m') (.seq k item) = false) ∧
    (∀ t' ps m', matchesTy env (fuel + 1) (.map t' ps m') (.seq k item) = false) := by
  simp [matchesTy, matchesReq]

/-- dicts element-wise, with string (or string-like) keys -/
theorem C02_dict_elementwise (env : Env) (fuel : Nat) (k : MapKind) (K V : Ty) (t : String) (ps : Pairs) (m : Mark) :
    matchesTy env (fuel + 1) (.map t ps m) (.map k K V) =
      (keyTypeOk env K && ps.toList.all (fun p => matchesTy env fuel p.1 K && matchesTy env fuel p.2 V)) := by
  simp [matchesTy, matchesReq]

/-- a class: itself (unless abstract) or a registered class derived from it -/
theorem C02_class_rule (env : Env) (fuel : Nat) (n : Node) (c : String) (d : ClassDef) (top : Bool)
    (hf : env.find c = some d) :
    matchesReq env (fuel + 1) n (.classes c top) =
      ((env.directSubclasses c).any (fun s => matchesReq env fuel n (.classes s.name false)) ||
       (!d.abstract && classMatches (fun x U => matchesTy env fuel x U) d n)) := by
  simp [matchesReq, hf, matchesTy]

/-- a parameter of an auto-recognised class: the key itself, else the dashed key, else a default -/
theorem C02_attr_dashed_standin (m : Node → Ty → Bool) (ps : List (Node × Node)) (p : Param) :
    (hasKey ps p.name = true → attrMatches m ps p = valueMatches m ps p.ty p.name) ∧
    (hasKey ps p.name = false → hasKey ps (dashed p.name) = true →
      attrMatches m ps p = valueMatches m ps p.ty (dashed p.name)) ∧
    (hasKey ps p.name = false → hasKey ps (dashed p.name) = false → attrMatches m ps p = !p.required) := by
  refine ⟨?_, ?_, ?_⟩ <;> intros <;> simp_all [attrMatches]

/-- enums and string-likes by scalar kind; any other class needs a mapping -/
theorem C02_enum_stringlike_rule (m : Node → Ty → Bool) (d : ClassDef) (n : Node) :
    (d.kind = .stringLike → classMatches m d n = scalarTagged n tStr) ∧
    (∀ ms, d.kind = .enum ms → classMatches m d n = (scalarTagged n tStr || scalarTagged n tBool)) ∧
    (d.kind = .plain → ∀ t v mk, classMatches m d (.scalar t v mk) = false) := by
  refine ⟨?_, ?_, ?_⟩
  · intro h; simp [classMatches, h]
  · intro ms h; simp [classMatches, h]
  · intro h t v mk; simp [classMatches, h]

/-! ### what reaches the constructor -/

/-- after savorising: every required parameter is present, every present parameter has a value of its
type, every key is a string and names a parameter unless the class takes `_yatiml_extra` -/
theorem C02_attributes_checked (env : Env) (d : ClassDef) (n : Node) (ps : List (Node × Node))
    (mapping : List (PyVal × PyVal)) (h : checkAttributes env d n ps mapping = none) :
    (∀ p ∈ d.params, (p.required = true → (dictGet mapping p.name).isSome = true) ∧
      (∀ v, dictGet mapping p.name = some v → typeMatches env v p.ty = true)) ∧
    (∀ e ∈ mapping, ∃ k, e.1 = .scalar (.str k) ∧
      (d.argNames.contains k = true ∨ k = "self" ∨ d.takesExtra = true)) :=
  C01.checkAttributes_none env d n ps mapping h

/-- **Defaults are Python's.**  The keyword arguments of the constructor call are entries of the
constructed mapping (plus `_yatiml_extra`): a parameter the document omits is not passed at all. -/
theorem C02_defaults_not_passed (d : ClassDef) (mapping : List (PyVal × PyVal)) :
    ∀ e ∈ kwargsOf d mapping, e ∈ mapping ∨ e.1 = .scalar (.str "_yatiml_extra") := by
  intro e he
  unfold kwargsOf at he
  split at he
  · rcases List.mem_append.mp he with h | h
    · exact Or.inl (List.mem_filter.mp h).1
    · simp only [List.mem_singleton] at h
      right; rw [h]
  · exact Or.inl he

theorem filter_or_not {α : Type} (p : α → Bool) (l : List α) (e : α) (he : e ∈ l) :
    e ∈ l.filter p ∨ e ∈ l.filter (fun x => !p x) := by
  cases hp : p e
  · right; exact List.mem_filter.mpr ⟨he, by simp [hp]⟩
  · left; exact List.mem_filter.mpr ⟨he, hp⟩

theorem filter_disjoint {α : Type} (p : α → Bool) (l : List α) (e : α) (h1 : e ∈ l.filter p)
    (h2 : e ∈ l.filter (fun x => !p x)) : False := by
  have a := (List.mem_filter.mp h1).2
  have b := (List.mem_filter.mp h2).2
  simp [a] at b

/-- **Extras: ordered, complete, disjoint.**  For a class taking `_yatiml_extra`, the call gets the
parameter entries in document order followed by one `_yatiml_extra` dict holding exactly the other
entries, in document order. -/
theorem C02_extras_ordered_plain (d : ClassDef) (mapping : List (PyVal × PyVal)) (hx : d.takesExtra = true) :
    ∃ main extra, kwargsOf d mapping = main ++ [(.scalar (.str "_yatiml_extra"), .dict (PyKVs.ofList extra))] ∧
      main.Sublist mapping ∧ extra.Sublist mapping ∧
      (∀ e ∈ mapping, e ∈ main ∨ e ∈ extra) ∧ (∀ e, e ∈ main → e ∈ extra → False) := by
  unfold kwargsOf
  rw [if_pos hx]
  refine ⟨_, _, rfl, List.filter_sublist, List.filter_sublist, ?_, ?_⟩
  · intro e he
    exact filter_or_not _ _ e he
  · intro e h1 h2
    exact filter_disjoint _ _ e h1 h2

end YatimlModel.C02
