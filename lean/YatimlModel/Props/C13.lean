import YatimlModel.Model.Process
import YatimlModel.Lemmas.Unrelated
import YatimlModel.Lemmas.KindErase
/-!
# C13 — load is invariant under changes that do not alter the document's meaning

Proved on the model: recognising a mapping as an (auto-recognised) class does not depend on the order of
its keys; the tag a recognised type is given does not depend on which of List/Sequence/MutableSequence
or Dict/Mapping/MutableMapping was written; `bool_union_fix` next to `bool` never changes the set of
recognised types.  Styles are not part of the model at all (no code path reads them).  The remaining
transformations are checked on the real code (re-serialisation, unrelated classes, kinds and
`bool_union_fix` through the whole pipeline).
-/
namespace YatimlModel.C13
open YatimlModel NodeOps

theorem hasKey_perm {ps ps' : List (Node × Node)} (h : ps.Perm ps') (a : String) :
    hasKey ps a = hasKey ps' a := by
  unfold hasKey
  rw [Bool.eq_iff_iff, List.any_eq_true, List.any_eq_true]
  exact ⟨fun ⟨p, hp, hk⟩ => ⟨p, h.mem_iff.mp hp, hk⟩, fun ⟨p, hp, hk⟩ => ⟨p, h.mem_iff.mpr hp, hk⟩⟩

theorem valuesOf_perm {ps ps' : List (Node × Node)} (h : ps.Perm ps') (a : String) :
    (valuesOf ps a).Perm (valuesOf ps' a) := by
  unfold valuesOf
  exact (h.filter _).map _

theorem tryAttrName_perm (rec : Node → Ty → RecRes) {ps ps' : List (Node × Node)} (h : ps.Perm ps')
    (ty : Ty) (name : String) : tryAttrName rec ps ty name = tryAttrName rec ps' ty name := by
  unfold tryAttrName
  rw [hasKey_perm h name]
  have hv := valuesOf_perm h name
  split
  · congr 1
    cases hv1 : valuesOf ps name with
    | nil =>
      rw [hv1] at hv
      rw [List.nil_perm.mp hv]
    | cons v rest =>
      cases rest with
      | nil =>
        rw [hv1] at hv
        rw [List.perm_singleton.mp hv.symm]
      | cons w rest' =>
        rw [hv1] at hv
        have hl := hv.length_eq
        cases hv2 : valuesOf ps' name with
        | nil => simp [hv2] at hl
        | cons x xs =>
          cases xs with
          | nil => simp [hv2] at hl
          | cons y ys => simp
  · rfl

/-- **Key order.**  Recognising a mapping as an automatically recognised class gives the same answer for
every permutation of its key/value pairs. -/
theorem C13_key_order_recognition (env : Env) (rec : Node → Ty → RecRes) (t : String) (m : Mark)
    {ps ps' : List (Node × Node)} (h : ps.Perm ps') (d : ClassDef) (hauto : d.recognize = none) :
    recUserClass env rec (.map t (Pairs.ofList ps) m) d = recUserClass env rec (.map t (Pairs.ofList ps') m) d := by
  have hattrs : ∀ params, recAttrs rec (.map t (Pairs.ofList ps) m) ps params
      = recAttrs rec (.map t (Pairs.ofList ps') m) ps' params := by
    intro params
    induction params with
    | nil => rfl
    | cons p rest ih =>
      have : recAttr rec (.map t (Pairs.ofList ps) m) ps p = recAttr rec (.map t (Pairs.ofList ps') m) ps' p := by
        unfold recAttr
        rw [tryAttrName_perm rec h, tryAttrName_perm rec h]
        rfl
      unfold recAttrs
      rw [this, ih]
  unfold recUserClass
  simp only [hauto, Pairs.toList_ofList]
  cases d.kind <;> simp [hattrs, Node.mark]

/-- **Interchangeable container annotations**: the tag given to a recognised sequence / mapping type does
not depend on the kind written in the annotation, -/
theorem C13_typeToTag_kind (env : Env) (k k' : SeqKind) (i i' : Ty) (mk mk' : MapKind) (a b a' b' : Ty) :
    typeToTag env (.seq k i) = typeToTag env (.seq k' i') ∧
    typeToTag env (.map mk a b) = typeToTag env (.map mk' a' b') := ⟨rfl, rfl⟩

/-- **bool_union_fix.**  Adding `bool_union_fix` to what a Union containing `bool` recognises changes
nothing: it is dropped whenever `bool` is recognised too, and it is recognised exactly when `bool` is. -/
theorem mem_insertT' (t x : Ty) (s : List Ty) : t ∈ insertT x s ↔ t = x ∨ t ∈ s := by
  unfold insertT
  split
  · rename_i h
    constructor
    · intro h'; exact Or.inr h'
    · rintro (rfl | h')
      · simpa using h
      · exact h'
  · simp [List.mem_append]; grind

theorem C13_bool_union_fix :
    (∀ n : Node, ((recScalar n .boolFix tBool).toOption.map (fun r => r.1.length)) =
      ((recScalar n .bool tBool).toOption.map (fun r => r.1.length))) ∧
    ∀ ts : List Ty, ts.contains .bool = true → Ty.boolFix ∉ dropBoolFix (insertT .boolFix ts) := by
  constructor
  · intro n
    cases n with
    | scalar t v m =>
      unfold recScalar
      by_cases ht : (t == tBool) = true <;> simp [ht, recOk, recFail, Except.toOption]
    | seq t xs m => simp [recScalar, recFail, Except.toOption]
    | map t ps m => simp [recScalar, recFail, Except.toOption]
  · intro ts hb hmem
    unfold dropBoolFix at hmem
    have h1 : Ty.bool ∈ insertT Ty.boolFix ts := by
      simp only [List.contains_iff_mem] at hb
      exact (mem_insertT' _ _ _).mpr (Or.inr hb)
    have h2 : Ty.boolFix ∈ insertT Ty.boolFix ts := (mem_insertT' _ _ _).mpr (Or.inl rfl)
    have hc : ((insertT Ty.boolFix ts).contains Ty.bool && (insertT Ty.boolFix ts).contains Ty.boolFix) = true := by
      simp [h1, h2]
    rw [if_pos hc] at hmem
    simp at hmem

/-- **Unrelated classes.**  Registering one more class that has a new name, is not derived from a
registered class and is not mentioned by any registered class (parameter types, custom recognisers)
leaves recognition of every node that is not tagged with the new class, against every type that does not
mention it, exactly as it was: same recognised types, same error, same fatal outcome. -/
theorem C13_unrelated_class (env : Env) (d : ClassDef) (hu : Unrelated env d) (fuel : Nat) (n : Node) (T : Ty)
    (hn : TagFree ("!" ++ d.name) n) (hT : NoU d.name T) :
    recognize (env.plus d) fuel n T = recognize env fuel n T :=
  recognizeReq_plus env d hu fuel n (.ty T) hn hT

/-! ### interchanged container annotations -/

/-- **List / Sequence / MutableSequence and Dict / Mapping / MutableMapping are interchangeable as far as
the documented language goes.**  Two class models and types that differ only in which of the three
spellings their annotations use (they have the same erasure) admit exactly the same nodes. -/
theorem C13_kind_interchange_language (env env2 : Env) (T T2 : Ty)
    (he : eraseEnv env = eraseEnv env2) (ht : eraseKinds T = eraseKinds T2) (fuel : Nat) (n : Node) :
    Spec.matchesTy env fuel n T = Spec.matchesTy env2 fuel n T2 := by
  unfold Spec.matchesTy
  rw [← matches_erase env fuel n (.ty T), ← matches_erase env2 fuel n (.ty T2)]
  simp only [eraseReq, he, ht]

/-- Lifted to the recogniser (class models without custom recognisers, nodes without user tags): under
either spelling, whenever both recognitions return, the node is recognised as *some* type under the one
iff it is under the other — a document is never rejected for lack of a matching type under one spelling
and accepted under the other.  (What can differ is *ambiguity*: `Union[List[int], Sequence[int]]` names one
kind of list twice; DESIGN.md 7a.) -/
theorem C13_kind_interchange_recognised (env env2 : Env) (T T2 : Ty)
    (hauto : AutoRecognised env) (hauto2 : AutoRecognised env2)
    (he : eraseEnv env = eraseEnv env2) (ht : eraseKinds T = eraseKinds T2) (fuel : Nat) (n : Node)
    (hcore : AllCore n) (ts ts2 : List Ty) (ls ls2 : List Leaf)
    (h1 : recognize env fuel n T = .ok (ts, ls)) (h2 : recognize env2 fuel n T2 = .ok (ts2, ls2)) :
    ts ≠ [] ↔ ts2 ≠ [] := by
  have a := recognizeReq_iff_matches env hauto fuel n (.ty T) ts ls hcore h1
  have b := recognizeReq_iff_matches env2 hauto2 fuel n (.ty T2) ts2 ls2 hcore h2
  have c := C13_kind_interchange_language env env2 T T2 he ht fuel n
  unfold Spec.matchesTy at c
  rw [a, b, c]

-- non-vacuity: two spellings of the same model
example : eraseKinds (.seq .sequence (.map .mutableMapping .str .int))
    = eraseKinds (.seq .mutableSequence (.map .mapping .str .int)) := rfl

end YatimlModel.C13
