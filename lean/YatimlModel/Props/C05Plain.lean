import YatimlModel.Lemmas.RoundTrip
import YatimlModel.Model.Represent
import YatimlModel.Lemmas.IntText
/-!
# C05 for plain data, closed: what the representers write for a value loads back as that value

`Props/C05RoundTrip` proves `load` returns `v` for every node that *describes* `v` (`RT`); the
description contains the precondition of C05 — recognition is unambiguous at every node.  For the
fragment of plain data — strings (whatever they look like), integers, booleans, `None`, lists, and
dicts with string keys, nested to any depth, under any of the container spellings — the description
is *derived* here from the model of the representers, so the round trip holds without any such
precondition, for every class model (the classes play no role) and every resolver table:

    represent v = node   and   v has type T   ⟹   load(node, T) = v.

The text layer (quoting, so that a string that looks like a number is re-read as a string) is the
subject of `C05_quoted_strings_stay_strings`.
-/
namespace YatimlModel.C05
open YatimlModel NodeOps

/-- plain-data values of a plain-data type; dict keys are strings, pairwise different (as a Python
dict's keys are) -/
inductive HasTy : Ty → PyVal → Prop
  | str (s : String) : HasTy .str (.scalar (.str s))
  | int (i : Int) : HasTy .int (.scalar (.int i))
  | bool (b : Bool) : HasTy .bool (.scalar (.bool b))
  | null : HasTy .null (.scalar .none)
  | seq (k : SeqKind) (item : Ty) (xs : PyVals) : (∀ x ∈ xs.toList, HasTy item x) → HasTy (.seq k item) (.list xs)
  | map (k : MapKind) (V : Ty) (kvs : PyKVs) :
      (∀ e ∈ kvs.toList, ∃ s, e.1 = .scalar (.str s)) → (∀ e ∈ kvs.toList, HasTy V e.2) → KeysOk kvs.toList →
      HasTy (.map k .str V) (.dict kvs)

/-- what one call of the recogniser must say about an item for the element-wise rules to go through -/
def Unique (r : RecRes) : Prop := ∃ R l, r = .ok ([R], l)

theorem recListItems_unique (rec : Node → Ty → RecRes) (T item : Ty) :
    ∀ (ns : List Node), (∀ n ∈ ns, Unique (rec n item)) → recListItems rec T item none ns = recOk T
  | [], _ => by simp [recListItems, recDone]
  | n :: ns, h => by
    obtain ⟨R, l, hr⟩ := h n (by simp)
    simp only [recListItems, hr, List.length_singleton, noteAmb]
    simp only [Nat.reduceBEq, Bool.false_eq_true, ↓reduceIte, Nat.lt_irrefl]
    exact recListItems_unique rec T item ns (fun x hx => h x (by simp [hx]))

theorem recDictPairs_unique (rec : Node → Ty → RecRes) (T K V : Ty) :
    ∀ (ps : List (Node × Node)), (∀ p ∈ ps, Unique (rec p.1 K) ∧ Unique (rec p.2 V)) →
      recDictPairs rec T K V none ps = recOk T
  | [], _ => by simp [recDictPairs, recDone]
  | (k, v) :: ps, h => by
    obtain ⟨⟨R, l, hk⟩, ⟨R', l', hv⟩⟩ := h (k, v) (by simp)
    simp only at hk hv
    simp only [recDictPairs, hk, hv, List.length_singleton, noteAmb]
    simp only [Nat.reduceBEq, Bool.false_eq_true, ↓reduceIte, Nat.lt_irrefl]
    exact recDictPairs_unique rec T K V ps (fun x hx => h x (by simp [hx]))

theorem repItems_all2 (rep : PyVal → Except DumpErr RepOut) :
    ∀ (xs : List PyVal) (ns : List Node) (tr : List String), repItems rep xs = .ok (ns, tr) →
      All2 (fun x n => ∃ o, rep x = .ok o ∧ o.node = n) xs ns
  | [], ns, tr, h => by simp only [repItems] at h; cases h; exact All2.nil
  | x :: xs, ns, tr, h => by
    simp only [repItems] at h
    split at h
    · cases h
    · rename_i o ho
      split at h
      · cases h
      · rename_i ns' tr' hrest
        cases h
        exact All2.cons ⟨o, ho, rfl⟩ (repItems_all2 rep xs ns' tr' hrest)

theorem repPairs_all2 (rep : PyVal → Except DumpErr RepOut) :
    ∀ (kvs : List (PyVal × PyVal)) (ps : List (Node × Node)) (tr : List String), repPairs rep kvs = .ok (ps, tr) →
      All2 (fun e p => (∃ o, rep e.1 = .ok o ∧ o.node = p.1) ∧ (∃ o, rep e.2 = .ok o ∧ o.node = p.2)) kvs ps
  | [], ps, tr, h => by simp only [repPairs] at h; cases h; exact All2.nil
  | (k, v) :: r, ps, tr, h => by
    simp only [repPairs] at h
    split at h
    · cases h
    · rename_i ko hko
      split at h
      · cases h
      · rename_i vo hvo
        split at h
        · cases h
        · rename_i ps' tr' hrest
          cases h
          exact All2.cons ⟨⟨ko, hko, rfl⟩, ⟨vo, hvo, rfl⟩⟩ (repPairs_all2 rep r ps' tr' hrest)

theorem all2_mem_right {α β : Type} {r : α → β → Prop} : ∀ {as : List α} {bs : List β},
    All2 r as bs → ∀ b ∈ bs, ∃ a ∈ as, r a b
  | _, _, .nil, b, hb => by cases hb
  | _, _, .cons (a := a) hab rest, b, hb => by
    rcases List.mem_cons.mp hb with rfl | h
    · exact ⟨a, by simp, hab⟩
    · obtain ⟨a', ha', hr⟩ := all2_mem_right rest b h
      exact ⟨a', by simp [ha'], hr⟩

theorem all2_imp_mem {α β : Type} {r s : α → β → Prop} : ∀ {as : List α} {bs : List β},
    All2 r as bs → (∀ a ∈ as, ∀ b, r a b → s a b) → All2 s as bs
  | _, _, .nil, _ => All2.nil
  | _, _, .cons (a := a) (b := b) hab rest, h =>
    All2.cons (h a (by simp) b hab) (all2_imp_mem rest (fun a' ha' b' hr => h a' (by simp [ha']) b' hr))

theorem rt_unique {env : Env} {tbl : List Entry} {f : Nat} {T : Ty} {v : PyVal} {n : Node}
    (h : RT env tbl f T v n) : Unique (recognize env f n T) := by
  cases f with
  | zero => simp [RT] at h
  | succ f =>
    simp only [RT] at h
    obtain ⟨R, l, hr, _⟩ := h
    exact ⟨R, l, hr⟩

/-- **The representers' node describes the value**, for plain data of any depth. -/
theorem plain_described (env : Env) (denv : DumpEnv) (tbl : List Entry) :
    ∀ (f : Nat) (T : Ty) (v : PyVal) (o : RepOut), represent denv f v = .ok o → HasTy T v →
      RT env tbl f T v o.node
  | 0, _, _, _, h, _ => by simp [represent] at h
  | f + 1, T, v, o, h, ht => by
    cases ht with
    | str s =>
      simp only [represent, representScalar] at h; cases h
      exact ⟨.str, [okLeaf], by simp [recognize, recognizeReq, recScalar, recOk], RTcore.str s _⟩
    | int i =>
      simp only [represent, representScalar] at h; cases h
      exact ⟨.int, [okLeaf], by simp [recognize, recognizeReq, recScalar, recOk],
        RTcore.int i _ _ (constructInt_int i)⟩
    | bool b =>
      simp only [represent, representScalar] at h; cases h
      refine ⟨.bool, [okLeaf], by simp [recognize, recognizeReq, recScalar, recOk], RTcore.bool b _ _ ?_⟩
      cases b <;> decide
    | null =>
      simp only [represent, representScalar] at h; cases h
      exact ⟨.null, [okLeaf], by simp [recognize, recognizeReq, recScalar, recOk], RTcore.null _ _⟩
    | seq k item xs hx =>
      simp only [represent] at h
      split at h
      · cases h
      · rename_i ns tr hitems
        cases h
        have ha := repItems_all2 (represent denv f) xs.toList ns tr hitems
        have hrt : All2 (RT env tbl f item) xs.toList ns :=
          all2_imp_mem ha (fun x hxm n ⟨o, ho, hn⟩ => hn ▸ plain_described env denv tbl f item x o ho (hx x hxm))
        have huniq : ∀ n ∈ ns, Unique (recognizeReq env f n (.ty item)) := by
          intro n hn
          obtain ⟨x, _, hr⟩ := all2_mem_right hrt n hn
          exact rt_unique hr
        refine ⟨.seq k item, [okLeaf], ?_, RTcore.seq k item xs (Nodes.ofList ns) _ (by simpa using hrt)⟩
        simp only [recognize, recognizeReq, recList, Nodes.toList_ofList]
        exact recListItems_unique _ _ _ ns huniq
    | map k V kvs hes hev hk =>
      simp only [represent] at h
      split at h
      · cases h
      · rename_i ps tr hpairs
        cases h
        have ha := repPairs_all2 (represent denv f) kvs.toList ps tr hpairs
        have hrt : All2 (fun e p => RT env tbl f .str e.1 p.1 ∧ RT env tbl f V e.2 p.2) kvs.toList ps :=
          all2_imp_mem ha (fun e hem p ⟨⟨ko, hko, hkn⟩, ⟨vo, hvo, hvn⟩⟩ => by
            obtain ⟨s, hs⟩ := hes e hem
            have hv := hev e hem
            refine ⟨?_, hvn ▸ plain_described env denv tbl f V e.2 vo hvo hv⟩
            rw [hs] at hko ⊢
            exact hkn ▸ plain_described env denv tbl f .str _ ko hko (HasTy.str s))
        have huniq : ∀ p ∈ ps, Unique (recognizeReq env f p.1 (.ty .str)) ∧ Unique (recognizeReq env f p.2 (.ty V)) := by
          intro p hp
          obtain ⟨e, _, hr1, hr2⟩ := all2_mem_right hrt p hp
          exact ⟨rt_unique hr1, rt_unique hr2⟩
        refine ⟨.map k .str V, [okLeaf], ?_,
          RTcore.map k .str V kvs (Pairs.ofList ps) _ (by simpa using hrt) hk rfl⟩
        simp only [recognize, recognizeReq, recDict, keyTypeOk, Bool.not_true, Bool.false_eq_true, ↓reduceIte,
          Pairs.toList_ofList]
        exact recDictPairs_unique _ _ _ _ ps huniq

/-- **Plain data round trip (node level), closed form.**  For every class model, resolver table, plain
type `T` (strings, integers, booleans, `None`, lists and string-keyed dicts under any spelling, nested
to any depth) and value of that type: the node tree the representers build loads back as exactly that
value — strings that look like numbers, booleans, nulls or dates included, list and mapping order kept. -/
theorem C05_plain_data_roundtrip (env : Env) (denv : DumpEnv) (tbl : List Entry) (f : Nat) (T : Ty)
    (v : PyVal) (o : RepOut) (hrep : represent denv f v = .ok o) (hty : HasTy T v) :
    ∃ calls trace processed, loadNode env tbl f o.node T = .ok ⟨v, calls, trace, processed⟩ :=
  RT_load env tbl f T v o.node (plain_described env denv tbl f T v o hrep hty)

end YatimlModel.C05

namespace YatimlModel.C05
open YatimlModel
-- non-vacuity: a list of string-keyed dicts whose strings look like a number, a boolean and a null
example : HasTy (.seq .sequence (.map .mutableMapping .str (.seq .list .str)))
    (.list (PyVals.ofList [.dict (PyKVs.ofList [(.scalar (.str "1e5"), .list (PyVals.ofList [.scalar (.str "true"), .scalar (.str "~")]))])])) := by
  refine HasTy.seq _ _ _ ?_
  intro x hx
  simp [PyVals.ofList, PyVals.toList] at hx
  subst hx
  refine HasTy.map _ _ _ ?_ ?_ ?_
  · intro e he; simp [PyKVs.ofList, PyKVs.toList] at he; subst he; exact ⟨_, rfl⟩
  · intro e he; simp [PyKVs.ofList, PyKVs.toList] at he; subst he
    refine HasTy.seq _ _ _ ?_
    intro y hy
    simp [PyVals.ofList, PyVals.toList] at hy
    rcases hy with rfl | rfl <;> exact HasTy.str _
  · constructor
    · intro e he; simp [PyKVs.ofList, PyKVs.toList] at he; subst he; rfl
    · simp [PyKVs.ofList, PyKVs.toList]
end YatimlModel.C05
