import YatimlModel.Gen.CallSites
/-!
# C12 — every source and sink kind gives the same result

`yaml.load` / `yaml.dump` are PyYAML: here they are *universally quantified* functions of their
arguments.  The theorems say that every branch of a generated function object calls them with the same
Loader/Dumper class and the same options, evaluated from the regenerated call-site table; the abstract
statement `C12_sinks_equal` / `C12_sources_equal` follows for every such function.  That a text stream,
a binary stream and a `str` decode to the same characters, and that `Path.open('w')` writes what
`StringIO` collects, is OS/CPython behaviour (exercised over all source/sink kinds on every run).
-/
namespace YatimlModel.C12
open YatimlModel YatimlModel.Gen

def sitesOf (f : String) : List CallSite := callSites.filter (fun s => s.factory == f)
def setupOf (f : String) : Option (List String) := factorySetup.lookup f

/-- the options a call site passes, evaluated for given values of the function's parameters -/
def evalKw (env : String → String) (kw : List (String × String)) : List (String × String) :=
  kw.map (fun e => (e.1, env e.2))

/-- what a call site makes of the object and the options: the abstract text PyYAML produces is a
function of (callee, first positional argument, evaluated keyword arguments) -/
def textOf (yaml : String → String → List (String × String) → String) (env : String → String)
    (s : CallSite) : String :=
  yaml s.callee (env (s.args.headD "")) (evalKw env s.kwargs)

/-- all sites of `f` agree with all sites of `g` on callee, object argument and keyword arguments -/
def sameCall (f g : String) : Bool :=
  (sitesOf f).all (fun s => (sitesOf g).all (fun d =>
    s.callee == d.callee && s.args.head? == d.args.head? && s.kwargs == d.kwargs))

theorem dump_matches_dumps : sameCall "dump_function" "dumps_function" = true := by decide
theorem dump_json_matches_dumps_json : sameCall "dump_json_function" "dumps_json_function" = true := by decide
theorem load_sites_agree :
    (sitesOf "load_function").all (fun s => s.callee == "yaml.load" && s.kwargs == [("Loader", "CLS")]) = true := by
  decide
theorem setups_agree :
    setupOf "dump_function" = setupOf "dumps_function" ∧
    setupOf "dump_json_function" = setupOf "dumps_json_function" ∧
    (setupOf "dump_function").isSome = true ∧ (setupOf "dump_json_function").isSome = true := by decide
theorem sites_exist :
    (sitesOf "dump_function").length = 2 ∧ (sitesOf "dump_json_function").length = 2 ∧
    (sitesOf "dumps_function").length = 1 ∧ (sitesOf "dumps_json_function").length = 1 ∧
    (sitesOf "load_function").length = 2 := by decide

/-- the only tests and context managers a `__call__` may contain -/
def allowedBranch : List String :=
  ["isinstance(source, Path)", "not (isinstance(source, Path))", "isinstance(sink, Path)",
   "not (isinstance(sink, Path))", "with sink.open('w') as fh", "with source.open('r') as fh"]

/-- **The whole body.**  Apart from the yaml calls, a `__call__` contains nothing but the conversion of
a file name into a `Path`; no early return, no other statement.  A Path sink is opened with `'w'`
(truncating, text mode), a Path source with `'r'`; the `dumps` variants and `load` return PyYAML's
result itself, the `dump` variants return nothing. -/
theorem skeleton :
    otherStatements = [("dump_function", ["isinstance(sink, str)"], "sink = Path(sink)"),
                       ("dump_json_function", ["isinstance(sink, str)"], "sink = Path(sink)")] ∧
    callSites.all (fun s => s.branch.all (fun b => allowedBranch.contains b)) = true ∧
    callSites.all (fun s => s.returned ==
      (s.factory == "load_function" || s.factory == "dumps_function" || s.factory == "dumps_json_function")) = true := by
  decide

theorem textOf_eq_of_sameCall (f g : String) (h : sameCall f g = true)
    (yaml : String → String → List (String × String) → String) (env : String → String)
    (s d : CallSite) (hs : s ∈ sitesOf f) (hd : d ∈ sitesOf g) : textOf yaml env s = textOf yaml env d := by
  simp only [sameCall, List.all_eq_true, Bool.and_eq_true, beq_iff_eq] at h
  obtain ⟨⟨h1, h2⟩, h3⟩ := h s hs d hd
  unfold textOf
  have : s.args.headD "" = d.args.headD "" := by
    cases ha : s.args <;> cases hb : d.args <;> simp_all
  rw [h1, this, h3]

/-- **Sinks.**  Whatever PyYAML's `yaml.dump` is, for every object and every option values, each branch
of `dump_function` (file name, Path, open stream) hands PyYAML the same object, the same Dumper class
and the same options as `dumps_function` does — so the text written is the text returned; likewise for
the JSON pair, including `indent` and `ensure_ascii`. -/
theorem C12_sinks_equal (yaml : String → String → List (String × String) → String) (env : String → String) :
    (∀ s ∈ sitesOf "dump_function", ∀ d ∈ sitesOf "dumps_function", textOf yaml env s = textOf yaml env d) ∧
    (∀ s ∈ sitesOf "dump_json_function", ∀ d ∈ sitesOf "dumps_json_function",
      textOf yaml env s = textOf yaml env d) :=
  ⟨fun s hs d hd => textOf_eq_of_sameCall _ _ dump_matches_dumps yaml env s d hs hd,
   fun s hs d hd => textOf_eq_of_sameCall _ _ dump_json_matches_dumps_json yaml env s d hs hd⟩

/-- **Sources.**  Every branch of `LoadFunction.__call__` (Path opened for reading, or the str / stream
itself) reaches `yaml.load` with the function's own Loader class and nothing else. -/
theorem C12_sources_equal (s d : CallSite) (hs : s ∈ sitesOf "load_function") (hd : d ∈ sitesOf "load_function") :
    s.callee = d.callee ∧ s.kwargs = d.kwargs := by
  have h := List.all_eq_true.mp load_sites_agree
  have h1 := h s hs
  have h2 := h d hd
  simp only [Bool.and_eq_true, beq_iff_eq] at h1 h2
  exact ⟨h1.1.trans h2.1.symm, h1.2.trans h2.2.symm⟩

end YatimlModel.C12
