import YatimlModel.Lemmas.RoundTrip
import YatimlModel.Model.Represent
import YatimlModel.Lemmas.IntText
/-!
# C05 — the round trip at node level

`C05_node_roundtrip`: whatever node tree the representers produce for a value `v`, if it is a *faithful
description* of `v` for the declared type (`RT`: at every node recognition singles out one type, and
the node has the shape of a represented value of that kind), then loading it returns exactly `v`.
The proof (`Lemmas/RoundTrip`) follows the real pipeline: recognition, savorizing, the attribute loop,
retagging, tag stripping of extra attributes, PyYAML's `flatten_mapping` / `construct_mapping`, the
missing / unknown / type checks of the constructor, the split into keyword arguments and
`_yatiml_extra`, and the constructor call.

The shapes the representers produce are established separately (`C05_scalars_described`, and by
evaluation in the worked example); unambiguity of recognition is the property's own precondition
("classes registered with both functions", unambiguous models) and stays a hypothesis, stated per
node in terms of the recogniser itself.
-/
namespace YatimlModel.C05RT
open YatimlModel NodeOps

/-- **Node-level round trip**: if the represented node faithfully describes the value, `load` returns
the value — same classes, equal attribute values, same list and mapping order. -/
theorem C05_node_roundtrip (env : Env) (denv : DumpEnv) (tbl : List Entry) (fuel f : Nat) (T : Ty)
    (v : PyVal) (o : RepOut) (_hrep : represent denv f v = .ok o)
    (hdesc : RT env tbl fuel T v o.node) :
    ∃ calls trace processed, loadNode env tbl fuel o.node T = .ok ⟨v, calls, trace, processed⟩ :=
  RT_load env tbl fuel T v o.node hdesc

/-- the same for any node that describes the value, wherever it came from (marks are irrelevant) -/
theorem C05_described_node_loads (env : Env) (tbl : List Entry) (fuel : Nat) (T : Ty) (v : PyVal) (n : Node)
    (hdesc : RT env tbl fuel T v n) :
    ∃ calls trace processed, loadNode env tbl fuel n T = .ok ⟨v, calls, trace, processed⟩ :=
  RT_load env tbl fuel T v n hdesc

/-- a node describes at most one value -/
theorem C05_described_value_unique (env : Env) (tbl : List Entry) (fuel : Nat) (T : Ty) (v v' : PyVal) (n : Node)
    (h : RT env tbl fuel T v n) (h' : RT env tbl fuel T v' n) : v = v' := by
  obtain ⟨c, t, p, hl⟩ := RT_load env tbl fuel T v n h
  obtain ⟨c', t', p', hl'⟩ := RT_load env tbl fuel T v' n h'
  rw [hl] at hl'
  injection hl' with hl'
  injection hl'

/-- **dumping is faithful**: two values that are represented by the same node, both of them described by
it, are the same value (nothing is lost on the way out) -/
theorem C05_dump_injective (env : Env) (denv : DumpEnv) (tbl : List Entry) (fuel f : Nat) (T : Ty) (v v' : PyVal)
    (o o' : RepOut) (hr : represent denv f v = .ok o) (hr' : represent denv f v' = .ok o')
    (hsame : o.node = o'.node) (h : RT env tbl fuel T v o.node) (h' : RT env tbl fuel T v' o'.node) : v = v' := by
  have _ := hr
  have _ := hr'
  rw [← hsame] at h'
  exact C05_described_value_unique env tbl fuel T v v' o.node h h'

/-- strings, booleans and null are represented by nodes of the described shape, whatever their text
("strings that look like numbers, booleans, nulls" are `!!str` nodes and come back as strings) -/
theorem C05_scalars_described (env : Env) (tbl : List Entry) (fuel : Nat) (rt : Ty → PyVal → Node → Prop) :
    (∀ s, RTcore env tbl fuel rt .str (.scalar (.str s)) (representScalar (.str s))) ∧
    (∀ b, RTcore env tbl fuel rt .bool (.scalar (.bool b)) (representScalar (.bool b))) ∧
    RTcore env tbl fuel rt .null (.scalar .none) (representScalar .none) := by
  refine ⟨fun s => RTcore.str s _, fun b => ?_, RTcore.null _ _⟩
  cases b
  · exact RTcore.bool false "false" _ (by decide)
  · exact RTcore.bool true "true" _ (by decide)

/-- **integers**: the decimal text `represent_int` writes is read back by `construct_yaml_int` as the same
integer, for every integer (`Lemmas/IntText.constructInt_int`: sign, no leading zero, no `_`, no `:`, base
10), so a represented int is a node of the described shape -/
theorem C05_ints_described (env : Env) (tbl : List Entry) (fuel : Nat) (rt : Ty → PyVal → Node → Prop) (i : Int) :
    RTcore env tbl fuel rt .int (.scalar (.int i)) (representScalar (.int i)) :=
  RTcore.int i (toString i) _ (constructInt_int i)

/-- an integer loads back as that integer when an `int` is expected -/
theorem C05_int_roundtrip (env : Env) (tbl : List Entry) (fuel : Nat) (i : Int) :
    ∃ calls trace processed,
      loadNode env tbl (fuel + 1) (representScalar (.int i)) .int = .ok ⟨.scalar (.int i), calls, trace, processed⟩ := by
  apply RT_load
  refine ⟨.int, [okLeaf], ?_, C05_ints_described env tbl fuel _ i⟩
  simp [recognize, recognizeReq, recScalar, representScalar, recOk]

/-! ## the shapes the representers produce (for classes without `_yatiml_sweeten`): exactly the node shapes
that `RTcore` describes — an enum member is its name, a string-like its text, a list a `!!seq` of the
represented items, a dict a `!!map` of the represented pairs, a user object a `!!map` of its attributes
(parameters, then the extra attributes) -/

theorem C05_represent_enum (denv : DumpEnv) (f : Nat) (c name : String) (d : DumpClass)
    (hd : denv.find c = some d) (hs : d.sweetenMro = none) :
    represent denv (f + 1) (.enumMember c name) = .ok ⟨.scalar tStr name gen, []⟩ := by
  simp [represent, hd, hs]

theorem C05_represent_stringlike (denv : DumpEnv) (f : Nat) (c s : String) (d : DumpClass)
    (hd : denv.find c = some d) (hs : d.sweetenMro = none) :
    represent denv (f + 1) (.userStr c s) = .ok ⟨.scalar tStr s gen, []⟩ := by
  simp [represent, hd, hs]

theorem C05_represent_list (denv : DumpEnv) (f : Nat) (xs : PyVals) (ns : List Node) (tr : List String)
    (h : repItems (represent denv f) xs.toList = .ok (ns, tr)) :
    represent denv (f + 1) (.list xs) = .ok ⟨.seq tSeq (Nodes.ofList ns) gen, tr⟩ := by
  simp [represent, h]

theorem C05_represent_dict (denv : DumpEnv) (f : Nat) (kvs : PyKVs) (ps : List (Node × Node)) (tr : List String)
    (h : repPairs (represent denv f) kvs.toList = .ok (ps, tr)) :
    represent denv (f + 1) (.dict kvs) = .ok ⟨.map tMap (Pairs.ofList ps) gen, tr⟩ := by
  simp [represent, h]

theorem C05_represent_object (denv : DumpEnv) (f : Nat) (c : String) (kw : PyKVs) (d : DumpClass)
    (ps : List (Node × Node)) (tr : List String) (hd : denv.find c = some d)
    (hown : d.sweetenOwn = none) (hbases : d.bases.filterMap (fun b => denv.find b) = [])
    (h : repPairs (represent denv f) (attributesOf kw.toList) = .ok (ps, tr)) :
    represent denv (f + 1) (.obj c kw) = .ok ⟨.map tMap (Pairs.ofList ps) gen, tr ++ []⟩ := by
  simp [represent, hd, h, sweeten, hown, hbases]

/-- a string, whatever its text, loads back as that string when a `str` is expected -/
theorem C05_string_roundtrip (env : Env) (tbl : List Entry) (fuel : Nat) (s : String) :
    ∃ calls trace processed,
      loadNode env tbl (fuel + 1) (representScalar (.str s)) .str = .ok ⟨.scalar (.str s), calls, trace, processed⟩ := by
  apply RT_load
  refine ⟨.str, [okLeaf], ?_, RTcore.str s _⟩
  simp [recognize, recognizeReq, recScalar, representScalar, recOk]

/-! ## a worked example: the hypotheses are satisfiable by a model with an enum whose member is spelt
like a boolean, a string-like, a list of strings that look like other scalars, and extra attributes -/

def exExt : Ext := ⟨fun _ => none, fun _ => none, fun _ => none⟩
def colour : ClassDef :=
  { name := "Colour", bases := [], ancestors := [], kind := .enum ["red", "true"], abstract := false, params := [], argNames := [], extraTy := none, recognize := none, savorize := none, initRaises := fun _ => false }
def nameC : ClassDef :=
  { name := "Name", bases := [], ancestors := [], kind := .stringLike, abstract := false, params := [], argNames := ["s"], extraTy := none, recognize := none, savorize := none, initRaises := fun _ => false }
def shape : ClassDef :=
  { name := "Shape", bases := [], ancestors := [], kind := .plain, abstract := false, params := [⟨"name", .cls "Name", true, true⟩, ⟨"tags", .seq .list .str, true, true⟩, ⟨"colour", .cls "Colour", true, false⟩], argNames := ["name", "tags", "colour", "_yatiml_extra"], extraTy := none, recognize := none, savorize := none, initRaises := fun _ => false }
def exEnv : Env := ⟨[colour, nameC, shape], exExt⟩
def exDenv : DumpEnv :=
  ⟨[⟨"Colour", [], .enum ["red", "true"], none, none⟩, ⟨"Name", [], .stringLike, none, none⟩, ⟨"Shape", [], .plain, none, none⟩], ["str", "list", "dict", "bool"]⟩

def mainKw : List (PyVal × PyVal) :=
  [(strKey "name", .userStr "Name" "sq"),
   (strKey "tags", .list (PyVals.ofList [.scalar (.str "12"), .scalar (.str "true")])),
   (strKey "colour", .enumMember "Colour" "true")]
def extraKw : List (PyVal × PyVal) := [(strKey "note", .scalar (.bool true))]
def exVal : PyVal := .obj "Shape" (PyKVs.ofList (mainKw ++ [(strKey "_yatiml_extra", .dict (PyKVs.ofList extraKw))]))

def mainPs : List (Node × Node) :=
  [(.scalar tStr "name" gen, .scalar tStr "sq" gen),
   (.scalar tStr "tags" gen, .seq tSeq (Nodes.ofList [.scalar tStr "12" gen, .scalar tStr "true" gen]) gen),
   (.scalar tStr "colour" gen, .scalar tStr "true" gen)]
def extraPs : List (Node × Node) := [(.scalar tStr "note" gen, .scalar tBool "true" gen)]
def exNode : Node := .map tMap (Pairs.ofList (mainPs ++ extraPs)) gen

/-- the representers produce exactly this node for the value -/
theorem ex_represented : represent exDenv 6 exVal = .ok ⟨exNode, []⟩ := by rfl

theorem pairwise_keys : ∀ (names : List String), names.Nodup →
    (names.map (fun s => Node.scalar tStr s gen)).Pairwise (fun a b => ∀ s, a.keyIs s = true → b.keyIs s = false)
  | [], _ => List.Pairwise.nil
  | x :: xs, h => by
    have hnd := List.nodup_cons.mp h
    refine List.Pairwise.cons ?_ (pairwise_keys xs hnd.2)
    intro b hb s hs
    obtain ⟨y, hy, rfl⟩ := List.mem_map.mp hb
    simp only [Node.keyIs, beq_iff_eq] at hs ⊢
    subst hs
    cases h' : (y == x)
    · rfl
    · have : y = x := by simpa using h'
      exact absurd (this ▸ hy) hnd.1

theorem ex_described : RT exEnv [] 6 (.cls "Shape") exVal exNode := by
  refine ⟨.cls "Shape", [okLeaf], by rfl, ?_⟩
  refine RTcore.obj "Shape" _ _ gen shape mainKw extraKw mainPs extraPs (by rfl) (by rfl) ?_
  refine
    { sav := by rfl, psEq := by rfl, kwEq := by rfl, noExtra := by intro h; exact absurd h (by decide)
      main := ?_, extra := ?_, distinct := ?_, required := ?_, paramsNodup := by decide
      argsParams := by decide, init := by rfl }
  · refine All2.cons ?_ (All2.cons ?_ (All2.cons ?_ All2.nil))
    · refine ⟨"name", gen, ⟨"name", .cls "Name", true, true⟩, rfl, rfl, by simp [shape], rfl, ?_, ?_⟩
      · exact ⟨.cls "Name", [okLeaf], by rfl, RTcore.userStr "Name" "sq" gen nameC (by rfl) (by rfl) (by rfl) (by rfl)⟩
      · show typeMatches exEnv (.userStr "Name" "sq") (.cls "Name") = true
        unfold typeMatches; rfl
    · refine ⟨"tags", gen, ⟨"tags", .seq .list .str, true, true⟩, rfl, rfl, by simp [shape], rfl, ?_, ?_⟩
      · refine ⟨.seq .list .str, [okLeaf], by rfl, RTcore.seq .list .str _ _ gen ?_⟩
        refine All2.cons ?_ (All2.cons ?_ All2.nil)
        · exact ⟨.str, [okLeaf], by rfl, RTcore.str "12" gen⟩
        · exact ⟨.str, [okLeaf], by rfl, RTcore.str "true" gen⟩
      · show typeMatches exEnv (.list (PyVals.ofList [.scalar (.str "12"), .scalar (.str "true")])) (.seq .list .str) = true
        simp [typeMatches, typeMatchesAll, PyVals.ofList]
    · refine ⟨"colour", gen, ⟨"colour", .cls "Colour", true, false⟩, rfl, rfl, by simp [shape], rfl, ?_, ?_⟩
      · exact ⟨.cls "Colour", [okLeaf], by rfl,
          RTcore.enum "Colour" "true" gen colour ["red", "true"] (by rfl) (by rfl) (by rfl) (by rfl)⟩
      · show typeMatches exEnv (.enumMember "Colour" "true") (.cls "Colour") = true
        unfold typeMatches; rfl
  · exact All2.cons ⟨"note", gen, [], rfl, rfl, by rfl, by decide, by rfl⟩ All2.nil
  · exact pairwise_keys ["name", "tags", "colour", "note"] (by decide)
  · intro prm hp hr
    simp only [shape, List.mem_cons, List.not_mem_nil, or_false] at hp
    rcases hp with rfl | rfl | rfl
    · exact ⟨_, List.mem_cons_self, rfl⟩
    · exact ⟨_, List.mem_cons_of_mem _ List.mem_cons_self, rfl⟩
    · cases hr

/-- so the value loads back from what the representers made of it — obtained from the theorem, not by
running the model -/
theorem C05_example_roundtrip :
    ∃ calls trace processed,
      loadNode exEnv [] 6 exNode (.cls "Shape") = .ok ⟨exVal, calls, trace, processed⟩ :=
  C05_node_roundtrip exEnv exDenv [] 6 6 (.cls "Shape") exVal ⟨exNode, []⟩ ex_represented ex_described

end YatimlModel.C05RT
