import YatimlModel.Model.Represent
import YatimlModel.Lemmas.RegexDecide
import YatimlModel.Lemmas.ResolverPrune
import YatimlModel.Gen.DumperResolvers
/-!
# C06 — dumps are faithful, tag-free and ordered, and leave the object untouched

Node-level part: what the representers build (collection tags are the defaults, scalars carry core tags,
attributes come in declaration order, enum members by name), and the reflective resolver lemmas that
make the serializer mark every represented non-string scalar *implicit* for the Dumper's own resolver —
so the emitter writes it without a tag.  Purity and determinism are definitional for the model (a pure
function); the real code is checked for them on every run.
-/
namespace YatimlModel.C06
open YatimlModel YatimlModel.Gen NodeOps Re

/-! ## what the representers build -/

/-- lists and dicts are represented with the default sequence / mapping tags (no `!!omap`, no
`!!python/…`), whatever they contain -/
theorem C06_collection_tags_default (env : DumpEnv) (fuel : Nat) (o : RepOut) :
    (∀ xs, represent env (fuel + 1) (.list xs) = .ok o → o.node.tag = tSeq) ∧
    (∀ kvs, represent env (fuel + 1) (.dict kvs) = .ok o → o.node.tag = tMap) := by
  constructor
  · intro xs h
    simp only [represent] at h
    split at h
    · cases h
    · simp only [Except.ok.injEq] at h; rw [← h]; rfl
  · intro kvs h
    simp only [represent] at h
    split at h
    · cases h
    · simp only [Except.ok.injEq] at h; rw [← h]; rfl

/-- built-in scalars get the core tag of their own kind -/
theorem C06_scalar_tags_core (s : PyScalar) :
    (representScalar s).tag = tagOfScalar s := by
  cases s <;> rfl

/-- enum members are represented by name, as a string scalar -/
theorem C06_enum_by_name (env : DumpEnv) (fuel : Nat) (c name : String) (d : DumpClass)
    (hd : env.find c = some d) (hs : d.sweetenMro = none) :
    (represent env (fuel + 1) (.enumMember c name)).toOption.map (·.node) = some (.scalar tStr name gen) := by
  simp [represent, hd, hs, Except.toOption]

/-- string keys are represented in order -/
theorem repPairs_keys (rep : PyVal → Except DumpErr RepOut)
    (hrep : ∀ k, rep (.scalar (.str k)) = .ok ⟨.scalar tStr k gen, []⟩) :
    ∀ (l : List (String × PyVal)) (ps : List (Node × Node)) (tr : List String),
      repPairs rep (l.map (fun e => (PyVal.scalar (.str e.1), e.2))) = .ok (ps, tr) →
      ps.map (·.1) = l.map (fun e => Node.scalar tStr e.1 gen) := by
  intro l
  induction l with
  | nil => intro ps tr h; simp [repPairs] at h; simp [h.1.symm]
  | cons e es ih =>
    intro ps tr h
    simp only [List.map_cons, repPairs, hrep] at h
    split at h
    · cases h
    · split at h
      · cases h
      · rename_i vo hv qs tr' hq
        simp only [Except.ok.injEq, Prod.mk.injEq] at h
        rw [← h.1]
        simp [ih qs tr' hq]

/-- **Attribute order.**  The mapping built for a user object has its keys in the order of the
attribute list: constructor parameters in declaration order, then the extra attributes. -/
theorem C06_attribute_order (env : DumpEnv) (fuel : Nat) (attrs : List (String × PyVal))
    (ps : List (Node × Node)) (tr : List String)
    (h : repPairs (represent env (fuel + 1)) (attrs.map (fun e => (PyVal.scalar (.str e.1), e.2))) = .ok (ps, tr)) :
    ps.map (·.1) = attrs.map (fun e => Node.scalar tStr e.1 gen) :=
  repPairs_keys _ (by intro k; simp [represent, representScalar]) attrs ps tr h

/-! ## what is represented resolves back to its own tag (hence is written without a tag) -/

def goodIs (T : RTag) : List RTag → List Bool → Bool
  | [t], _ => t == T
  | _, _ => false

def isProb (tbl : List Entry) (T : RTag) (guard : Re) : GProb :=
  { guard := guard, base := { tbls := [prune T tbl], specs := [], good := goodIs T } }

theorem isProb_sound (tbl : List Entry) (T : RTag) (hT : (tagStr == T) = false) (guard : Re)
    (h : (isProb tbl T guard).check (isProb tbl T guard).bounds = true) (s : List Nat)
    (hm : rmatch guard s = true) : resolve tbl s = T := by
  have := GProb.check_sound (isProb tbl T guard) _ h s hm
  simp only [isProb, List.map_cons, List.map_nil, goodIs] at this
  have hp := prune_sound T hT tbl s
  simp only [resolveIs] at hp
  rw [hp] at this
  simpa using this

def digit19 : Re := rng '1' '9'
def digit09 : Re := rng '0' '9'
def minus : Re := opt (ch '-')
/-- `str(int)` -/
def pyIntStr : Re := cat minus (alt (ch '0') (cat digit19 (star digit09)))
/-- `SafeRepresenter.represent_float` of a finite float -/
def reprFloatFinite : Re :=
  cat minus (cat (alt (ch '0') (cat digit19 (star digit09))) (cat (ch '.') (cat (plus digit09)
    (opt (cat (ch 'e') (cat (set [('+'.toNat, '+'.toNat), ('-'.toNat, '-'.toNat)]) (plus digit09)))))))
def reprFloat : Re := alts [reprFloatFinite, lit ".nan", lit ".inf", lit "-.inf"]
def reprBool : Re := alt (lit "true") (lit "false")
def reprNull : Re := lit "null"

set_option maxRecDepth 100000 in
theorem dumperInt_ok : (isProb dumperTable .int pyIntStr).check (isProb dumperTable .int pyIntStr).bounds = true := by
  decide +kernel
set_option maxRecDepth 100000 in
theorem dumperFloat_ok :
    (isProb dumperTable .float reprFloat).check (isProb dumperTable .float reprFloat).bounds = true := by
  decide +kernel
set_option maxRecDepth 100000 in
theorem dumperBool_ok :
    (isProb dumperTable .bool reprBool).check (isProb dumperTable .bool reprBool).bounds = true := by
  decide +kernel
set_option maxRecDepth 100000 in
theorem dumperNull_ok :
    (isProb dumperTable .null reprNull).check (isProb dumperTable .null reprNull).bounds = true := by
  decide +kernel

/-- every `str(int)` resolves to `int` with the Dumper's resolver: represented ints are written plain,
without a tag -/
theorem C06_represented_ints_resolve (s : List Nat) (h : rmatch pyIntStr s = true) :
    resolve dumperTable s = .int := isProb_sound _ _ (by decide) _ dumperInt_ok s h

/-- every represented float (finite, `.nan`, `.inf`, `-.inf`) resolves to `float` -/
theorem C06_represented_floats_resolve (s : List Nat) (h : rmatch reprFloat s = true) :
    resolve dumperTable s = .float := isProb_sound _ _ (by decide) _ dumperFloat_ok s h

theorem C06_represented_bools_nulls_resolve (s : List Nat) :
    (rmatch reprBool s = true → resolve dumperTable s = .bool) ∧
    (rmatch reprNull s = true → resolve dumperTable s = .null) :=
  ⟨isProb_sound _ _ (by decide) _ dumperBool_ok s, isProb_sound _ _ (by decide) _ dumperNull_ok s⟩

end YatimlModel.C06
