import YatimlModel.Model.Load
/-!
# C18 — anchors and aliases are transparent
-/
namespace YatimlModel.C18
open YatimlModel

mutual
theorem expand_ofNode (opened : List (String × Mark)) (env : Anchors) :
    ∀ n : Node, expandDoc opened env (Doc.ofNode n) = .ok (n, env)
  | .scalar t v m => by simp [Doc.ofNode, expandDoc, noteAnchor]
  | .seq t xs m => by
    simp [Doc.ofNode, expandDoc, openAnchor, noteAnchor, expand_ofNodes opened env xs]
  | .map t ps m => by
    simp [Doc.ofNode, expandDoc, openAnchor, noteAnchor, expand_ofPairs opened env ps]
theorem expand_ofNodes (opened : List (String × Mark)) (env : Anchors) :
    ∀ xs : Nodes, expandDocs opened env (Docs.ofNodes xs) = .ok (xs, env)
  | .nil => by simp [Docs.ofNodes, expandDocs]
  | .cons x xs => by
    simp [Docs.ofNodes, expandDocs, expand_ofNode opened env x, expand_ofNodes opened env xs]
theorem expand_ofPairs (opened : List (String × Mark)) (env : Anchors) :
    ∀ ps : Pairs, expandPairs opened env (DocPairs.ofPairs ps) = .ok (ps, env)
  | .nil => by simp [DocPairs.ofPairs, expandPairs]
  | .cons k v r => by
    simp [DocPairs.ofPairs, expandPairs, expand_ofNode opened env k, expand_ofNode opened env v,
      expand_ofPairs opened env r]
end

/-- the document obtained by replacing every alias by a copy of the anchored node (and dropping the
anchors), when there is no cycle -/
def inlined (d : Doc) : Option Doc :=
  match expandDoc [] [] d with
  | .ok (n, _) => some (Doc.ofNode n)
  | .error _ => none

/-- **Transparency.**  A document with anchors and aliases loads exactly as the document in which every
alias is replaced by a copy of the anchored node: same value, same constructor calls, same failure —
for every class model, type and document. -/
theorem C18_transparent (env : Env) (tbl : List Entry) (fuel : Nat) (d d' : Doc) (T : Ty)
    (h : inlined d = some d') : loadDoc env tbl fuel d T = loadDoc env tbl fuel d' T := by
  unfold inlined at h
  split at h
  · rename_i n a hn
    simp only [Option.some.injEq] at h
    subst h
    simp [loadDoc, hn, expand_ofNode]
  · cases h

/-- an alias to an anchor whose node is still being composed (i.e. the node contains itself) is
rejected, citing that node -/
theorem alias_to_open_is_cycle (opened : List (String × Mark)) (env : Anchors) (name : String)
    (m am : Mark) (h : opened.lookup name = some am) :
    expandDoc opened env (.alias name m) = .error (.cycle am) := by
  simp [expandDoc, h]

/-- **Self-referential aliases are rejected with an error** (a RecognitionError citing the node), they
do not exhaust the stack: `expandDoc` is a total structural recursion on the document. -/
theorem C18_cycle_rejected (env : Env) (tbl : List Entry) (fuel : Nat) (d : Doc) (T : Ty) (m : Mark)
    (h : expandDoc [] [] d = .error (.cycle m)) :
    loadDoc env tbl fuel d T = .error ⟨.recognition [⟨[m], []⟩], []⟩ := by
  simp [loadDoc, h]

/-- the textbook cycle `&a [*a]` -/
example : expandDoc [] [] (.seq (some "a") tSeq (.cons (.alias "a" ⟨0, 4⟩) .nil) ⟨0, 0⟩)
    = .error (.cycle ⟨0, 0⟩) := by
  simp [expandDoc, expandDocs, openAnchor, List.lookup]

/-- sharing without a cycle: `[&x {k: 1}, *x]` expands to two equal copies -/
example : (expandDoc [] [] (.seq none tSeq
      (.cons (.map (some "x") tMap (.cons (.scalar none tStr "k" ⟨0, 5⟩) (.scalar none tInt "1" ⟨0, 8⟩) .nil) ⟨0, 1⟩)
      (.cons (.alias "x" ⟨0, 12⟩) .nil)) ⟨0, 0⟩)).toOption.map (·.1)
    = some (.seq tSeq
      (.cons (.map tMap (.cons (.scalar tStr "k" ⟨0, 5⟩) (.scalar tInt "1" ⟨0, 8⟩) .nil) ⟨0, 1⟩)
      (.cons (.map tMap (.cons (.scalar tStr "k" ⟨0, 5⟩) (.scalar tInt "1" ⟨0, 8⟩) .nil) ⟨0, 1⟩) .nil)) ⟨0, 0⟩) := by
  simp [expandDoc, expandDocs, expandPairs, openAnchor, noteAnchor, List.lookup, Except.toOption]

end YatimlModel.C18
