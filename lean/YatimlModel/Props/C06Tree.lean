import YatimlModel.Props.C07EndToEnd
import YatimlModel.Lemmas.PlainData
/-!
# C06 — the dumped tree carries no explicit tags, at any depth

For every value whose classes have no `_yatiml_sweeten` (a hook may write any node it likes), the node
tree the representers build — objects, enum members, string-likes, paths, dates, lists, dicts, nested to
any depth — carries core tags (`tag:yaml.org,2002:…`) only: no `!ClassName`, nothing the serializer would
have to write as an explicit tag for the document to be read back by a plain YAML parser.  (That the
serializer writes no tag for a node whose tag is the one the resolver gives its text is PyYAML's; for
scalars the resolver side is `C06_represented_*_resolve`.)
-/
namespace YatimlModel.C06
open YatimlModel NodeOps

theorem core_tStr : hasPrefix corePrefix tStr = true := by decide
theorem core_tInt : hasPrefix corePrefix tInt = true := by decide
theorem core_tFloat : hasPrefix corePrefix tFloat = true := by decide
theorem core_tBool : hasPrefix corePrefix tBool = true := by decide
theorem core_tNull : hasPrefix corePrefix tNull = true := by decide
theorem core_tTimestamp : hasPrefix corePrefix tTimestamp = true := by decide
theorem core_tSeq : hasPrefix corePrefix tSeq = true := by decide
theorem core_tMap : hasPrefix corePrefix tMap = true := by decide
theorem core_binary : hasPrefix corePrefix "tag:yaml.org,2002:binary" = true := by decide

theorem allCoreL_ofList : ∀ (ns : List Node), (∀ n ∈ ns, AllCore n) → AllCoreL (Nodes.ofList ns)
  | [], _ => by simp [Nodes.ofList, AllCoreL]
  | n :: ns, h => by
    simp only [Nodes.ofList, AllCoreL]
    exact ⟨h n (by simp), allCoreL_ofList ns (fun x hx => h x (by simp [hx]))⟩

theorem allCoreP_ofList : ∀ (ps : List (Node × Node)), (∀ p ∈ ps, AllCore p.1 ∧ AllCore p.2) →
    AllCoreP (Pairs.ofList ps)
  | [], _ => by simp [Pairs.ofList, AllCoreP]
  | (k, v) :: ps, h => by
    simp only [Pairs.ofList, AllCoreP]
    exact ⟨(h (k, v) (by simp)).1, (h (k, v) (by simp)).2,
      allCoreP_ofList ps (fun x hx => h x (by simp [hx]))⟩

theorem repItems_core (rep : PyVal → Except DumpErr RepOut) (hrep : ∀ x o, rep x = .ok o → AllCore o.node) :
    ∀ (xs : List PyVal) (ns : List Node) (tr : List String), repItems rep xs = .ok (ns, tr) →
      ∀ n ∈ ns, AllCore n
  | [], ns, tr, h => by simp only [repItems] at h; cases h; intro n hn; cases hn
  | x :: xs, ns, tr, h => by
    simp only [repItems] at h
    split at h
    · cases h
    · rename_i o ho
      split at h
      · cases h
      · rename_i ns' tr' hrest
        cases h
        intro n hn
        rcases List.mem_cons.mp hn with rfl | hn
        · exact hrep x o ho
        · exact repItems_core rep hrep xs ns' tr' hrest n hn

theorem repPairs_core (rep : PyVal → Except DumpErr RepOut) (hrep : ∀ x o, rep x = .ok o → AllCore o.node) :
    ∀ (kvs : List (PyVal × PyVal)) (ps : List (Node × Node)) (tr : List String), repPairs rep kvs = .ok (ps, tr) →
      ∀ p ∈ ps, AllCore p.1 ∧ AllCore p.2
  | [], ps, tr, h => by simp only [repPairs] at h; cases h; intro p hp; cases hp
  | (k, v) :: r, ps, tr, h => by
    simp only [repPairs] at h
    split at h
    · cases h
    · rename_i ko hko
      split at h
      · cases h
      · rename_i vo hvo
        split at h
        · cases h
        · rename_i ps' tr' hrest
          cases h
          intro p hp
          rcases List.mem_cons.mp hp with rfl | hp
          · exact ⟨hrep k ko hko, hrep v vo hvo⟩
          · exact repPairs_core rep hrep r ps' tr' hrest p hp

/-- **The dumped tree is tag-free.**  Without sweeten hooks, every node of the represented tree of any
value, at any depth, carries a core tag. -/
theorem C06_represented_tree_core (env : DumpEnv) (hns : C07.NoSweeten env) :
    ∀ (fuel : Nat) (v : PyVal) (o : RepOut), represent env fuel v = .ok o → AllCore o.node
  | 0, _, _, h => by simp [represent] at h
  | fuel + 1, v, o, h => by
    have ih := C06_represented_tree_core env hns fuel
    cases v with
    | scalar s =>
      simp only [represent] at h; cases h
      cases s <;> simp [representScalar, AllCore, core_tStr, core_tInt, core_tFloat, core_tBool, core_tNull]
    | date r => simp only [represent] at h; cases h; simp [AllCore, core_tTimestamp]
    | bytes r => simp only [represent] at h; cases h; simp [AllCore, core_binary]
    | path s => simp only [represent] at h; cases h; simp [AllCore, core_tStr]
    | list xs =>
      simp only [represent] at h
      split at h
      · cases h
      · rename_i ns tr hitems
        cases h
        exact ⟨core_tSeq, allCoreL_ofList ns (repItems_core _ ih xs.toList ns tr hitems)⟩
    | dict kvs =>
      simp only [represent] at h
      split at h
      · cases h
      · rename_i ps tr hpairs
        cases h
        exact ⟨core_tMap, allCoreP_ofList ps (repPairs_core _ ih kvs.toList ps tr hpairs)⟩
    | enumMember c nm =>
      simp only [represent] at h
      split at h
      · cases h
      · rename_i d hd
        rw [(hns d (C07.find_mem env c d hd)).2] at h
        simp only at h
        cases h
        simp [AllCore, core_tStr]
    | userStr c s =>
      simp only [represent] at h
      split at h
      · cases h
      · rename_i d hd
        rw [(hns d (C07.find_mem env c d hd)).2] at h
        simp only at h
        cases h
        simp [AllCore, core_tStr]
    | obj c kw =>
      simp only [represent] at h
      split at h
      · cases h
      · rename_i d hd
        split at h
        · cases h
        · rename_i ps tr hpairs
          split at h
          · cases h
          · rename_i n tr' hsw
            cases h
            have := C07.sweeten_id env hns _ _ d (C07.find_mem env c d hd) _ hsw
            cases this
            exact ⟨core_tMap, allCoreP_ofList ps (repPairs_core _ ih _ ps tr hpairs)⟩

end YatimlModel.C06
