import YatimlModel.Props.C04
import YatimlModel.Lemmas.CallsTyped
import YatimlModel.Lemmas.Conforms
/-!
# C01 — a loaded value always conforms to the declared type

Proved here: the chain recognition → retagging → construction at the root of
every (sub)tree — the recognised type is admitted by the declared one, the node
handed to construction carries exactly that type's tag (or is stripped, for
`Any`), a node with a built-in scalar tag constructs a value of exactly that
kind, a node with a class tag constructs an instance of exactly that class whose
keyword arguments passed the missing/extraneous/type checks, `Any` yields plain
data, and the empty document is a null.  (The deep statement — conformance of
every nested value by induction over the processed tree — is stated at the end
with what is proved of it.)
-/
namespace YatimlModel.C01
open YatimlModel NodeOps

/-- the unique recognised type is admitted by the declared type (whatever tags, seasoning functions
and permissive custom recognisers are in play) -/
theorem C01_recognised_type_admitted (env : Env) (fuel : Nat) (n : Node) (T R : Ty) (ls : List Leaf)
    (h : recognize env fuel n T = .ok ([R], ls)) : Admits env T R :=
  recognize_admits env fuel n T [R] ls h R (by simp)

/-- after processing, the root carries the tag of the recognised type — or, for `Any`, core tags only -/
theorem C01_root_tag (env : Env) (tbl : List Entry) (R : Ty) (n3 : Node) (tr : List String) (o : ProcOut)
    (h : tagStep env tbl R n3 tr = .ok o) :
    (R = .any ∧ o.node = stripTags tbl n3) ∨ (∃ tag, typeToTag env R = some tag ∧ o.node.tag = tag) := by
  unfold tagStep at h
  split at h
  · rename_i hany
    left
    simp only [Except.ok.injEq] at h
    exact ⟨by simpa using hany, by rw [← h]⟩
  · split at h
    · rename_i tag htag
      right
      simp only [Except.ok.injEq] at h
      refine ⟨tag, htag, ?_⟩
      rw [← h]
      cases n3 <;> rfl
    · cases h

/-- a node tagged with a built-in scalar type constructs a value of exactly that kind, or fails -/
theorem C01_scalar_exact_kind (env : Env) (tbl : List Entry) (fuel : Nat) (v : String) (m : Mark)
    (o : ConsOut) :
    (construct env tbl (fuel + 1) (.scalar tStr v m) = .ok o → ∃ s, o.value = .scalar (.str s)) ∧
    (construct env tbl (fuel + 1) (.scalar tInt v m) = .ok o → ∃ i, o.value = .scalar (.int i)) ∧
    (construct env tbl (fuel + 1) (.scalar tFloat v m) = .ok o → ∃ r a, o.value = .scalar (.float r a)) ∧
    (construct env tbl (fuel + 1) (.scalar tBool v m) = .ok o → ∃ b, o.value = .scalar (.bool b)) ∧
    (construct env tbl (fuel + 1) (.scalar tNull v m) = .ok o → o.value = .scalar .none) ∧
    (construct env tbl (fuel + 1) (.scalar tTimestamp v m) = .ok o → ∃ r, o.value = .date r) := by
  have hb : ∀ t, hasPrefix corePrefix t = true → env.byTag t = none := fun t ht => byTag_core env t ht
  refine ⟨?_, ?_, ?_, ?_, ?_, ?_⟩
  all_goals
    intro h
    simp only [construct, Node.tag] at h
  · rw [hb tStr (by decide)] at h
    simp [constructScalarCore, tStr] at h
    exact ⟨v, by rw [← h]⟩
  · rw [hb tInt (by decide)] at h
    simp only [constructScalarCore, show (tInt == "!Path") = false by decide, show (tInt == tStr) = false by decide,
      Bool.false_eq_true, if_false, beq_self_eq_true, if_true] at h
    cases hc : constructInt v with
    | none => simp [hc] at h
    | some i => simp only [hc, Except.ok.injEq] at h; exact ⟨i, by rw [← h]⟩
  · rw [hb tFloat (by decide)] at h
    simp only [constructScalarCore, show (tFloat == "!Path") = false by decide,
      show (tFloat == tStr) = false by decide, show (tFloat == tInt) = false by decide,
      Bool.false_eq_true, if_false, beq_self_eq_true, if_true] at h
    cases hc : env.ext.yamlFloat v with
    | none => simp [hc] at h
    | some r => simp only [hc, Except.ok.injEq] at h; exact ⟨r.1, r.2, by rw [← h]⟩
  · rw [hb tBool (by decide)] at h
    simp only [constructScalarCore, show (tBool == "!Path") = false by decide,
      show (tBool == tStr) = false by decide, show (tBool == tInt) = false by decide,
      show (tBool == tFloat) = false by decide, Bool.false_eq_true, if_false, beq_self_eq_true, if_true] at h
    cases hc : constructBool v with
    | none => simp [hc] at h
    | some b => simp only [hc, Except.ok.injEq] at h; exact ⟨b, by rw [← h]⟩
  · rw [hb tNull (by decide)] at h
    simp only [constructScalarCore, show (tNull == "!Path") = false by decide,
      show (tNull == tStr) = false by decide, show (tNull == tInt) = false by decide,
      show (tNull == tFloat) = false by decide, show (tNull == tBool) = false by decide,
      Bool.false_eq_true, if_false, beq_self_eq_true, if_true, Except.ok.injEq] at h
    rw [← h]
  · rw [hb tTimestamp (by decide)] at h
    simp only [constructScalarCore, show (tTimestamp == "!Path") = false by decide,
      show (tTimestamp == tStr) = false by decide, show (tTimestamp == tInt) = false by decide,
      show (tTimestamp == tFloat) = false by decide, show (tTimestamp == tBool) = false by decide,
      show (tTimestamp == tNull) = false by decide, Bool.false_eq_true, if_false, beq_self_eq_true,
      if_true] at h
    cases hc : env.ext.yamlTimestamp v with
    | none => simp [hc] at h
    | some r => simp only [hc, Except.ok.injEq] at h; exact ⟨r, by rw [← h]⟩

/-- what `__check_no_missing_attributes` and `__type_check_attributes` establish when they pass -/
theorem checkAttributes_none (env : Env) (d : ClassDef) (n : Node) (ps : List (Node × Node))
    (mapping : List (PyVal × PyVal)) (h : checkAttributes env d n ps mapping = none) :
    (∀ p ∈ d.params, (p.required = true → (dictGet mapping p.name).isSome = true) ∧
      (∀ v, dictGet mapping p.name = some v → typeMatches env v p.ty = true)) ∧
    (∀ e ∈ mapping, ∃ k, e.1 = .scalar (.str k) ∧
      (d.argNames.contains k = true ∨ k = "self" ∨ d.takesExtra = true)) := by
  unfold checkAttributes at h
  dsimp only at h
  split at h
  · cases h
  · rename_i hmiss
    refine ⟨?_, ?_⟩
    · intro p hp
      have := List.findSome?_eq_none_iff.mp hmiss p hp
      constructor
      · intro hr
        cases hg : dictGet mapping p.name with
        | none => simp [hg, hr] at this
        | some v => rfl
      · intro v hv
        simp only [hv] at this
        cases ht : typeMatches env v p.ty with
        | true => rfl
        | false => simp [ht] at this
    · intro e he
      have := List.findSome?_eq_none_iff.mp h e he
      cases hk : e.1 with
      | scalar s =>
        cases s with
        | str k =>
          refine ⟨k, rfl, ?_⟩
          simp only [hk] at this
          by_cases hc : d.argNames.contains k = true
          · exact Or.inl hc
          · by_cases hs : k = "self"
            · exact Or.inr (Or.inl hs)
            · by_cases hx : d.takesExtra = true
              · exact Or.inr (Or.inr hx)
              · have hm : k ∉ d.argNames := by simpa using hc
                have hx' : d.takesExtra = false := by simpa using hx
                simp [hm, hx', hs] at this
        | int i => simp [hk] at this
        | float r a => simp [hk] at this
        | bool b => simp [hk] at this
        | none => simp [hk] at this
      | date r => simp [hk] at this
      | bytes r => simp [hk] at this
      | list xs => simp [hk] at this
      | dict kvs => simp [hk] at this
      | obj c kw => simp [hk] at this
      | enumMember c nm => simp [hk] at this
      | userStr c s => simp [hk] at this
      | path s => simp [hk] at this

/-- **Any** yields plain data (restated from C04) -/
theorem C01_any_is_plain (env : Env) (tbl : List Entry) (htbl : TableCore tbl) (fuel fuel' : Nat)
    (n : Node) (o : ProcOut) (h : processNode env tbl (fuel + 1) n .any = .ok o) :
    QuietPlain (construct env tbl fuel' o.node) :=
  C04.C04_any_plain env tbl htbl fuel fuel' n o h

/-- **The empty document** is a null: it is refused where a non-null built-in scalar is declared -/
theorem C01_empty_document (env : Env) (tbl : List Entry) (fuel : Nat) (T : Ty)
    (hT : T = .str ∨ T = .int ∨ T = .float ∨ T = .bool ∨ T = .date ∨ T = .path) :
    ∃ ls, processNode env tbl (fuel + 1) emptyDocument T = .error (.recognition ls) := by
  refine ⟨[⟨[emptyDocument.mark], []⟩], ?_⟩
  rcases hT with rfl | rfl | rfl | rfl | rfl | rfl <;>
    simp [processNode, recognize, recognizeReq, recScalar, emptyDocument, recFail,
      tNull, tStr, tInt, tFloat, tBool, tTimestamp]

/-- what the arguments of one user-constructor call are guaranteed to be -/
def CallTyped (env : Env) (c : Call) : Prop :=
  (∃ (d : ClassDef) (mapping : List (PyVal × PyVal)), c = ⟨d.name, kwargsOf d mapping⟩ ∧
      (∀ p ∈ d.params, (p.required = true → (dictGet mapping p.name).isSome = true) ∧
        (∀ v, dictGet mapping p.name = some v → typeMatches env v p.ty = true)) ∧
      (∀ e ∈ mapping, ∃ k, e.1 = .scalar (.str k) ∧
        (d.argNames.contains k = true ∨ k = "self" ∨ d.takesExtra = true))) ∨
  (∃ (d : ClassDef) (v : String), c = ⟨d.name, [(.scalar (.str ""), .scalar (.str v))]⟩)

/-- the user-constructor calls a load made, whether it succeeded or not -/
def loadCalls (r : LoadRes) : List Call :=
  match r with
  | .ok o => o.calls
  | .error f => f.calls

/-- **All the way down.**  Every call of a user constructor that a load makes — at any depth, whether
the load as a whole succeeds or fails afterwards — receives, for every declared parameter, either
nothing (Python's default applies) or a value of the declared type (`typeMatches`: containers
element-wise, unions member-wise, classes by `isinstance`), every required parameter is present, and
keys that are not parameters only reach a class that takes `_yatiml_extra`.  String-like classes are
called with the scalar's text.  For every node, class model, type and fuel. -/
theorem C01_every_constructor_call_typed (env : Env) (tbl : List Entry) (fuel : Nat) (n : Node) (T : Ty) :
    ∀ c ∈ loadCalls (loadNode env tbl fuel n T), CallTyped env c := by
  have key : ∀ (cs : List Call), CallsOk env tbl cs → ∀ c ∈ cs, CallTyped env c := by
    intro cs h c hc
    rcases h c hc with ⟨d, n', ps, mapping, rfl, hchk⟩ | ⟨d, v, rfl, _⟩
    · exact Or.inl ⟨d, mapping, rfl, checkAttributes_none env d n' ps mapping hchk⟩
    · exact Or.inr ⟨d, v, rfl⟩
  unfold loadNode
  cases hp : processNode env tbl fuel n T with
  | error e => intro c hc; simp [loadCalls] at hc
  | ok p =>
    have := construct_callsOk env tbl fuel p.node
    dsimp only
    cases hc : construct env tbl fuel p.node with
    | error err =>
      obtain ⟨e, calls⟩ := err
      rw [hc] at this
      simpa [loadCalls] using key calls this
    | ok co =>
      rw [hc] at this
      simpa [loadCalls] using key co.calls this

/-- **A loaded value conforms to the declared type.**  For every class table consistent with Python's
MRO (`EnvWF`), every resolver table with core tags only (`TableCore`, proved of the regenerated Loader
table: `C04.loaderTable_core`), every node, every declared type whose dict key types are `str` or a class,
every fuel: if the load succeeds, the value is of the declared type — built-ins of exactly their kind,
lists and dicts element-wise with keys, a Union by one of its members, a class by an instance of it or
of a registered class derived from it.  Together with `C01_every_constructor_call_typed` (the
attributes of every constructed object, at any depth) this is conformance all the way down. -/
theorem C01_loaded_value_conforms (env : Env) (tbl : List Entry) (htbl : TableCore tbl) (hwf : EnvWF env)
    (fuel : Nat) (n : Node) (T : Ty) (hT : DictKeysOk T) (o : LoadOut)
    (h : loadNode env tbl fuel n T = .ok o) : typeMatches env o.value T = true :=
  loadNode_conforms env tbl htbl hwf fuel n T hT o h

/-- the hypotheses are satisfiable: a table with a class and a subclass -/
example (ext : Ext) :
    EnvWF ⟨[⟨"A", [], [], .plain, false, [], [], none, none, none, fun _ => false⟩], ext⟩ := by
  refine ⟨by simp [Env.find], ?_, ?_, ?_⟩
  · intro c d dd hd hf
    induction hd with
    | refl c => exact Or.inl rfl
    | step s hs _ ih =>
      simp [Env.directSubclasses] at hs
  · intro e ee d dd c he hc
    simp only [Env.find, List.find?_cons, List.find?_nil] at he
    split at he
    · simp only [Option.some.injEq] at he; subst he; simp at hc
    · cases he
  · intro c d hf
    simp only [Env.find, List.find?_cons, List.find?_nil] at hf
    split at hf
    · simp only [Option.some.injEq] at hf; subst hf; simp
    · cases hf

end YatimlModel.C01
