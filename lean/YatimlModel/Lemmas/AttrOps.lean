import YatimlModel.Model.NodeOps
/-!
How `set_attribute` interacts with the values found under a key.
-/
namespace YatimlModel
open NodeOps

theorem keyIs_two (k : Node) (a b : String) (ha : k.keyIs a = true) (hb : k.keyIs b = true) : a = b := by
  cases k with
  | scalar _ v _ =>
    simp only [Node.keyIs, beq_iff_eq] at ha hb
    rw [← ha, ← hb]
  | seq _ _ _ => simp [Node.keyIs] at ha
  | map _ _ _ => simp [Node.keyIs] at ha

theorem valuesOf_cons (p : Node × Node) (ps : List (Node × Node)) (a : String) :
    valuesOf (p :: ps) a = if p.1.keyIs a then p.2 :: valuesOf ps a else valuesOf ps a := by
  simp only [valuesOf, List.filter_cons]
  split <;> simp

/-- setting one key leaves the values under every other key alone -/
theorem valuesOf_setFirst_ne (ps : List (Node × Node)) (a b : String) (v : Node) (hab : a ≠ b) :
    valuesOf (setFirst ps a v) b = valuesOf ps b := by
  induction ps with
  | nil =>
    simp only [setFirst, valuesOf_cons, Node.keyIs]
    have : (a == b) = false := by simpa using hab
    simp [this, valuesOf]
  | cons p rest ih =>
    obtain ⟨k, x⟩ := p
    simp only [setFirst]
    split
    · rename_i hk
      rw [valuesOf_cons, valuesOf_cons]
      have : k.keyIs b = false := by
        cases hkb : k.keyIs b with
        | false => rfl
        | true => exact absurd (keyIs_two k a b hk hkb) hab
      simp [this]
    · rw [valuesOf_cons, valuesOf_cons, ih]

/-- setting a key that occurs replaces the first value found under it -/
theorem valuesOf_setFirst_same (ps : List (Node × Node)) (a : String) (v : Node) (h : hasKey ps a = true) :
    valuesOf (setFirst ps a v) a = v :: (valuesOf ps a).tail := by
  induction ps with
  | nil => simp [hasKey] at h
  | cons p rest ih =>
    obtain ⟨k, x⟩ := p
    simp only [setFirst]
    by_cases hk : k.keyIs a = true
    · simp only [hk, if_true]
      rw [valuesOf_cons, valuesOf_cons]
      simp [hk]
    · have hk' : k.keyIs a = false := by simpa using hk
      simp only [hk', Bool.false_eq_true, if_false]
      rw [valuesOf_cons, valuesOf_cons]
      simp only [hk', Bool.false_eq_true, if_false]
      apply ih
      simpa [hasKey, hk'] using h

theorem valuesOf_nil_of_no_key (ps : List (Node × Node)) (a : String) (h : hasKey ps a = false) :
    valuesOf ps a = [] := by
  induction ps with
  | nil => rfl
  | cons p rest ih =>
    simp only [hasKey, List.any_cons, Bool.or_eq_false_iff] at h
    rw [valuesOf_cons]
    simp only [h.1, Bool.false_eq_true, if_false]
    exact ih (by simpa [hasKey] using h.2)

end YatimlModel
