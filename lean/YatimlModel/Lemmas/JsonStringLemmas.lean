import YatimlModel.Model.JsonString
namespace YatimlModel.JsonString

theorem hexDigit_isHex (n : Nat) (h : n < 16) : isHex (hexDigit n) = true := by
  unfold hexDigit isHex
  split <;> simp <;> omega

theorem hexDigit_ascii (n : Nat) (h : n < 16) : 32 ≤ hexDigit n ∧ hexDigit n ≤ 126 := by
  unfold hexDigit
  split <;> omega

theorem validBody_plain (c : Nat) (r : List Nat) (h1 : c ≠ 34) (h2 : c ≠ 92) (h3 : 32 ≤ c) :
    validBody (c :: r) = validBody r := by
  simp [validBody, validBodyFrom, bodyStep, h1, h2, h3]

theorem validBody_short (e : Nat) (r : List Nat) (h1 : isEscLetter e = true) (h2 : e ≠ 117) :
    validBody (92 :: e :: r) = validBody r := by
  simp [validBody, validBodyFrom, bodyStep, h1, h2]

theorem validBody_u (n : Nat) (r : List Nat) : validBody (uEsc n ++ r) = validBody r := by
  simp [uEsc, hex4, validBody, validBodyFrom, bodyStep, hexDigit_isHex, Nat.mod_lt]

theorem shortEsc_letter (c e : Nat) (h : shortEsc c = some e) : isEscLetter e = true ∧ e ≠ 117 := by
  unfold shortEsc at h
  repeat' split at h
  all_goals first | (cases h; decide) | cases h

theorem shortEsc_none (c : Nat) (h : shortEsc c = none) : c ≠ 34 ∧ c ≠ 92 := by
  unfold shortEsc at h
  constructor <;> intro hc <;> subst hc <;> simp at h

theorem validBody_escAscii (c : Nat) (r : List Nat) : validBody (escAscii c ++ r) = validBody r := by
  unfold escAscii
  split
  · rename_i e he
    obtain ⟨h1, h2⟩ := shortEsc_letter c e he
    exact validBody_short e r h1 h2
  · rename_i hn
    obtain ⟨h1, h2⟩ := shortEsc_none c hn
    split
    · rename_i hr
      exact validBody_plain c r h1 h2 hr.1
    · split
      · exact validBody_u c r
      · rw [List.append_assoc, validBody_u, validBody_u]

theorem validBody_escUni (c : Nat) (r : List Nat) : validBody (escUni c ++ r) = validBody r := by
  unfold escUni
  split
  · rename_i e he
    obtain ⟨h1, h2⟩ := shortEsc_letter c e he
    exact validBody_short e r h1 h2
  · rename_i hn
    obtain ⟨h1, h2⟩ := shortEsc_none c hn
    split
    · exact validBody_u c r
    · rename_i hr
      exact validBody_plain c r h1 h2 (by omega)

theorem validBody_flatMap (f : Nat → List Nat) (hf : ∀ c r, validBody (f c ++ r) = validBody r)
    (s : List Nat) : validBody (s.flatMap f ++ [34]) = true := by
  induction s with
  | nil => simp [validBody, validBodyFrom, bodyStep]
  | cons c cs ih => simp only [List.flatMap_cons, List.append_assoc]; rw [hf]; exact ih

/-- the model of `json.dumps` always yields an RFC 8259 string token -/
theorem dumps_valid (a : Bool) (s : List Nat) : validJsonString (dumps a s) = true := by
  unfold dumps validJsonString
  simp only [List.cons_append, List.nil_append]
  cases a
  · exact validBody_flatMap _ validBody_escUni s
  · exact validBody_flatMap _ validBody_escAscii s

def isAsciiPrintable (c : Nat) : Bool := decide (32 ≤ c) && decide (c ≤ 126)

theorem uEsc_ascii (n : Nat) : (uEsc n).all isAsciiPrintable = true := by
  have h1 := hexDigit_ascii (n / 4096 % 16) (Nat.mod_lt _ (by decide))
  have h2 := hexDigit_ascii (n / 256 % 16) (Nat.mod_lt _ (by decide))
  have h3 := hexDigit_ascii (n / 16 % 16) (Nat.mod_lt _ (by decide))
  have h4 := hexDigit_ascii (n % 16) (Nat.mod_lt _ (by decide))
  simp [uEsc, hex4, isAsciiPrintable, h1, h2, h3, h4]

theorem shortEsc_ascii (c e : Nat) (h : shortEsc c = some e) : isAsciiPrintable e = true := by
  unfold shortEsc at h
  repeat' split at h
  all_goals first | (cases h; decide) | cases h

theorem escAscii_ascii (c : Nat) : (escAscii c).all isAsciiPrintable = true := by
  unfold escAscii
  split
  · rename_i e he
    have := shortEsc_ascii c e he
    simp only [List.all_cons, List.all_nil, Bool.and_true, this]
    decide
  · split
    · rename_i hr
      simp [isAsciiPrintable, hr.1, hr.2]
    · split
      · exact uEsc_ascii c
      · simp only [List.all_append, uEsc_ascii, Bool.and_self]

/-- with `ensure_ascii=True` the output consists of printable ASCII characters only -/
theorem dumps_ascii (s : List Nat) : (dumps true s).all isAsciiPrintable = true := by
  unfold dumps
  simp only [List.all_append, List.all_cons, List.all_nil, Bool.and_true, if_true]
  have : (s.flatMap escAscii).all isAsciiPrintable = true := by
    rw [List.all_flatMap]
    simp [escAscii_ascii]
  simp [this, isAsciiPrintable]

end YatimlModel.JsonString
